//! vhdl_ls cases
use serde_json::{json, Value};

fn arr4(v: &Value) -> [u32; 4] {
    let a = v.as_array().unwrap();
    [a[0].as_u64().unwrap() as u32, a[1].as_u64().unwrap() as u32, a[2].as_u64().unwrap() as u32, a[3].as_u64().unwrap() as u32]
}

/// {"tokens": [[sl,sc,el,ec,type,mods]...], "filter": [sl,sc,el,ec] | null}
pub fn encode(case: &Value) -> Value {
    let tokens: Vec<([u32; 4], u32, u32)> = case["tokens"]
        .as_array()
        .unwrap()
        .iter()
        .map(|t| (arr4(t), t[4].as_u64().unwrap() as u32, t[5].as_u64().unwrap() as u32))
        .collect();
    let filter = if case["filter"].is_null() { None } else { Some(arr4(&case["filter"])) };
    let out = vhdl_ls::verif_hooks::encode_semantic_tokens(&tokens, filter);
    json!({"data": out})
}
