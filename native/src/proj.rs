//! Whole projects through the public API: Config + Project::from_config, update_source, analyse, queries.
use serde_json::{json, Value};
use std::path::{Path, PathBuf};
use vhdl_lang::{Config, Diagnostic, NullMessages, Project, Source, SrcPos};

fn pos_json(p: &SrcPos) -> Value {
    let r = p.range();
    json!([p.source.file_name().to_string_lossy(), r.start.line, r.start.character, r.end.line, r.end.character])
}

fn diag_json(d: &Diagnostic) -> Value {
    json!([pos_json(&d.pos), format!("{:?}", d.code), d.message, d.related.iter().map(|(p, m)| json!([pos_json(p), m])).collect::<Vec<_>>()])
}

pub struct Loaded {
    pub project: Project,
    pub dir: PathBuf,
}

/// {"dir": scratch dir, "libs": [[lib, [file names]]], "third_party": [libs], "texts": {file name: text (latin-1 code points as string)}}
pub fn load(case: &Value) -> Loaded {
    let dir = PathBuf::from(case["dir"].as_str().unwrap());
    let _ = std::fs::remove_dir_all(&dir);
    std::fs::create_dir_all(&dir).unwrap();
    let mut toml = String::from("standard = \"2008\"\n[libraries]\n");
    let third: Vec<&str> = case["third_party"].as_array().map(|a| a.iter().map(|x| x.as_str().unwrap()).collect()).unwrap_or_default();
    for lib in case["libs"].as_array().unwrap() {
        let name = lib[0].as_str().unwrap();
        let files: Vec<String> = lib[1].as_array().unwrap().iter().map(|f| format!("\"{}\"", f.as_str().unwrap())).collect();
        toml += &format!("{}.files = [{}]\n", name, files.join(", "));
        if third.contains(&name) {
            toml += &format!("{}.is_third_party = true\n", name);
        }
        for f in lib[1].as_array().unwrap() {
            let f = f.as_str().unwrap();
            write_latin1(&dir.join(f), case["texts"][f].as_str().unwrap_or(""));
        }
    }
    // the bundled std library, from the checkout under test
    let std = PathBuf::from(case["std"].as_str().unwrap());
    toml += &format!("std.files = [\"{}/*.vhd\"]\nstd.is_third_party = true\n", std.display());
    let config = Config::from_str(&toml, &dir).expect("config");
    let mut project = Project::from_config(config, &mut NullMessages);
    project.enable_all_linters();
    Loaded { project, dir }
}

fn write_latin1(path: &Path, text: &str) {
    let bytes: Vec<u8> = text.chars().map(|c| c as u32 as u8).collect();
    std::fs::write(path, bytes).unwrap();
}

pub fn observe(project: &mut Project, dir: &Path, names: &[String]) -> Value {
    let mut diags: Vec<Value> = project.analyse().iter().map(diag_json).collect();
    diags.sort_by_key(|d| d.to_string());
    let mut refs = vec![];
    for n in names {
        if let Some(src) = project.get_source(&dir.join(n)) {
            let mut r: Vec<Value> = project
                .find_all_entity_references(&src)
                .iter()
                .map(|(pos, ent)| json!([pos_json(pos), ent.decl_pos().map(pos_json)]))
                .collect();
            r.sort_by_key(|d| d.to_string());
            refs.push(json!([n, r]));
        }
    }
    json!({"diagnostics": diags, "references": refs})
}

/// load + {"steps": [[file, text]], "fresh_texts": {file: text}, "fresh_unmapped": [files], "names": [files]}:
/// the incrementally maintained project after the steps (analysis after each) against a project loaded from the final texts
pub fn history(case: &Value) -> Value {
    let names: Vec<String> = case["names"].as_array().unwrap().iter().map(|n| n.as_str().unwrap().to_string()).collect();
    let mut inc = load(case);
    inc.project.analyse();
    for st in case["steps"].as_array().unwrap() {
        let path = inc.dir.join(st[0].as_str().unwrap());
        let text: String = st[1].as_str().unwrap().to_string();
        let src = match inc.project.get_source(&path) {
            Some(src) => {
                src.change(None, &text);
                src
            }
            None => Source::inline(&path, &text),
        };
        inc.project.update_source(&src);
        inc.project.analyse();
    }
    let got = observe(&mut inc.project, &inc.dir, &names);
    let mut c2 = case.clone();
    c2["texts"] = case["fresh_texts"].clone();
    let mut fresh = load(&c2);
    for f in case["fresh_unmapped"].as_array().unwrap() {
        let f = f.as_str().unwrap();
        let src = Source::inline(&fresh.dir.join(f), case["fresh_texts"][f].as_str().unwrap());
        fresh.project.update_source(&src);
    }
    let want = observe(&mut fresh.project, &fresh.dir, &names);
    let _ = std::fs::remove_dir_all(&inc.dir);
    json!({"incremental": got, "fresh": want})
}

/// load + analyse: {"diagnostics": [...], "references": [...]} for {"names": [files]}
pub fn analyse(case: &Value) -> Value {
    let names: Vec<String> = case["names"].as_array().unwrap().iter().map(|n| n.as_str().unwrap().to_string()).collect();
    let mut l = load(case);
    let out = observe(&mut l.project, &l.dir, &names);
    let _ = std::fs::remove_dir_all(&l.dir);
    out
}

fn ent_json(e: vhdl_lang::EntRef<'_>) -> Value {
    use vhdl_lang::Related;
    let related = match e.related {
        Related::DeclaredBy(o) => json!(["DeclaredBy", o.id().to_raw()]),
        Related::InstanceOf(o) => json!(["InstanceOf", o.id().to_raw()]),
        Related::ImplicitOf(o) => json!(["ImplicitOf", o.id().to_raw()]),
        Related::DerivedFrom(o) => json!(["DerivedFrom", o.id().to_raw()]),
        Related::None => json!(["None", 0]),
    };
    json!({"id": e.id().to_raw(), "decl": e.decl_pos().map(pos_json), "name": e.designator().to_string(), "related": related})
}

/// load + analyse + the editor queries at {"file": name, "line": l, "character": c}; {"second": [file, l, c]} optionally resolves a second cursor
pub fn query(case: &Value) -> Value {
    use vhdl_lang::Position;
    let mut l = load(case);
    l.project.analyse();
    let project = &l.project;
    let src = project.get_source(&l.dir.join(case["file"].as_str().unwrap())).expect("source");
    let cursor = Position::new(case["line"].as_u64().unwrap() as u32, case["character"].as_u64().unwrap() as u32);
    let item = project.item_at_cursor(&src, cursor).map(|(p, e)| json!([pos_json(&p), ent_json(e)]));
    let decl = project.find_declaration(&src, cursor);
    let definition = project.find_definition(&src, cursor).map(ent_json);
    let type_definition = project.find_type_definition(&src, cursor).map(ent_json);
    let implementation: Vec<Value> = project.find_implementation(&src, cursor).into_iter().map(ent_json).collect();
    let completions = project.list_completion_options(&src, cursor).len();
    let (references, hover) = match decl {
        Some(e) => (
            project.find_all_references(e).iter().map(pos_json).collect::<Vec<_>>(),
            project.format_declaration(e),
        ),
        None => (vec![], None),
    };
    let second = case.get("second").filter(|s| !s.is_null()).map(|s| {
        let src2 = project.get_source(&l.dir.join(s[0].as_str().unwrap())).expect("source");
        let c2 = Position::new(s[1].as_u64().unwrap() as u32, s[2].as_u64().unwrap() as u32);
        project.find_declaration(&src2, c2).map(ent_json)
    });
    let out = json!({"item": item, "declaration": decl.map(ent_json), "definition": definition, "type_definition": type_definition,
        "implementation": implementation, "completions": completions, "references": references, "hover": hover, "second": second});
    let _ = std::fs::remove_dir_all(&l.dir);
    out
}
