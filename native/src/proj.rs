//! Whole projects through the public API: Config + Project::from_config, update_source, analyse, queries.
use serde_json::{json, Value};
use std::path::{Path, PathBuf};
use vhdl_lang::{Config, Diagnostic, NullMessages, Project, Source, SrcPos};

fn pos_json(p: &SrcPos) -> Value {
    let r = p.range();
    json!([p.source.file_name().to_string_lossy(), r.start.line, r.start.character, r.end.line, r.end.character])
}

fn diag_json(d: &Diagnostic) -> Value {
    json!([pos_json(&d.pos), format!("{:?}", d.code), d.message, d.related.iter().map(|(p, m)| json!([pos_json(p), m])).collect::<Vec<_>>()])
}

pub struct Loaded {
    pub project: Project,
    pub dir: PathBuf,
}

/// {"dir": scratch dir, "libs": [[lib, [file names]]], "third_party": [libs], "texts": {file name: text (latin-1 code points as string)}}
pub fn load(case: &Value) -> Loaded {
    let dir = PathBuf::from(case["dir"].as_str().unwrap());
    let _ = std::fs::remove_dir_all(&dir);
    std::fs::create_dir_all(&dir).unwrap();
    let mut toml = String::from("standard = \"2008\"\n[libraries]\n");
    let third: Vec<&str> = case["third_party"].as_array().map(|a| a.iter().map(|x| x.as_str().unwrap()).collect()).unwrap_or_default();
    for lib in case["libs"].as_array().unwrap() {
        let name = lib[0].as_str().unwrap();
        let files: Vec<String> = lib[1].as_array().unwrap().iter().map(|f| format!("\"{}\"", f.as_str().unwrap())).collect();
        toml += &format!("{}.files = [{}]\n", name, files.join(", "));
        if third.contains(&name) {
            toml += &format!("{}.is_third_party = true\n", name);
        }
        for f in lib[1].as_array().unwrap() {
            let f = f.as_str().unwrap();
            write_latin1(&dir.join(f), case["texts"][f].as_str().unwrap_or(""));
        }
    }
    // the bundled std library, from the checkout under test
    let std = PathBuf::from(case["std"].as_str().unwrap());
    toml += &format!("std.files = [\"{}/*.vhd\"]\nstd.is_third_party = true\n", std.display());
    let config = Config::from_str(&toml, &dir).expect("config");
    let mut project = Project::from_config(config, &mut NullMessages);
    project.enable_all_linters();
    Loaded { project, dir }
}

fn write_latin1(path: &Path, text: &str) {
    let bytes: Vec<u8> = text.chars().map(|c| c as u32 as u8).collect();
    std::fs::write(path, bytes).unwrap();
}

pub fn observe(project: &mut Project, dir: &Path, names: &[String]) -> Value {
    let mut diags: Vec<Value> = project.analyse().iter().map(diag_json).collect();
    diags.sort_by_key(|d| d.to_string());
    let mut refs = vec![];
    for n in names {
        if let Some(src) = project.get_source(&dir.join(n)) {
            let mut r: Vec<Value> = project
                .find_all_entity_references(&src)
                .iter()
                .map(|(pos, ent)| json!([pos_json(pos), ent.decl_pos().map(pos_json)]))
                .collect();
            r.sort_by_key(|d| d.to_string());
            refs.push(json!([n, r]));
        }
    }
    json!({"diagnostics": diags, "references": refs})
}

/// load + {"steps": [[file, text]], "fresh_texts": {file: text}, "fresh_unmapped": [files], "names": [files]}:
/// the incrementally maintained project after the steps (analysis after each) against a project loaded from the final texts
pub fn history(case: &Value) -> Value {
    let names: Vec<String> = case["names"].as_array().unwrap().iter().map(|n| n.as_str().unwrap().to_string()).collect();
    let mut inc = load(case);
    inc.project.analyse();
    for st in case["steps"].as_array().unwrap() {
        let path = inc.dir.join(st[0].as_str().unwrap());
        let text: String = st[1].as_str().unwrap().to_string();
        let src = match inc.project.get_source(&path) {
            Some(src) => {
                src.change(None, &text);
                src
            }
            None => Source::inline(&path, &text),
        };
        inc.project.update_source(&src);
        inc.project.analyse();
    }
    let got = observe(&mut inc.project, &inc.dir, &names);
    let mut c2 = case.clone();
    c2["texts"] = case["fresh_texts"].clone();
    let mut fresh = load(&c2);
    for f in case["fresh_unmapped"].as_array().unwrap() {
        let f = f.as_str().unwrap();
        let src = Source::inline(&fresh.dir.join(f), case["fresh_texts"][f].as_str().unwrap());
        fresh.project.update_source(&src);
    }
    let want = observe(&mut fresh.project, &fresh.dir, &names);
    let _ = std::fs::remove_dir_all(&inc.dir);
    json!({"incremental": got, "fresh": want})
}
