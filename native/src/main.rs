//! Replay binary: one JSON case per stdin line, one JSON result per stdout line.
use serde_json::{json, Value};
use std::io::{BufRead, Write};
use std::panic::{catch_unwind, AssertUnwindSafe};

mod c10;
mod c17;
mod lang;
mod ls;
mod proj;
mod root;

fn cps_to_string(v: &Value) -> String {
    match v {
        Value::String(s) => s.clone(),
        Value::Array(a) => a
            .iter()
            .map(|x| char::from_u32(x.as_u64().unwrap() as u32).unwrap_or('\u{FFFD}'))
            .collect(),
        _ => String::new(),
    }
}

fn string_to_cps(s: &str) -> Value {
    Value::Array(s.chars().map(|c| json!(c as u32)).collect())
}

fn main() {
    let prop = std::env::args().nth(1).expect("property id");
    std::panic::set_hook(Box::new(|_| {}));
    let stdin = std::io::stdin();
    let stdout = std::io::stdout();
    for line in stdin.lock().lines() {
        let line = line.unwrap();
        if line.trim().is_empty() {
            continue;
        }
        let case: Value = serde_json::from_str(&line).expect("json case");
        let res = catch_unwind(AssertUnwindSafe(|| match prop.as_str() {
            "c10" => c10::run(&case),
            "c17lex" => c17::lex(&case),
            "c17tree" => c17::tree(&case),
            "lex" => lang::lex(&case),
            "internsched" => lang::intern_schedule(&case),
            "projhist" => proj::history(&case),
            "analyse" => proj::analyse(&case),
            "query" => proj::query(&case),
            "libhist" => root::library_history(&case),
            "makeuse" => root::make_use_of(&case),
            "reset" => root::reset(&case),
            "encode" => ls::encode(&case),
            "format" => lang::format(&case),
            "twolex" => lang::two_lexers(&case),
            "parse" => lang::parse(&case),
            "latin1file" => lang::latin1_file(&case),
            "render" => lang::render(&case),
            "intern" => lang::intern(&case),
            _ => json!({"error": "unknown property"}),
        }));
        let out = match res {
            Ok(v) => v,
            Err(e) => {
                let msg = e
                    .downcast_ref::<String>()
                    .cloned()
                    .or_else(|| e.downcast_ref::<&str>().map(|s| s.to_string()))
                    .unwrap_or_default();
                json!({"panic": msg})
            }
        };
        let mut o = stdout.lock();
        writeln!(o, "{}", out).unwrap();
        o.flush().unwrap();
    }
}
