use crate::{cps_to_string, string_to_cps};
use serde_json::{json, Value};
use std::path::Path;
use vhdl_lang::{Position, Range, Source};

/// {"doc": [codepoints], "events": [{"range": [sl,sc,el,ec] | null, "text": [codepoints]}]}
pub fn run(case: &Value) -> Value {
    let doc = cps_to_string(&case["doc"]);
    let source = Source::inline(Path::new("/verif-native/c10.vhd"), &doc);
    for ev in case["events"].as_array().unwrap() {
        let text = cps_to_string(&ev["text"]);
        match ev["range"].as_array() {
            Some(r) => {
                let g = |i: usize| r[i].as_u64().unwrap() as u32;
                let range = Range::new(Position::new(g(0), g(1)), Position::new(g(2), g(3)));
                source.change(Some(&range), &text);
            }
            None => source.change(None, &text),
        }
    }
    let contents = source.contents();
    let mut lines = Vec::new();
    let mut i = 0;
    while let Some(l) = contents.get_line(i) {
        lines.push(string_to_cps(l));
        i += 1;
    }
    json!({"lines": lines, "num_lines": contents.num_lines()})
}
