//! Library / DesignRoot bookkeeping cases (through vhdl_lang::verif_hooks::root)
use serde_json::{json, Value};
use vhdl_lang::verif_hooks::root;

fn state_json(s: &root::LibraryState) -> Value {
    json!({"units": s.units, "by_source": s.by_source, "dups": s.duplicates, "added": s.added, "removed": s.removed})
}

/// {"files": [names], "contents": [texts], "init": [content idx per file] | null, "steps": [[file, content idx, reset]]}
pub fn library_history(case: &Value) -> Value {
    let files: Vec<&str> = case["files"].as_array().unwrap().iter().map(|f| f.as_str().unwrap()).collect();
    let contents: Vec<&str> = case["contents"].as_array().unwrap().iter().map(|f| f.as_str().unwrap()).collect();
    let init: Option<Vec<&str>> = case["init"].as_array().map(|a| a.iter().map(|c| contents[c.as_u64().unwrap() as usize]).collect());
    let steps: Vec<(usize, &str, bool)> = case["steps"]
        .as_array()
        .unwrap()
        .iter()
        .map(|s| (s[0].as_u64().unwrap() as usize, contents[s[1].as_u64().unwrap() as usize], s[2].as_bool().unwrap()))
        .collect();
    let (init_state, states) = root::library_history(&files, init.as_deref(), &steps);
    json!({"init_state": init_state.as_ref().map(state_json), "states": states.iter().map(state_json).collect::<Vec<_>>()})
}

/// {"n": units, "edges": [[user, unit]], "user": u, "unit": v}
pub fn make_use_of(case: &Value) -> Value {
    let edges: Vec<(usize, usize)> = case["edges"].as_array().unwrap().iter().map(|e| (e[0].as_u64().unwrap() as usize, e[1].as_u64().unwrap() as usize)).collect();
    let (is_err, after) = root::make_use_of_case(
        case["n"].as_u64().unwrap() as usize,
        &edges,
        case["user"].as_u64().unwrap() as usize,
        case["unit"].as_u64().unwrap() as usize,
    );
    json!({"is_err": is_err, "edges": after})
}

/// {"files": [[name, text]], "edges": [[user key, unit key]], "library_all": [keys], "missing": [[user, primary, secondary|null]], "changes": [[file, text]]}
pub fn reset(case: &Value) -> Value {
    let s = |v: &Value| v.as_str().unwrap().to_string();
    let files: Vec<(String, String)> = case["files"].as_array().unwrap().iter().map(|f| (s(&f[0]), s(&f[1]))).collect();
    let edges: Vec<(String, String)> = case["edges"].as_array().unwrap().iter().map(|f| (s(&f[0]), s(&f[1]))).collect();
    let all: Vec<String> = case["library_all"].as_array().unwrap().iter().map(s).collect();
    let missing: Vec<(String, String, Option<String>)> = case["missing"].as_array().unwrap().iter().map(|m| (s(&m[0]), s(&m[1]), m[2].as_str().map(|x| x.to_string()))).collect();
    let changes: Vec<(usize, String)> = case["changes"].as_array().unwrap().iter().map(|c| (c[0].as_u64().unwrap() as usize, s(&c[1]))).collect();
    let files_r: Vec<(&str, &str)> = files.iter().map(|(a, b)| (a.as_str(), b.as_str())).collect();
    let edges_r: Vec<(&str, &str)> = edges.iter().map(|(a, b)| (a.as_str(), b.as_str())).collect();
    let all_r: Vec<&str> = all.iter().map(|a| a.as_str()).collect();
    let missing_r: Vec<(&str, &str, Option<&str>)> = missing.iter().map(|(a, b, c)| (a.as_str(), b.as_str(), c.as_deref())).collect();
    let changes_r: Vec<(usize, &str)> = changes.iter().map(|(a, b)| (*a, b.as_str())).collect();
    let o = root::reset_case(&files_r, &edges_r, &all_r, &missing_r, &changes_r);
    json!({"units": o.units, "users_of": o.users_of, "library_all_users": o.library_all_users, "missing": o.missing, "left": o.added_or_removed_left})
}
