//! vhdl_lang front end: tokenizer-level cases
use crate::cps_to_string;
use serde_json::{json, Value};
use vhdl_lang::verif_hooks as vh;

fn pos(p: vhdl_lang::Position) -> Value {
    json!([p.line, p.character])
}

fn comment(c: &vh::Comment) -> Value {
    json!({"value": c.value, "start": pos(c.range.start), "end": pos(c.range.end), "multi_line": c.multi_line})
}

pub fn token_json(t: &vhdl_lang::Token) -> Value {
    let (leading, trailing) = match &t.comments {
        Some(c) => (
            c.leading.iter().map(comment).collect::<Vec<_>>(),
            c.trailing.as_ref().map(comment),
        ),
        None => (vec![], None),
    };
    json!({
        "kind": format!("{:?}", t.kind),
        "value": format!("{:?}", t.value),
        "start": pos(t.pos.range.start),
        "end": pos(t.pos.range.end),
        "leading": leading,
        "trailing": trailing,
    })
}

/// {"text": [codepoints]} -> tokens and diagnostics of the tokenizer alone
pub fn lex(case: &Value) -> Value {
    let text = cps_to_string(&case["text"]);
    let (tokens, diagnostics) = vh::tokenize(&text);
    let toks: Vec<Value> = tokens.iter().map(token_json).collect();
    let diags: Vec<Value> = diagnostics
        .iter()
        .map(|d| json!({"start": pos(d.pos.range.start), "end": pos(d.pos.range.end), "message": d.message}))
        .collect();
    json!({"tokens": toks, "diagnostics": diags})
}

/// {"text": [...]} -> for every token: its rendering by the formatter's Buffer::push_token
pub fn render(case: &Value) -> Value {
    let text = cps_to_string(&case["text"]);
    let (tokens, diagnostics) = vh::tokenize(&text);
    let out: Vec<Value> = tokens.iter().map(|t| json!(vh::render_token(t))).collect();
    json!({"rendered": out, "ndiag": diagnostics.len()})
}

/// {"names": [[bytes]...]} -> ids
pub fn intern(case: &Value) -> Value {
    let names: Vec<Vec<u8>> = case["names"]
        .as_array()
        .unwrap()
        .iter()
        .map(|n| n.as_array().unwrap().iter().map(|b| b.as_u64().unwrap() as u8).collect())
        .collect();
    json!({"ids": vh::intern(&names)})
}

/// {"bytes": [..]} -> lines of the document read from a file on disk (ISO-8859-1)
pub fn latin1_file(case: &Value) -> Value {
    let bytes: Vec<u8> = case["bytes"].as_array().unwrap().iter().map(|b| b.as_u64().unwrap() as u8).collect();
    let dir = std::env::temp_dir().join(format!("verif-native-{}", std::process::id()));
    std::fs::create_dir_all(&dir).unwrap();
    let path = dir.join("latin1.vhd");
    std::fs::write(&path, &bytes).unwrap();
    let source = vhdl_lang::Source::from_latin1_file(&path).unwrap();
    let _ = std::fs::remove_dir_all(&dir);
    let contents = source.contents();
    let mut lines = Vec::new();
    let mut i = 0;
    while let Some(l) = contents.get_line(i) {
        lines.push(crate::string_to_cps(l));
        i += 1;
    }
    json!({"lines": lines})
}

/// {"text": [...]} -> shape of the parse result (with a watchdog: {"timeout": true} if the parser does not return)
pub fn parse(case: &Value) -> Value {
    use std::sync::mpsc;
    let text = cps_to_string(&case["text"]);
    let (tx, rx) = mpsc::channel();
    std::thread::Builder::new()
        .stack_size(64 << 20)
        .spawn(move || {
            let r = std::panic::catch_unwind(|| parse_inner(&text));
            let _ = tx.send(r.unwrap_or_else(|_| json!({"panic": "parser panicked"})));
        })
        .unwrap();
    match rx.recv_timeout(std::time::Duration::from_secs(case["timeout_s"].as_u64().unwrap_or(20))) {
        Ok(v) => v,
        Err(_) => {
            // the parser thread cannot be cancelled: report and leave the process
            println!("{}", json!({"timeout": true}));
            std::process::exit(0);
        }
    }
}

fn parse_inner(text: &str) -> Value {
    use vhdl_lang::{Source, VHDLParser, VHDLStandard};
    let parser = VHDLParser::new(VHDLStandard::default());
    let source = Source::inline(std::path::Path::new("verif_native.vhd"), text);
    let mut diagnostics = Vec::new();
    let file = parser.parse_design_source(&source, &mut diagnostics);
    let units: Vec<Value> = file
        .design_units
        .iter()
        .map(|(tokens, _unit)| {
            let toks: Vec<Value> = tokens.iter().map(|t| json!([pos(t.pos.range.start), pos(t.pos.range.end)])).collect();
            json!({"tokens": toks})
        })
        .collect();
    let diags: Vec<Value> = diagnostics
        .iter()
        .map(|d| json!({"start": pos(d.pos.range.start), "end": pos(d.pos.range.end), "message": d.message}))
        .collect();
    json!({"units": units, "diagnostics": diags})
}

/// {"bytes": [..]} -> lexemes and kinds of both lexers on the same Latin-1 bytes
pub fn two_lexers(case: &Value) -> Value {
    let bytes: Vec<u8> = case["bytes"].as_array().unwrap().iter().map(|b| b.as_u64().unwrap() as u8).collect();
    // vhdl_syntax
    let mut syntax_err = false;
    let mut syntax_kinds = Vec::new();
    let mut syntax_lexemes = Vec::new();
    let mut directive = false;
    for (t, e) in vhdl_syntax::tokens::TokenStream::from(&bytes[..]) {
        if e.is_some() {
            syntax_err = true;
        }
        use vhdl_syntax::tokens::TokenKind;
        match t.kind() {
            TokenKind::Eof => continue,
            TokenKind::ToolDirective => directive = true,
            _ => {}
        }
        let k = match t.kind() {
            TokenKind::Keyword(kw) => format!("Keyword:{:?}", kw),
            other => format!("{:?}", other),
        };
        syntax_kinds.push(k);
        syntax_lexemes.push(t.text().as_bytes().to_vec());
    }
    // vhdl_lang
    let text: String = bytes.iter().map(|b| *b as char).collect();
    let (tokens, diagnostics) = vh::tokenize(&text);
    let chars: Vec<char> = text.chars().collect();
    // one char per byte and no astral chars: the column is the char index within the line
    let mut line_start = vec![0usize];
    let mut i = 0;
    while i < chars.len() {
        if chars[i] == '\n' {
            line_start.push(i + 1);
        } else if chars[i] == '\r' {
            if i + 1 < chars.len() && chars[i + 1] == '\n' {
                i += 1;
            }
            line_start.push(i + 1);
        }
        i += 1;
    }
    let idx = |p: vhdl_lang::Position| line_start.get(p.line as usize).map(|s| s + p.character as usize).unwrap_or(chars.len());
    let mut lang_kinds = Vec::new();
    let mut lang_lexemes = Vec::new();
    for t in &tokens {
        let k = format!("{:?}", t.kind);
        if k == "GraveAccent" {
            directive = true;
        }
        lang_kinds.push(k);
        let (s, e) = (idx(t.pos.range.start), idx(t.pos.range.end));
        lang_lexemes.push(bytes[s.min(bytes.len())..e.min(bytes.len())].to_vec());
    }
    json!({"syntax_kinds": syntax_kinds, "syntax_lexemes": syntax_lexemes, "syntax_err": syntax_err,
           "lang_kinds": lang_kinds, "lang_lexemes": lang_lexemes, "lang_err": !diagnostics.is_empty(), "directive": directive})
}

/// {"text": [...]} -> parse, format, parse again; compare tokens (kind, value) and comments (up to trailing blanks) per unit
pub fn format(case: &Value) -> Value {
    use vhdl_lang::{Source, VHDLFormatter, VHDLParser, VHDLStandard};
    let text = cps_to_string(&case["text"]);
    let parser = VHDLParser::new(VHDLStandard::default());
    let source = Source::inline(std::path::Path::new("verif_native_a.vhd"), &text);
    let mut d1 = Vec::new();
    let file = parser.parse_design_source(&source, &mut d1);
    if !d1.is_empty() {
        return json!({"ndiag": d1.len()});
    }
    let out = VHDLFormatter::format_design_file(&file);
    let source2 = Source::inline(std::path::Path::new("verif_native_b.vhd"), &out);
    let mut d2 = Vec::new();
    let file2 = parser.parse_design_source(&source2, &mut d2);
    let mut same_tokens = file.design_units.len() == file2.design_units.len();
    let mut same_comments = true;
    let cm = |c: &vh::Comment| (c.value.trim_end().to_string(), c.multi_line);
    for ((t1, _), (t2, _)) in file.design_units.iter().zip(file2.design_units.iter()) {
        if t1.len() != t2.len() {
            same_tokens = false;
            continue;
        }
        for (a, b) in t1.iter().zip(t2.iter()) {
            if !a.equal_format(b) {
                same_tokens = false;
            }
            let ca = a.comments.as_ref().map(|c| (c.leading.iter().map(cm).collect::<Vec<_>>(), c.trailing.as_ref().map(cm)));
            let cb = b.comments.as_ref().map(|c| (c.leading.iter().map(cm).collect::<Vec<_>>(), c.trailing.as_ref().map(cm)));
            let empty = (Vec::new(), None);
            if ca.unwrap_or(empty.clone()) != cb.unwrap_or(empty) {
                same_comments = false;
            }
        }
    }
    json!({"ndiag": 0, "formatted": crate::string_to_cps(&out), "ndiag2": d2.len(), "same_tokens": same_tokens, "same_comments": same_comments})
}

/// {"names": [[bytes],[bytes]], "ext": bool, "schedule": [thread...]} -> ids
pub fn intern_schedule(case: &Value) -> Value {
    let names: Vec<Vec<u8>> = case["names"].as_array().unwrap().iter().map(|n| n.as_array().unwrap().iter().map(|b| b.as_u64().unwrap() as u8).collect()).collect();
    let schedule: Vec<usize> = case["schedule"].as_array().unwrap().iter().map(|t| t.as_u64().unwrap() as usize).collect();
    let ids = vh::intern_schedule([&names[0], &names[1]], case["ext"].as_bool().unwrap(), &schedule);
    json!({"ids": ids})
}
