use serde_json::{json, Value};
use vhdl_syntax::tokens::tokenizer::Tokenizer;
use vhdl_syntax::tokens::{Token, TokenKind};

fn bytes_of(case: &Value) -> Vec<u8> {
    case["bytes"].as_array().unwrap().iter().map(|b| b.as_u64().unwrap() as u8).collect()
}

fn render(tokens: &[Token]) -> (Vec<u8>, usize, bool) {
    let mut out = Vec::new();
    let mut total = 0;
    let mut ok = !tokens.is_empty();
    for (i, t) in tokens.iter().enumerate() {
        total += t.byte_len();
        let before = out.len();
        t.write_to(&mut out).unwrap();
        if out.len() - before != t.byte_len() {
            ok = false;
        }
        if (t.kind() == TokenKind::Eof) != (i == tokens.len() - 1) {
            ok = false;
        }
    }
    (out, total, ok)
}

/// {"bytes": [..]} -> printed bytes / byte_len of the raw tokenizer output and of the merged token stream
pub fn lex(case: &Value) -> Value {
    let bytes = bytes_of(case);
    let raw: Vec<Token> = Tokenizer::new(bytes.iter().copied()).map(|(t, _)| t).collect();
    let (p1, l1, ok1) = render(&raw);
    let merged: Vec<Token> = vhdl_syntax::tokens::TokenStream::from(&bytes[..]).map(|(t, _)| t).collect();
    let (p2, l2, ok2) = render(&merged);
    let kinds: Vec<String> = merged.iter().map(|t| format!("{:?}", t.kind())).collect();
    json!({"printed": p1, "byte_len": l1, "printed_stream": p2, "byte_len_stream": l2, "shape_ok": ok1 && ok2, "kinds": kinds})
}
