use serde_json::{json, Value};
use vhdl_syntax::tokens::tokenizer::Tokenizer;
use vhdl_syntax::tokens::{Token, TokenKind};

fn bytes_of(case: &Value) -> Vec<u8> {
    case["bytes"].as_array().unwrap().iter().map(|b| b.as_u64().unwrap() as u8).collect()
}

fn render(tokens: &[Token]) -> (Vec<u8>, usize, bool) {
    let mut out = Vec::new();
    let mut total = 0;
    let mut ok = !tokens.is_empty();
    for (i, t) in tokens.iter().enumerate() {
        total += t.byte_len();
        let before = out.len();
        t.write_to(&mut out).unwrap();
        if out.len() - before != t.byte_len() {
            ok = false;
        }
        if (t.kind() == TokenKind::Eof) != (i == tokens.len() - 1) {
            ok = false;
        }
    }
    (out, total, ok)
}

/// {"bytes": [..]} -> printed bytes / byte_len of the raw tokenizer output and of the merged token stream
pub fn lex(case: &Value) -> Value {
    let bytes = bytes_of(case);
    let raw: Vec<Token> = Tokenizer::new(bytes.iter().copied()).map(|(t, _)| t).collect();
    let (p1, l1, ok1) = render(&raw);
    let merged: Vec<Token> = vhdl_syntax::tokens::TokenStream::from(&bytes[..]).map(|(t, _)| t).collect();
    let (p2, l2, ok2) = render(&merged);
    let kinds: Vec<String> = merged.iter().map(|t| format!("{:?}", t.kind())).collect();
    json!({"printed": p1, "byte_len": l1, "printed_stream": p2, "byte_len_stream": l2, "shape_ok": ok1 && ok2, "kinds": kinds})
}

fn shape(node: &vhdl_syntax::syntax::node::SyntaxNode) -> String {
    use vhdl_syntax::syntax::node::SyntaxElement;
    let mut out = format!("({:?}", node.kind());
    for child in node.children_with_tokens() {
        match child {
            SyntaxElement::Node(n) => out.push_str(&shape(&n)),
            SyntaxElement::Token(t) => out.push_str(&format!(" {:?}/{}", t.kind(), t.byte_len())),
        }
    }
    out.push(')');
    out
}

/// {"bytes": [..], "target": k, "newbyte": b} -> parse, print, offsets, error spans, identity rewrites, one token replacement
pub fn tree(case: &Value) -> Value {
    use vhdl_syntax::syntax::node::{SyntaxElement, SyntaxToken};
    use vhdl_syntax::syntax::rewrite::{RewriteAction, TokenRewrite, TokenRewriteAction, TokenRewriter};
    use vhdl_syntax::syntax::AstNode;
    let bytes = bytes_of(case);
    let (file, diags) = vhdl_syntax::parser::parse(vhdl_syntax::tokens::TokenStream::from(&bytes[..]));
    let root = file.raw();
    let print = |n: &vhdl_syntax::syntax::node::SyntaxNode| {
        let mut out = Vec::new();
        n.write_to(&mut out).unwrap();
        out
    };
    let printed = print(&root);
    let mut tiles = true;
    let mut spans = Vec::new();
    fn walk(n: &vhdl_syntax::syntax::node::SyntaxNode, mut at: usize, tiles: &mut bool, spans: &mut Vec<(usize, usize, usize)>) -> usize {
        use vhdl_syntax::syntax::node::SyntaxElement;
        if n.offset() != at {
            *tiles = false;
        }
        let start = at;
        for child in n.children_with_tokens() {
            match child {
                SyntaxElement::Node(c) => at = walk(&c, at, tiles, spans),
                SyntaxElement::Token(t) => {
                    if t.offset() != at {
                        *tiles = false;
                    }
                    spans.push((t.offset(), t.byte_len(), t.token().text_len()));
                    at = t.offset() + t.byte_len();
                }
            }
        }
        if n.byte_len() != at - start {
            *tiles = false;
        }
        at
    }
    let at = walk(&root, 0, &mut tiles, &mut spans);
    if at != bytes.len() {
        tiles = false;
    }
    let spans_ok = diags.iter().all(|d| d.span().start <= d.span().end && d.span().end <= bytes.len());
    let leave = root.rewrite(|_| RewriteAction::Leave);
    struct Keep;
    impl TokenRewrite for Keep {
        fn token(&mut self, _t: &SyntaxToken) -> TokenRewriteAction {
            TokenRewriteAction::Keep
        }
    }
    let keep = TokenRewriter::new(Keep).rewrite(root.clone());
    let target = case["target"].as_u64().unwrap_or(0) as usize;
    let newbyte = case["newbyte"].as_u64().unwrap_or(0) as u8;
    let (replaced, expected) = if spans.len() > 1 && target < spans.len() - 1 {
        let mut seen = 0;
        let new_text = vec![0x51u8, newbyte];
        let r = root.rewrite(|el| match el {
            SyntaxElement::Token(t) => {
                let k = seen;
                seen += 1;
                if k == target {
                    RewriteAction::Change(SyntaxElement::Token(t.clone_with_text(&new_text[..])))
                } else {
                    RewriteAction::Leave
                }
            }
            _ => RewriteAction::Leave,
        });
        let (off, len, text_len) = spans[target];
        let mut exp = printed[..off + len - text_len].to_vec();
        exp.extend_from_slice(&new_text);
        exp.extend_from_slice(&printed[off + len..]);
        (Some(print(&r)), Some(exp))
    } else {
        (None, None)
    };
    json!({"printed": printed, "byte_len": root.byte_len(), "tiles": tiles, "spans_ok": spans_ok, "ndiag": diags.len(),
           "leave": print(&leave), "keep": print(&keep), "leave_same_shape": shape(&leave) == shape(&root), "keep_same_shape": shape(&keep) == shape(&root),
           "replaced": replaced, "replaced_expected": expected})
}
