"""dev helper: run one concrete/symbolic path of a part with a traceback.  usage: python3-vt dev_run.py C17 0 [key=val ...]"""
import sys, traceback, os, json
os.environ.setdefault('VERIF_TIER', 'quick')
import importlib
from mirsym import build
from mirsym.interp import Ctx, Violation
from mirsym.props.common import ConcInputs, SymInputs, Native
prop = sys.argv[1]; idx = int(sys.argv[2])
mod = importlib.import_module('mirsym.props.' + prop.lower())
cls = getattr(mod, prop)
chk = cls('quick', 0)
chk.I, chk.meta = build.load_interp(chk.crates, print)
part = chk.parts()[idx]
case = {}
for kv in sys.argv[3:]:
    k, v = kv.split('='); case[k] = int(v)
ctx = Ctx()
try:
    r = part.run(chk, ctx, ConcInputs(ctx, case) if case or '--conc' in sys.argv else SymInputs(ctx))
    print('result', r)
except Violation as v:
    print('Violation', v, ctx.notes)
except Exception:
    traceback.print_exc()
