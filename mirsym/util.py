"""Text helpers shared by the MIR loader and the interpreter."""
import re
from functools import lru_cache


class Panic(Exception):
    """A Rust panic reached on the current path (MIR assert failure, unwrap on None, ...)."""


class Infeasible(Exception):
    """The current path condition is unsatisfiable."""


class Unsupported(Exception):
    """The encoder cannot express what the code does here.  Never reported as success."""


class StepLimit(Unsupported):
    """The per-path step budget was exhausted (a non-termination candidate; decided by native replay)."""


def split_top(s, sep=','):
    """Split at top-level separators, respecting brackets, string and char literals."""
    out, depth, cur = [], 0, []
    i, n = 0, len(s)
    in_str = False
    while i < n:
        c = s[i]
        if in_str:
            cur.append(c)
            if c == '\\':
                cur.append(s[i + 1]); i += 1
            elif c == '"':
                in_str = False
        elif c == '"':
            in_str = True; cur.append(c)
        elif c == "'" and i + 2 < n and s[i + 2] == "'":
            cur.append(s[i:i + 3]); i += 2
        elif c == "'" and i + 3 < n and s[i + 1] == '\\' and s[i + 3] == "'":
            cur.append(s[i:i + 4]); i += 3
        elif c == "'" and s.startswith("'\\u{", i):
            j = s.index("}'", i) + 2
            cur.append(s[i:j]); i = j - 1
        elif c == "'" and s.startswith("'\\x", i) and i + 5 < n and s[i + 5] == "'":
            cur.append(s[i:i + 6]); i += 5
        elif c in '([{<':
            depth += 1; cur.append(c)
        elif c in ')]}' or (c == '>' and not (cur and cur[-1] in '-=')):
            depth -= 1; cur.append(c)
        elif c == sep and depth == 0:
            out.append(''.join(cur).strip()); cur = []
        else:
            cur.append(c)
        i += 1
    t = ''.join(cur).strip()
    if t:
        out.append(t)
    return out


def mask_literals(st):
    """Replace the inside of string/char literals by 'x' so that bracket matching is safe."""
    out = list(st); i = 0; n = len(st)
    while i < n:
        c = st[i]
        if c == '"':
            j = i + 1
            while j < n and st[j] != '"':
                if st[j] == '\\':
                    out[j] = 'x'; j += 1
                out[j] = 'x'; j += 1
            i = j
        elif c == "'":
            if i + 2 < n and st[i + 2] == "'" and st[i + 1] != '\\':
                out[i + 1] = 'x'; i += 2
            elif st.startswith("'\\u{", i):
                j = st.index("}'", i) + 1
                for k in range(i + 1, j): out[k] = 'x'
                i = j
            elif st.startswith("'\\x", i) and i + 5 < n and st[i + 5] == "'":
                for k in range(i + 1, i + 5): out[k] = 'x'
                i += 5
            elif i + 3 < n and st[i + 1] == '\\' and st[i + 3] == "'":
                out[i + 1] = out[i + 2] = 'x'; i += 3
        i += 1
    return ''.join(out)


# `X::<impl FnMut(..) -> R>::new`: an `impl Trait` generic ARGUMENT (stripped), as opposed to the path segment `<impl Type>` / `<impl at ..>`
_TRAIT_ARG = re.compile(r'::<(?:&mut |&)?impl (?:for<[^>]*> )?(?:std::\w+::|core::\w+::)?(?:Fn|FnMut|FnOnce|Into|AsRef|AsMut|Borrow|IntoIterator|Iterator|ToString|Write|Read|Display|Debug|Clone|Copy|Sized|Send|Sync)\b')


@lru_cache(maxsize=None)
def strip_generics(s):
    """Remove `::<...>` turbofish groups (but keep `<T as Trait>` and `<impl at ...>`)."""
    out, d = [], 0
    i, n = 0, len(s)
    while i < n:
        if d == 0 and s.startswith('::<', i) and not (s.startswith('::<impl ', i) and not _TRAIT_ARG.match(s, i)):
            d = 1; i += 3; continue
        if d > 0:
            if s[i] == '<': d += 1
            elif s[i] == '>' and s[i - 1] not in '-=': d -= 1
            i += 1; continue
        out.append(s[i]); i += 1
    return ''.join(out)


def match_close(s, i):
    """s[i] is an opening bracket; return index of the matching close (literal unaware)."""
    op = s[i]; cl = {'(': ')', '[': ']', '{': '}', '<': '>'}[op]
    d = 0
    for j in range(i, len(s)):
        if s[j] == op: d += 1
        elif s[j] == cl and not (cl == '>' and s[j - 1] in '-='):
            d -= 1
            if d == 0: return j
    raise ValueError('unbalanced: ' + s)


def top_find(s, sub, last=False):
    d = 0; res = -1
    for i, c in enumerate(s):
        if c in '([{<': d += 1
        elif c in ')]}' or (c == '>' and i > 0 and s[i - 1] not in '-='): d -= 1
        if d == 0 and s.startswith(sub, i):
            if not last: return i
            res = i
    return res


INT_BITS = {'u8': 8, 'i8': 8, 'u16': 16, 'i16': 16, 'u32': 32, 'i32': 32, 'u64': 64, 'i64': 64,
            'usize': 64, 'isize': 64, 'char': 32, 'u128': 128, 'i128': 128}
SIGNED = {'i8', 'i16', 'i32', 'i64', 'isize', 'i128'}


def parse_char_body(body):
    if body.startswith('\\'):
        esc = {'n': 10, 'r': 13, 't': 9, '0': 0, '\\': 92, "'": 39, '"': 34}
        if body[1] in esc and len(body) == 2: return esc[body[1]]
        if body[1] == 'u': return int(body[3:-1], 16)
        if body[1] == 'x': return int(body[2:], 16)
    return ord(body)


def rust_str_literal(body):
    """body is a Rust string literal including the quotes -> python str"""
    assert body[0] == '"' and body[-1] == '"'
    s = body[1:-1]; out = []; i = 0
    while i < len(s):
        c = s[i]
        if c == '\\':
            d = s[i + 1]
            if d == 'n': out.append('\n'); i += 2
            elif d == 'r': out.append('\r'); i += 2
            elif d == 't': out.append('\t'); i += 2
            elif d == '0': out.append('\0'); i += 2
            elif d == '\\': out.append('\\'); i += 2
            elif d == "'": out.append("'"); i += 2
            elif d == '"': out.append('"'); i += 2
            elif d == 'x': out.append(chr(int(s[i + 2:i + 4], 16))); i += 4
            elif d == 'u':
                j = s.index('}', i); out.append(chr(int(s[i + 3:j], 16))); i = j + 1
            elif d == '\n':
                i += 2
                while i < len(s) and s[i] in ' \t\n': i += 1
            else: raise Unsupported('escape ' + s[i:i + 2])
        else:
            out.append(c); i += 1
    return ''.join(out)


def rust_bytes_literal(body):
    """b"..." -> list of ints"""
    assert body.startswith('b"')
    s = body[2:-1]; out = []; i = 0
    while i < len(s):
        c = s[i]
        if c == '\\':
            d = s[i + 1]
            m = {'n': 10, 'r': 13, 't': 9, '0': 0, '\\': 92, "'": 39, '"': 34}
            if d in m: out.append(m[d]); i += 2
            elif d == 'x': out.append(int(s[i + 2:i + 4], 16)); i += 4
            else: raise Unsupported('byte escape ' + s[i:i + 2])
        else:
            out.extend(c.encode('utf-8')); i += 1
    return out
