"""Artefacts derived from /repo's current working tree: MIR dumps, native replay binary.

Every artefact is keyed by a SHA-256 over the source files it is derived from (computed on every invocation), so a
key hit is still "derived from the current tree"; a miss rebuilds.  Nothing is written to /repo (cargo is pointed at
target directories under /verif/build).
"""
import os, sys, hashlib, subprocess, time, glob, shutil, json

VERIF = os.path.dirname(os.path.dirname(os.path.abspath(__file__)))
REPO = os.environ.get('VERIF_REPO', '/repo')
BUILD = os.path.join(VERIF, 'build')
GUARD = 'vhdl_ls_rust_hdl_verif'

CRATE_DIRS = {'vhdl_lang': ['vhdl_lang/src', 'vhdl_lang_macros/src'], 'vhdl_syntax': ['vhdl_syntax/src'],
              'vhdl_ls': ['vhdl_ls/src', 'vhdl_lang/src', 'vhdl_lang_macros/src']}
ENV = dict(os.environ, CARGO_NET_OFFLINE='true')


def tree_hash(dirs, extra=()):
    h = hashlib.sha256()
    files = []
    for d in dirs:
        for root, _, fs in os.walk(os.path.join(REPO, d)):
            for f in fs:
                if f.endswith(('.rs', '.toml', '.vhd')): files.append(os.path.join(root, f))
    for f in extra: files.append(os.path.join(REPO, f))
    for f in sorted(files):
        h.update(f.encode()); h.update(b'\0')
        with open(f, 'rb') as fh: h.update(fh.read())
    return h.hexdigest()


def mir_dump(crate, log=print):
    """-> path of the MIR text of `crate` built from the current tree (dev profile: debug assertions + overflow checks on)"""
    os.makedirs(os.path.join(BUILD, 'mir'), exist_ok=True)
    key = tree_hash(CRATE_DIRS[crate], ['Cargo.toml', 'Cargo.lock', crate + '/Cargo.toml'])
    out = os.path.join(BUILD, 'mir', f'{crate}.{key[:16]}.mir')
    if os.path.exists(out) and os.path.getsize(out) > 1000:
        return out, key, True
    t = time.time()
    tgt = os.path.join(BUILD, 'mir-target')
    # force rustc to run again for this crate even if cargo thinks it is fresh
    for fp in glob.glob(os.path.join(tgt, 'debug', '.fingerprint', crate + '-*')):
        shutil.rmtree(fp, ignore_errors=True)
    cmd = ['cargo', '+nightly', 'rustc', '--offline', '-p', crate, '--lib', '--', '-Zunpretty=mir',
           '-C', 'debug-assertions=on', '-C', 'overflow-checks=on']
    env = dict(ENV, CARGO_TARGET_DIR=tgt)
    tmp = out + '.tmp'
    with open(tmp, 'wb') as fh:
        p = subprocess.run(cmd, cwd=REPO, env=env, stdout=fh, stderr=subprocess.PIPE)
    if p.returncode != 0 or os.path.getsize(tmp) < 1000:
        sys.stderr.write(p.stderr.decode('utf-8', 'replace')[-3000:])
        raise RuntimeError(f'MIR dump of {crate} failed (exit {p.returncode})')
    os.replace(tmp, out)
    for old in glob.glob(os.path.join(BUILD, 'mir', f'{crate}.*.mir')):
        if old != out: os.remove(old)
    log(f'[build] MIR of {crate}: {os.path.getsize(out) >> 20} MiB in {time.time() - t:.1f}s')
    return out, key, False


def native_build(log=print):
    """build /verif/native (replay binary) against /repo with the hook cfg on -> path of the binary"""
    key = tree_hash(['vhdl_lang/src', 'vhdl_lang_macros/src', 'vhdl_syntax/src', 'vhdl_ls/src'], ['Cargo.toml', 'Cargo.lock'])
    h = hashlib.sha256(key.encode())
    for f in sorted(glob.glob(os.path.join(VERIF, 'native', '**', '*.*'), recursive=True)):
        if '/target/' in f: continue
        with open(f, 'rb') as fh: h.update(fh.read())
    key = h.hexdigest()
    tgt = os.path.join(BUILD, 'native-target')
    stamp = os.path.join(BUILD, 'native.key')
    binp = os.path.join(tgt, 'debug', 'verif-native')
    binr = os.path.join(tgt, 'release', 'verif-native')
    if os.path.exists(stamp) and open(stamp).read() == key and os.path.exists(binp) and os.path.exists(binr):
        return binp, binr
    t = time.time()
    shutil.copy(os.path.join(REPO, 'Cargo.lock'), os.path.join(VERIF, 'native', 'Cargo.lock'))
    env = dict(ENV, CARGO_TARGET_DIR=tgt, RUSTFLAGS=f'--cfg {GUARD}')
    for prof in ([], ['--release']):
        p = subprocess.run(['cargo', 'build', '--offline'] + prof, cwd=os.path.join(VERIF, 'native'), env=env,
                           stdout=subprocess.PIPE, stderr=subprocess.STDOUT)
        if p.returncode != 0:
            sys.stderr.write(p.stdout.decode('utf-8', 'replace')[-4000:])
            raise RuntimeError('native replay build failed')
    open(stamp, 'w').write(key)
    log(f'[build] native replay binaries in {time.time() - t:.1f}s')
    return binp, binr


def load_interp(crates, log=print):
    from .mirparse import CrateMir
    from .resolve import CrateInfo
    from .interp import Interp
    from . import models, models2
    import pickle
    I = Interp()
    meta = {}
    for c in crates:
        path, key, hit = mir_dump(c, log)
        cache = path + '.' + hashlib.sha256(open(os.path.join(VERIF, 'mirsym', 'mirparse.py'), 'rb').read()).hexdigest()[:8] + '.pickle'
        mir = None
        if os.path.exists(cache):
            try:
                with open(cache, 'rb') as fh: mir = pickle.load(fh)
            except Exception:
                mir = None
        if mir is None:
            mir = CrateMir(c, path)
            try:
                with open(cache, 'wb') as fh: pickle.dump(mir, fh, protocol=pickle.HIGHEST_PROTOCOL)
            except Exception:
                pass
            for old in glob.glob(os.path.join(BUILD, 'mir', f'{c}.*.pickle')):
                if old != cache: os.remove(old)
        info = CrateInfo(mir, REPO, [d for d in CRATE_DIRS[c] if d.startswith(c + '/')])
        I.add_crate(info)
        meta[c] = {'mir': os.path.basename(path), 'source_sha256': key, 'functions': sum(len(v) for v in mir.fns.values())}
    models.install(I)
    return I, meta
