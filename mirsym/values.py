"""Run-time values of the symbolic MIR interpreter."""
import z3
from .util import Unsupported, Panic


class BV:
    """Machine integer / char: python int when concrete (stored unsigned, masked), z3 bit-vector otherwise."""
    __slots__ = ('e', 'bits', 'signed')

    def __init__(self, e, bits, signed=False):
        if isinstance(e, int):
            e &= (1 << bits) - 1
        self.e, self.bits, self.signed = e, bits, signed

    def z(self):
        return z3.BitVecVal(self.e, self.bits) if isinstance(self.e, int) else self.e

    def conc(self):
        return isinstance(self.e, int)

    def sval(self):
        """concrete value interpreted with this value's signedness"""
        if self.signed and self.e >> (self.bits - 1):
            return self.e - (1 << self.bits)
        return self.e

    def __repr__(self):
        return f'BV({self.e}:{"i" if self.signed else "u"}{self.bits})'


def U8(v): return BV(v, 8)
def U32(v): return BV(v, 32)
def USZ(v): return BV(v, 64)


class Agg:
    """struct / tuple / enum variant / closure environment.
    vidx is the variant index (python int) or, for a field-less enum with a symbolic variant, a BV."""
    __slots__ = ('name', 'fields', 'variant', 'vidx')

    def __init__(self, name, fields, variant=None, vidx=None):
        self.name, self.fields, self.variant, self.vidx = name, fields, variant, vidx

    def __repr__(self):
        return f'{self.name}{"::" + str(self.variant) if self.variant else ""}{self.fields}'


class VecV:
    __slots__ = ('items',)
    def __init__(self, items): self.items = items
    def __repr__(self): return f'Vec{self.items}'


class StrV:
    """String / str: list of BV(8) holding UTF-8"""
    __slots__ = ('b',)
    def __init__(self, b): self.b = b
    def __repr__(self): return f'Str{self.b}'


class SliceV:
    __slots__ = ('base', 'lo', 'hi', 'is_str')
    def __init__(self, base, lo, hi, is_str=False): self.base, self.lo, self.hi, self.is_str = base, lo, hi, is_str
    def items(self): return self.base[self.lo:self.hi]
    def __repr__(self): return f'Slice{self.base[self.lo:self.hi]}'


class Ref:
    __slots__ = ('get', 'set')
    def __init__(self, get, set=None): self.get, self.set = get, set


class LocalRef(Ref):
    __slots__ = ('frame', 'idx')
    def __init__(self, frame, idx):
        self.frame, self.idx = frame, idx
        self.get = self._get; self.set = self._set
    def _get(self): return self.frame[self.idx]
    def _set(self, v): self.frame[self.idx] = v


class FieldRef(Ref):
    __slots__ = ('obj', 'idx')
    def __init__(self, obj, idx):
        self.obj, self.idx = obj, idx
        self.get = self._get; self.set = self._set
    def _get(self): return self.obj.fields[self.idx]
    def _set(self, v): self.obj.fields[self.idx] = v


class ElemRef(Ref):
    __slots__ = ('lst', 'idx')
    def __init__(self, lst, idx):
        self.lst, self.idx = lst, idx
        self.get = self._get; self.set = self._set
    def _get(self): return self.lst[self.idx]
    def _set(self, v): self.lst[self.idx] = v


class ValRef(Ref):
    """reference to a value that has no other home (temporaries created by models)"""
    __slots__ = ('v',)
    def __init__(self, v):
        self.v = v
        self.get = self._get; self.set = self._set
    def _get(self): return self.v
    def _set(self, v): self.v = v


class Unit:
    def __repr__(self): return '()'
UNIT = Unit()


class UninitBox:
    def __init__(self): self.arr = None


def NONE(): return Agg('Option', [], 'None', 0)
def SOME(v): return Agg('Option', [v], 'Some', 1)
def OK(v): return Agg('Result', [v], 'Ok', 0)
def ERR(v): return Agg('Result', [v], 'Err', 1)
def TUPLE(*xs): return Agg('tuple', list(xs))


def deref(v):
    while isinstance(v, Ref):
        v = v.get()
    return v


def deref1(v):
    return v.get() if isinstance(v, Ref) else v


# types that only ever live behind an Arc (Arc<T> is transparent in this encoding): cloning the owner shares them
ARC_ONLY = {'UniqueSource'}


def clone_value(v):
    """deep copy of plain data (Agg / list / containers); references keep their identity"""
    if isinstance(v, Agg):
        if v.name in ARC_ONLY: return v
        return Agg(v.name, [clone_value(f) for f in v.fields], v.variant, v.vidx)
    if isinstance(v, list):
        return [clone_value(x) for x in v]
    if isinstance(v, VecV):
        return VecV([clone_value(x) for x in v.items])
    if isinstance(v, StrV):
        return StrV(list(v.b))
    if isinstance(v, dict):
        return {k: clone_value(x) for k, x in v.items()}
    return v


def copy_value(v):
    """semantics of a MIR `copy` operand: plain-old-data aggregates are duplicated"""
    if isinstance(v, Agg):
        if v.name in ARC_ONLY: return v
        return Agg(v.name, [copy_value(f) for f in v.fields], v.variant, v.vidx)
    if isinstance(v, list):
        return [copy_value(x) for x in v]
    return v


def seq_view(v):
    """(python list, lo, hi) view of any sequence value"""
    v = deref(v)
    if isinstance(v, SliceV): return v.base, v.lo, v.hi
    if isinstance(v, VecV): return v.items, 0, len(v.items)
    if isinstance(v, StrV): return v.b, 0, len(v.b)
    if isinstance(v, list): return v, 0, len(v)
    if isinstance(v, UninitBox) and v.arr is not None: return v.arr, 0, len(v.arr)
    raise Unsupported('sequence view of ' + repr(v)[:80])


def seq_items(v):
    l, lo, hi = seq_view(v)
    return l[lo:hi]


def seq_len(v):
    _, lo, hi = seq_view(v)
    return hi - lo


# ---------- booleans (python bool or z3 BoolRef) ----------
def is_bool(v):
    return isinstance(v, bool) or isinstance(v, z3.BoolRef)


def b_not(a):
    return (not a) if isinstance(a, bool) else z3.Not(a)


def b_and(a, b):
    if isinstance(a, bool): return b if a else False
    if isinstance(b, bool): return a if b else False
    return z3.And(a, b)


def b_or(a, b):
    if isinstance(a, bool): return True if a else b
    if isinstance(b, bool): return True if b else a
    return z3.Or(a, b)


def b_z(a):
    return z3.BoolVal(a) if isinstance(a, bool) else a


def bv_eq(a, b):
    if a.conc() and b.conc(): return a.e == b.e
    return a.z() == b.z()


def bv_ult(a, b):
    if a.conc() and b.conc(): return a.e < b.e
    return z3.ULT(a.z(), b.z())


def bv_is(a, k):
    return (a.e == k) if a.conc() else (a.e == k)
