"""Path-wise symbolic interpreter for rustc MIR text over z3 bit-vectors.

One `Ctx` is one path: a z3 solver holding the path condition plus the list of decisions taken.  Every
`switchInt`/`assert` on a symbolic value asks the solver which sides are satisfiable; when both are, the
other side is queued (as a decision prefix) and explored later by explore.py.  Container shapes are concrete
per path, container contents are symbolic.
"""
import re, os
import z3
from .util import *
from .values import *

TRACE = os.environ.get('MIRSYM_TRACE')
STEP_LIMIT = int(os.environ.get('MIRSYM_STEP_LIMIT', '2000000'))


class Violation(Exception):
    """A harness obligation fails on this path (the solver has a model in ctx.solver)."""
    def __init__(self, msg, kind='violation'):
        super().__init__(msg); self.kind = kind


class Ctx:
    def __init__(self, prefix=()):
        self.prefix, self.taken, self.alts = list(prefix), [], []
        self.solver = z3.Solver()
        self.steps = 0
        self.nsolver = 0
        self.solver_time = 0.0
        self.last_model = None
        self.vars = {}           # name -> z3 const created by the harness (for witnesses)
        self.classes = set()     # coverage classes hit on this path
        self.obligations = 0     # final solver obligations discharged on this path
        self.notes = []
        self.depth = 0
        self.statics = {}        # (crate, static name) -> reference to its per-path value
        self.step_limit = STEP_LIMIT

    # ---- symbolic inputs ----
    def fresh(self, name, bits, signed=False):
        v = z3.BitVec(name, bits)
        self.vars[name] = v
        return BV(v, bits, signed)

    def fresh_bool(self, name):
        v = z3.Bool(name)
        self.vars[name] = v
        return v

    def assume(self, c):
        if isinstance(c, bool):
            if not c: raise Infeasible()
            return
        self.solver.add(c)
        self.last_model = None

    # ---- solver ----
    def _check(self, *cs):
        import time
        self.nsolver += 1
        t = time.time()
        r = self.solver.check(*cs)
        self.solver_time += time.time() - t
        if r == z3.unknown:
            raise Unsupported('solver returned unknown: ' + self.solver.reason_unknown())
        return r

    def feasible(self, c):
        if isinstance(c, bool): return c
        r = self._check(c)
        if r == z3.sat: self.last_model = self.solver.model()
        return r == z3.sat

    def must(self, c):
        """final obligation: c holds on every assignment of this path"""
        self.obligations += 1
        if isinstance(c, bool): return c
        return not self.feasible(z3.Not(c))

    def model(self):
        if self._check() != z3.sat: raise Infeasible()
        return self.solver.model()

    def branch(self, c):
        if isinstance(c, bool): return c
        c = z3.simplify(c)
        if z3.is_true(c): return True
        if z3.is_false(c): return False
        i = len(self.taken)
        if i < len(self.prefix):
            d = self.prefix[i]
            if not isinstance(d, bool): raise Unsupported('replay diverged (branch vs concretize)')
        else:
            side = None
            m = self.last_model
            if m is not None:
                try:
                    v = m.eval(c, model_completion=True)
                    side = True if z3.is_true(v) else (False if z3.is_false(v) else None)
                except z3.Z3Exception:
                    side = None
            if side is None:
                t = self.feasible(c); f = self.feasible(z3.Not(c))
            elif side:
                t = True; keep = self.last_model; f = self.feasible(z3.Not(c)); self.last_model = keep
            else:
                f = True; keep = self.last_model; t = self.feasible(c); self.last_model = keep
            if t and f:
                d = True; self.alts.append(self.taken + [False])
            elif t: d = True
            elif f: d = False
            else: raise Infeasible()
        self.taken.append(d)
        cc = c if d else z3.Not(c)
        self.solver.add(cc)
        m = self.last_model
        if m is not None:
            try:
                if not z3.is_true(m.eval(cc, model_completion=True)): self.last_model = None
            except z3.Z3Exception:
                self.last_model = None
        return d

    def concretize(self, v):
        """fork until BV v is a concrete python int; the choices are decisions (deterministic replay)"""
        if isinstance(v, int): return v
        if v.conc(): return v.e
        sv = z3.simplify(v.e)
        if z3.is_bv_value(sv): return sv.as_long()
        tries = 0
        while True:
            tries += 1
            if tries > 48:
                raise Unsupported('concretisation of a wide symbolic value (more than 48 distinct values feasible); a model must case-split on it instead')
            i = len(self.taken)
            if i < len(self.prefix):
                d = self.prefix[i]
                if isinstance(d, bool): raise Unsupported('replay diverged (concretize vs branch)')
                val, eq = d
            else:
                m = self.last_model
                if m is None:
                    if self._check() != z3.sat: raise Infeasible()
                    m = self.solver.model()
                val = m.eval(v.e, model_completion=True).as_long()
                eq = True
                if self.feasible(v.e != val): self.alts.append(self.taken + [(val, False)])
                self.last_model = None
            self.taken.append((val, eq))
            self.solver.add(v.e == val if eq else v.e != val)
            if eq: return val

    def cover(self, cls):
        self.classes.add(cls)

    ELEM_STRIDE = 64

    def address_of(self, v):
        """fake but consistent addresses: elements of one list are ELEM_STRIDE apart, distinct objects are far apart"""
        if not hasattr(self, '_addr'): self._addr = {}; self._addr_keep = []
        def base(obj):
            k = id(obj)
            if k not in self._addr:
                self._addr[k] = 0x1000000 * (len(self._addr) + 1); self._addr_keep.append(obj)
            return self._addr[k]
        if isinstance(v, ElemRef): return base(v.lst) + v.idx * self.ELEM_STRIDE
        if isinstance(v, Agg) and v.name == 'RawPtr': return base(v.fields[0]) + v.fields[1] * self.ELEM_STRIDE
        if isinstance(v, FieldRef): return base(v.obj) + 8 * v.idx + 8
        if isinstance(v, LocalRef): return base(v.frame) + 8 * v.idx
        if isinstance(v, Ref): return base(v)
        return base(v)


# ---------------- place parsing ----------------
LOCAL = re.compile(r'^_(\d+)$')


def parse_place(s):
    s = s.strip()
    m = LOCAL.match(s)
    if m: return ('local', int(m.group(1)))
    if s.endswith(']'):
        d = 0
        for j in range(len(s) - 1, -1, -1):
            if s[j] == ']': d += 1
            elif s[j] == '[':
                d -= 1
                if d == 0: break
        return ('index', parse_place(s[:j]), s[j + 1:-1].strip())
    if s.startswith('(*') and match_close(s, 0) == len(s) - 1:
        return ('deref', parse_place(s[2:-1]))
    if s.startswith('(') and match_close(s, 0) == len(s) - 1:
        inner = s[1:-1]
        k = top_find(inner, ': ')
        if k >= 0:
            left = inner[:k]
            dot = top_find(left, '.', last=True)
            ty = inner[k + 2:]
            if ty.startswith(('std::ptr::Unique<', 'std::ptr::NonNull<', 'core::ptr::Unique<', 'core::ptr::NonNull<')):
                return parse_place(left[:dot])          # Box<T> is the value itself: its pointer fields are transparent
            return ('field', parse_place(left[:dot]), int(left[dot + 1:]))
        k = top_find(inner, ' as ')
        if k >= 0:
            return ('downcast', parse_place(inner[:k]), inner[k + 4:].strip())
    raise Unsupported('place ' + s)


CONST_INT = re.compile(r"^const (-?\d+)_(\w+)$")
BIN = {'Lt', 'Le', 'Gt', 'Ge', 'Eq', 'Ne', 'Add', 'Sub', 'Mul', 'BitAnd', 'BitOr', 'BitXor',
       'AddWithOverflow', 'SubWithOverflow', 'MulWithOverflow', 'Shl', 'Shr', 'Div', 'Rem',
       'AddUnchecked', 'SubUnchecked', 'MulUnchecked', 'ShlUnchecked', 'ShrUnchecked', 'Cmp', 'Offset'}
UNOPS = {'Not', 'Neg', 'discriminant', 'PtrMetadata', 'Len', 'CopyForDeref', 'ShallowInitBox'}
BUILTIN_ENUMS = {
    'Option': ['None', 'Some'], 'Result': ['Ok', 'Err'], 'ControlFlow': ['Continue', 'Break'],
    'Cow': ['Borrowed', 'Owned'], 'Bound': ['Included', 'Excluded', 'Unbounded'],
    'Entry': ['Occupied', 'Vacant'], 'Poll': ['Ready', 'Pending'], 'Either': ['Left', 'Right'],
}
ORDERING = {'Less': -1, 'Equal': 0, 'Greater': 1}
RETURN = 'return'
GENERIC_RECV = re.compile(r'^<[A-Z]\w? as ')


def ordering(k):
    name = {-1: 'Less', 0: 'Equal', 1: 'Greater'}[k]
    return Agg('Ordering', [], name, k & ((1 << 64) - 1))


class Interp:
    def __init__(self):
        self.crates = {}            # crate -> CrateInfo
        self.models_exact = {}
        self.models_re = []         # (compiled regex, fn, pattern)
        self.fn_hits = {}           # 'crate::name' -> count   (functions actually encoded/entered)
        self.model_hits = {}        # model key -> count
        self.resolve_cache = {}
        self.const_cache = {}
        self.default_crate = None

    def add_crate(self, info):
        self.crates[info.crate] = info
        if self.default_crate is None: self.default_crate = info.crate

    def add_models(self, registry):
        for k, f in registry.items():
            if k.startswith('re:'):
                self.models_re.append((re.compile(k[3:]), f, k))
            else:
                self.models_exact[k] = f

    # ------------------------------------------------------------------ enums
    def variant_index(self, crate, ty, var):
        base = ty.split('::')[-1]
        if base == 'Ordering':
            if var in ORDERING: return ORDERING[var] & ((1 << 64) - 1)
            atomic = ['Relaxed', 'Release', 'Acquire', 'AcqRel', 'SeqCst']
            return atomic.index(var) if var in atomic else None
        order = [crate] + [c for c in self.crates if c != crate]
        for c in order:
            info = self.crates.get(c)
            if info is None: continue
            k = info.variant_index(base, var)
            if k is None and base in info.aliases: k = info.variant_index(info.aliases[base], var)
            if k is not None: return k
        if base in BUILTIN_ENUMS and var in BUILTIN_ENUMS[base]: return BUILTIN_ENUMS[base].index(var)
        return None

    def enum_value(self, crate, ty, var, fields=()):
        k = self.variant_index(crate, ty, var)
        if k is None: raise Unsupported(f'enum {ty}::{var}')
        return Agg(ty.split('::')[-1], list(fields), var, k)

    def discr_of(self, o):
        if isinstance(o.vidx, BV): return BV(o.vidx.e, 64, True) if o.vidx.bits == 64 else BV(z3.ZeroExt(64 - o.vidx.bits, o.vidx.z()) if not o.vidx.conc() else o.vidx.e, 64, True)
        if o.vidx is None: raise Unsupported('discriminant of non-enum ' + repr(o)[:60])
        for info in self.crates.values():
            d = info.enum_discr.get(o.name)
            if d and o.variant in d: return BV(d[o.variant], 64, True)
        return BV(o.vidx, 64, True)

    # ------------------------------------------------------------------ compile: places
    def c_place_get(self, p):
        k = p[0]
        if k == 'local':
            n = p[1]
            ty = (self._cur_fn.local_tys.get(n, '') if getattr(self, '_cur_fn', None) is not None else '')
            if re.fullmatch(r'[\w:]+', ty) and ty.split('::')[-1][:1].isupper() and ty.split('::')[-1] not in INT_BITS:
                # a zero-sized unit struct is never assigned in MIR: materialise it on first use
                zname = ty.split('::')[-1]
                def get_zst(ctx, fr):
                    v = fr[n]
                    if v is None:
                        v = fr[n] = Agg(zname, [])
                    return v
                return get_zst
            return lambda ctx, fr: fr[n]
        if k == 'deref':
            g = self.c_place_get(p[1])
            def get(ctx, fr):
                r = g(ctx, fr)
                return r.get() if isinstance(r, Ref) else r
            return get
        if k == 'field':
            g = self.c_place_get(p[1]); idx = p[2]
            def get(ctx, fr):
                o = g(ctx, fr)
                while isinstance(o, Ref): o = o.get()
                if isinstance(o, Agg): return o.fields[idx]
                if isinstance(o, UninitBox): return o
                if idx == 0: return o            # transparent newtype over an unsized value
                raise Unsupported(f'field {idx} of {o!r:.60}')
            return get
        if k == 'downcast':
            return self.c_place_get(p[1])
        if k == 'index':
            g = self.c_place_get(p[1])
            ix = self.c_index(p[2])
            def get(ctx, fr):
                l, lo, hi = seq_view(g(ctx, fr))
                r = ix(ctx, fr, hi - lo)
                if isinstance(r, tuple):
                    return SliceV(l, lo + r[0], lo + r[1])
                return l[lo + r]
            return get
        raise Unsupported(p)

    def c_index(self, txt):
        m = re.match(r'^(-?)(\d+) of (\d+)$', txt)
        if m:
            kk = int(m.group(2)); neg = m.group(1) == '-'
            return (lambda ctx, fr, n: n - kk) if neg else (lambda ctx, fr, n: kk)
        m = re.match(r'^(\d+):(-?)(\d*)$', txt)
        if m:
            a = int(m.group(1)); neg = m.group(2) == '-'; b = int(m.group(3)) if m.group(3) else 0
            return lambda ctx, fr, n: (a, n - b if (neg or not m.group(3)) else b)
        g = self.c_place_get(parse_place(txt))
        def ix(ctx, fr, n):
            v = g(ctx, fr)
            if isinstance(v, BV) and not v.conc():
                if ctx.branch(z3.UGE(v.z(), n)): raise Panic(f'index out of bounds: the len is {n}')
            i = ctx.concretize(v)
            if i >= n: raise Panic(f'index out of bounds: the len is {n} but the index is {i}')
            return i
        return ix

    def c_place_set(self, p):
        k = p[0]
        if k == 'local':
            n = p[1]
            def set(ctx, fr, v): fr[n] = v
            return set
        if k == 'deref':
            g = self.c_place_get(p[1]); inner_set = self.c_place_set(p[1])
            def set(ctx, fr, v):
                r = g(ctx, fr)
                if isinstance(r, Ref):
                    if r.set is None: raise Unsupported('write through read-only reference')
                    r.set(v)
                else:
                    inner_set(ctx, fr, v)       # Box<T> is the value itself
            return set
        if k == 'field':
            g = self.c_place_get(p[1]); idx = p[2]; inner_set = self.c_place_set(p[1])
            def set(ctx, fr, v):
                o = g(ctx, fr)
                while isinstance(o, Ref): o = o.get()
                if isinstance(o, UninitBox): o.arr = v; return
                if isinstance(o, Agg): o.fields[idx] = v; return
                if o is None:
                    raise Unsupported('field-wise initialisation of an uninitialised local')
                if idx == 0: inner_set(ctx, fr, v); return
                raise Unsupported(f'set field {idx} of {o!r:.60}')
            return set
        if k == 'downcast':
            return self.c_place_set(p[1])
        if k == 'index':
            g = self.c_place_get(p[1]); ix = self.c_index(p[2])
            def set(ctx, fr, v):
                l, lo, hi = seq_view(g(ctx, fr))
                l[lo + ix(ctx, fr, hi - lo)] = v
            return set
        raise Unsupported(p)

    def c_place_ref(self, p):
        """closure producing a Ref whose target is fixed at creation time"""
        k = p[0]
        if k == 'local':
            n = p[1]
            g0 = self.c_place_get(p)
            def mk_local(ctx, fr):
                g0(ctx, fr)
                return LocalRef(fr, n)
            return mk_local
        if k == 'deref':
            g = self.c_place_get(p[1]); inner = self.c_place_ref(p[1])
            def mk(ctx, fr):
                r = g(ctx, fr)
                if isinstance(r, Ref): return r
                return inner(ctx, fr)             # &*box
            return mk
        if k == 'field':
            g = self.c_place_get(p[1]); idx = p[2]; inner = self.c_place_ref(p[1])
            def mk(ctx, fr):
                o = g(ctx, fr)
                while isinstance(o, Ref): o = o.get()
                if isinstance(o, Agg): return FieldRef(o, idx)
                if idx == 0: return inner(ctx, fr)
                raise Unsupported(f'ref to field {idx} of {o!r:.60}')
            return mk
        if k == 'downcast':
            return self.c_place_ref(p[1])
        if k == 'index':
            g = self.c_place_get(p[1]); ix = self.c_index(p[2])
            def mk(ctx, fr):
                l, lo, hi = seq_view(g(ctx, fr))
                r = ix(ctx, fr, hi - lo)
                if isinstance(r, tuple): return ValRef(SliceV(l, lo + r[0], lo + r[1]))
                return ElemRef(l, lo + r)
            return mk
        raise Unsupported(p)

    # ------------------------------------------------------------------ compile: operands
    def c_operand(self, s, fn):
        s = s.strip()
        if s.startswith('copy '):
            g = self.c_place_get(parse_place(s[5:]))
            # a field whose annotated type is a pointer: the pointer is copied, never the pointee (Box/NonNull/Unique are transparent here)
            if re.match(r'^copy \(.*: (&|\*const |\*mut |std::ptr::NonNull<|std::ptr::Unique<|std::boxed::Box<|std::sync::Arc<|std::rc::Rc<)[^()]*\)$', s):
                return g
            mm = re.match(r'^copy _(\d+)$', s)
            if mm and fn is not None and re.match(r'^(std::boxed::)?Box<', (fn.local_tys.get(int(mm.group(1))) or '') if isinstance(fn.local_tys, dict) else ''):
                return g
            def op(ctx, fr):
                v = g(ctx, fr)
                return copy_value(v) if isinstance(v, (Agg, list)) else v
            return op
        if s.startswith('move '):
            return self.c_place_get(parse_place(s[5:]))
        if s.startswith('const '):
            return self.c_const(s, fn)
        if re.match(r'^[\w:<>, \[\]&\']+$', s):
            v = Agg('fnitem:' + s, [])
            return lambda ctx, fr: v
        raise Unsupported('operand ' + s)

    def c_const(self, s, fn):
        m = CONST_INT.match(s)
        if m:
            t = m.group(2)
            if t in INT_BITS:
                v = BV(int(m.group(1)), INT_BITS[t], t in SIGNED)
                return lambda ctx, fr: v
        body = s[6:]
        if re.match(r'^-?(\d[\d_]*(\.\d+)?([eE][+-]?\d+)?|inf|NaN)f(32|64)$', body):
            v = Agg('f64', [('const', body)])
            return lambda ctx, fr: v
        if body == 'true': return lambda ctx, fr: True
        if body == 'false': return lambda ctx, fr: False
        if body == '()': return lambda ctx, fr: UNIT
        if body.startswith("'"):
            v = BV(parse_char_body(body[1:-1]), 32)
            return lambda ctx, fr: v
        if body.startswith('"'):
            bs = rust_str_literal(body).encode('utf-8')
            return lambda ctx, fr: StrV([BV(b, 8) for b in bs])
        if body.startswith('b"'):
            bs = rust_bytes_literal(body)
            return lambda ctx, fr: ValRef([BV(b, 8) for b in bs])
        mz = re.match(r'^ZeroSized: (.*)$', body)
        if mz:
            t = mz.group(1)
            if t.startswith('{closure@'):
                return lambda ctx, fr: Agg(t, [])
            v = Agg('fnitem:' + t, [])
            return lambda ctx, fr: v
        mnum = re.match(r'^(?:core::num::<impl )?(\w+?)>?::(MAX|MIN|BITS)$', body)
        if mnum and mnum.group(1) in INT_BITS:
            t = mnum.group(1); b = INT_BITS[t]; sg = t in SIGNED
            if mnum.group(2) == 'BITS': v = BV(b, 32)
            elif sg: v = BV(((1 << (b - 1)) - 1) if mnum.group(2) == 'MAX' else (1 << (b - 1)), b, True)
            else: v = BV(((1 << b) - 1) if mnum.group(2) == 'MAX' else 0, b)
            return lambda ctx, fr: v
        mal = re.match(r'^\{alloc(\d+): (.*)\}$', body)
        if mal:
            aid = int(mal.group(1)); crate0 = fn.crate
            def op_static(ctx, fr):
                name = self.crates[crate0].mir.statics.get(aid)
                if name is None: raise Unsupported('constant allocation ' + body)
                key = (crate0, name)
                if key not in ctx.statics:
                    fl = self.crates[crate0].mir.fns.get(name)
                    if not fl: raise Unsupported('static without MIR body: ' + name)
                    ctx.statics[key] = ValRef(self.call_fn(ctx, fl[0], []))
                return ctx.statics[key]
            return op_static
        msz = re.match(r'^<.* as (std::mem::|core::mem::)?SizedTypeProperties>::(ALIGN|SIZE|IS_ZST)$', body)
        if msz:
            v = False if msz.group(2) == 'IS_ZST' else BV(1, 64)
            return lambda ctx, fr: v
        if body == 'char::MAX':
            return lambda ctx, fr: BV(0x10FFFF, 32)
        crate = fn.crate
        if 'promoted[' in body:
            return self._c_named_const(crate, body, fn)
        st = strip_generics(body)
        mvv = re.match(r'^([\w:]+)::(\w+)$', st)
        if mvv:
            k = self.variant_index(crate, mvv.group(1), mvv.group(2))
            if k is not None:
                ty = mvv.group(1).split('::')[-1]; var = mvv.group(2)
                return lambda ctx, fr: Agg(ty, [], var, k)
        if st in ('RangeFull', 'std::ops::RangeFull', 'core::ops::RangeFull'):
            return lambda ctx, fr: Agg('RangeFull', [])
        return self._c_named_const(crate, body, fn)

    def _c_named_const(self, crate, body, fn):
        def op(ctx, fr):
            key = (crate, body, fn.name if 'promoted[' in body else None)
            target = self.const_cache.get(key)
            if target is None:
                target = self.find_const(crate, body, fn)
                self.const_cache[key] = target
            return self.call_fn(ctx, target, [])
        return op

    def find_const(self, crate, body, fn):
        info = self.crates[crate]
        mp = re.match(r'^(.*)::(promoted\[\d+\])$', body)
        if mp:
            # promoted constants belong to the enclosing function (same MIR item name)
            cands = info.mir.fns.get(fn.name + '::' + mp.group(2))
            if not cands:
                base = fn.name
                # closures' promoteds are named after the closure
                cands = info.mir.fns.get(base + '::' + mp.group(2))
            if cands and len(cands) >= 1:
                return cands[0]
            raise Unsupported('promoted const ' + body + ' in ' + fn.name)
        st = strip_generics(body)
        r = self.resolve_static(crate, st)
        if r is not None and r[0] == 'fn': return r[1]
        raise Unsupported('const ' + body)

    # ------------------------------------------------------------------ arithmetic
    def binop(self, ctx, op, a, b):
        if isinstance(a, Agg) or isinstance(b, Agg):
            if (isinstance(a, Agg) and a.name == 'f64') or (isinstance(b, Agg) and b.name == 'f64'):
                if op in ('Lt', 'Le', 'Gt', 'Ge', 'Eq', 'Ne'): raise Unsupported('float comparison')
                return Agg('f64', [(op, a, b)])
            raise Unsupported(f'binop {op} on aggregate')
        if is_bool(a) or is_bool(b):
            if op == 'Eq': return (a == b) if isinstance(a, bool) and isinstance(b, bool) else (b_z(a) == b_z(b))
            if op == 'Ne': return (a != b) if isinstance(a, bool) and isinstance(b, bool) else (b_z(a) != b_z(b))
            if op == 'BitAnd': return b_and(a, b)
            if op == 'BitOr': return b_or(a, b)
            if op == 'BitXor': return (a != b) if isinstance(a, bool) and isinstance(b, bool) else z3.Xor(b_z(a), b_z(b))
            if op in ('Lt', 'Le', 'Gt', 'Ge'):
                ia = BV(int(a), 8) if isinstance(a, bool) else BV(z3.If(a, z3.BitVecVal(1, 8), z3.BitVecVal(0, 8)), 8)
                ib = BV(int(b), 8) if isinstance(b, bool) else BV(z3.If(b, z3.BitVecVal(1, 8), z3.BitVecVal(0, 8)), 8)
                return self.binop(ctx, op, ia, ib)
            raise Unsupported('bool op ' + op)
        if not isinstance(a, BV) or not isinstance(b, BV):
            raise Unsupported(f'binop {op} on {a!r:.40} / {b!r:.40}')
        bits = a.bits; sg = a.signed
        if op in ('Shl', 'Shr', 'ShlUnchecked', 'ShrUnchecked'):
            if b.conc():
                sh = b.e
                if a.conc():
                    if op.startswith('Shl'): return BV(a.e << sh, bits, sg)
                    return BV(a.sval() >> sh, bits, sg)
                if op.startswith('Shl'): return BV(a.e << sh, bits, sg)
                return BV((a.e >> sh) if sg else z3.LShR(a.e, sh), bits, sg)
            bz = b.z()
            if b.bits < bits: bz = z3.ZeroExt(bits - b.bits, bz)
            elif b.bits > bits: bz = z3.Extract(bits - 1, 0, bz)
            if op.startswith('Shl'): return BV(a.z() << bz, bits, sg)
            return BV((a.z() >> bz) if sg else z3.LShR(a.z(), bz), bits, sg)
        if a.bits != b.bits: raise Unsupported(f'binop {op} width mismatch {a} {b}')
        M = 1 << bits
        if a.conc() and b.conc():
            x, y = (a.sval(), b.sval()) if sg else (a.e, b.e)
            r = {'Lt': x < y, 'Le': x <= y, 'Gt': x > y, 'Ge': x >= y, 'Eq': x == y, 'Ne': x != y}.get(op)
            if r is not None: return r
            if op == 'Cmp': return ordering(-1 if x < y else (1 if x > y else 0))
            if op in ('Add', 'AddWithOverflow', 'AddUnchecked'): v = x + y
            elif op in ('Sub', 'SubWithOverflow', 'SubUnchecked'): v = x - y
            elif op in ('Mul', 'MulWithOverflow', 'MulUnchecked'): v = x * y
            elif op == 'BitAnd': v = a.e & b.e
            elif op == 'BitOr': v = a.e | b.e
            elif op == 'BitXor': v = a.e ^ b.e
            elif op == 'Div':
                if y == 0: raise Panic('attempt to divide by zero')
                v = abs(x) // abs(y) * (1 if (x < 0) == (y < 0) else -1)
            elif op == 'Rem':
                if y == 0: raise Panic('attempt to calculate the remainder with a divisor of zero')
                v = abs(x) % abs(y) * (1 if x >= 0 else -1)
            else: raise Unsupported(op)
            if op.endswith('WithOverflow'):
                lo, hi = (-(M >> 1), (M >> 1) - 1) if sg else (0, M - 1)
                return Agg('tuple', [BV(v, bits, sg), not (lo <= v <= hi)])
            return BV(v, bits, sg)
        x, y = a.z(), b.z()
        if op == 'Lt': return (x < y) if sg else z3.ULT(x, y)
        if op == 'Le': return (x <= y) if sg else z3.ULE(x, y)
        if op == 'Gt': return (x > y) if sg else z3.UGT(x, y)
        if op == 'Ge': return (x >= y) if sg else z3.UGE(x, y)
        if op == 'Eq': return x == y
        if op == 'Ne': return x != y
        if op == 'Cmp':
            lt = (x < y) if sg else z3.ULT(x, y)
            if ctx.branch(lt): return ordering(-1)
            return ordering(0) if ctx.branch(x == y) else ordering(1)
        if op in ('Add', 'AddUnchecked'): return BV(x + y, bits, sg)
        if op in ('Sub', 'SubUnchecked'): return BV(x - y, bits, sg)
        if op in ('Mul', 'MulUnchecked'): return BV(x * y, bits, sg)
        if op == 'BitAnd': return BV(x & y, bits, sg)
        if op == 'BitOr': return BV(x | y, bits, sg)
        if op == 'BitXor': return BV(x ^ y, bits, sg)
        if op == 'AddWithOverflow':
            ov = z3.Or(z3.Not(z3.BVAddNoOverflow(x, y, sg)), z3.Not(z3.BVAddNoUnderflow(x, y))) if sg else z3.Not(z3.BVAddNoOverflow(x, y, False))
            return Agg('tuple', [BV(x + y, bits, sg), ov])
        if op == 'SubWithOverflow':
            ov = z3.Or(z3.Not(z3.BVSubNoOverflow(x, y)), z3.Not(z3.BVSubNoUnderflow(x, y, True))) if sg else z3.ULT(x, y)
            return Agg('tuple', [BV(x - y, bits, sg), ov])
        if op == 'MulWithOverflow':
            ov = z3.Or(z3.Not(z3.BVMulNoOverflow(x, y, sg)), z3.Not(z3.BVMulNoUnderflow(x, y))) if sg else z3.Not(z3.BVMulNoOverflow(x, y, False))
            return Agg('tuple', [BV(x * y, bits, sg), ov])
        if op == 'Div':
            return BV((x / y) if sg else z3.UDiv(x, y), bits, sg)
        if op == 'Rem':
            return BV(z3.SRem(x, y) if sg else z3.URem(x, y), bits, sg)
        raise Unsupported('binop ' + op)

    def cast_int(self, v, ty):
        tb = INT_BITS[ty]; tsg = ty in SIGNED
        if isinstance(v, bool): return BV(int(v), tb, tsg)
        if is_bool(v): return BV(z3.If(v, z3.BitVecVal(1, tb), z3.BitVecVal(0, tb)), tb, tsg)
        if isinstance(v, Agg) and v.vidx is not None and not v.fields:
            return self.cast_int(self.discr_of(v), ty)
        if not isinstance(v, BV): raise Unsupported(f'int cast of {v!r:.60}')
        if v.conc(): return BV(v.sval() if v.signed else v.e, tb, tsg)
        if tb > v.bits: return BV(z3.SignExt(tb - v.bits, v.e) if v.signed else z3.ZeroExt(tb - v.bits, v.e), tb, tsg)
        if tb < v.bits: return BV(z3.Extract(tb - 1, 0, v.e), tb, tsg)
        return BV(v.e, tb, tsg)

    # ------------------------------------------------------------------ compile: rvalues
    def c_rvalue(self, s, fn):
        s = s.strip()
        if s.startswith('no_retag copy '):
            # the pointer of a Box is duplicated to dereference it (Box<T> is transparent here): same object, no copy
            return self.c_place_get(parse_place(s[14:]))
        if s.startswith('no_retag '): s = s[9:]
        if s.startswith('&'):
            rest = s[1:]
            for pre in ('raw const ', 'raw mut ', 'mut ', 'fake shallow ', 'fake '):
                if rest.startswith(pre): rest = rest[len(pre):]; break
            if rest.startswith('(fake) '): rest = rest[7:]
            return self.c_place_ref(parse_place(rest))
        m = re.match(r'^(\w+)\((.*)\)$', s)
        if m and m.group(1) in BIN:
            a, b = split_top(m.group(2))
            fa, fb = self.c_operand(a, fn), self.c_operand(b, fn); op = m.group(1)
            return lambda ctx, fr: self.binop(ctx, op, fa(ctx, fr), fb(ctx, fr))
        if m and m.group(1) == 'Not':
            f = self.c_operand(m.group(2), fn)
            def r_not(ctx, fr):
                v = f(ctx, fr)
                if isinstance(v, BV): return BV(~v.e if v.conc() else ~v.e, v.bits, v.signed)
                return b_not(v)
            return r_not
        if m and m.group(1) == 'Neg':
            f = self.c_operand(m.group(2), fn)
            def r_neg(ctx, fr):
                v = f(ctx, fr)
                if isinstance(v, Agg) and v.name == 'f64': return Agg('f64', [('Neg', v)])
                return BV(-v.e, v.bits, v.signed)
            return r_neg
        if m and m.group(1) == 'discriminant':
            g = self.c_place_get(parse_place(m.group(2)))
            def r_discr(ctx, fr):
                o = g(ctx, fr)
                while isinstance(o, Ref): o = o.get()
                if not isinstance(o, Agg): raise Unsupported(f'discriminant of {o!r:.60}')
                return self.discr_of(o)
            return r_discr
        if m and m.group(1) in ('PtrMetadata', 'Len'):
            f = self.c_operand(m.group(2), fn) if m.group(1) == 'PtrMetadata' else self.c_place_get(parse_place(m.group(2)))
            return lambda ctx, fr: BV(seq_len(f(ctx, fr)), 64)
        if m and m.group(1) == 'CopyForDeref':
            return self.c_place_get(parse_place(m.group(2)))
        if m and m.group(1) == 'ShallowInitBox':
            return self.c_operand(split_top(m.group(2))[0], fn)
        mc = re.match(r'^((?:copy|move|const) .*) as (.+?) \((\w+)(\(.*\))?\)$', s)
        if mc:
            f = self.c_operand(mc.group(1), fn); ty = mc.group(2); kind = mc.group(3)
            if kind in ('IntToInt',) and ty in INT_BITS:
                return lambda ctx, fr: self.cast_int(f(ctx, fr), ty)
            if kind == 'PointerExposeProvenance' and ty in INT_BITS:
                return lambda ctx, fr: BV(ctx.address_of(f(ctx, fr)), INT_BITS[ty])
            if kind in ('PointerCoercion', 'PtrToPtr', 'Transmute', 'PointerExposeProvenance', 'PointerWithExposedProvenance', 'FnPtrToPtr', 'Subtype'):
                if kind == 'Transmute' and ty in INT_BITS:
                    def r_addr(ctx, fr):
                        v = f(ctx, fr)
                        if isinstance(v, BV) or is_bool(v): return self.cast_int(v, ty)
                        return BV(0x1000, INT_BITS[ty])      # address of a live object: non-null, page aligned (only used by rustc's debug pointer checks)
                    return r_addr
                return f
            if kind in ('IntToFloat', 'FloatToInt', 'FloatToFloat'):
                def r_f(ctx, fr):
                    v = f(ctx, fr)
                    return Agg('f64', [(kind, ty, v)])
                if kind == 'FloatToInt': raise Unsupported('float to int cast')
                return r_f
            if ty in INT_BITS:
                return lambda ctx, fr: self.cast_int(f(ctx, fr), ty)
            raise Unsupported('cast ' + s)
        if s.startswith(('copy ', 'move ', 'const ')):
            return self.c_operand(s, fn)
        if s.startswith('[') and s.endswith(']'):
            mrep = re.match(r'^\[(.*); (\d+)\]$', s)
            if mrep and top_find(s[1:-1], '; ') >= 0:
                f = self.c_operand(mrep.group(1), fn); n = int(mrep.group(2))
                return lambda ctx, fr: [copy_value(f(ctx, fr)) for _ in range(n)]
            fs = [self.c_operand(x, fn) for x in split_top(s[1:-1])]
            return lambda ctx, fr: [f(ctx, fr) for f in fs]
        mcl = re.match(r'^(\{closure@[^}]*\})( \{ (.*) \})?$', s)
        if mcl:
            fs = [self.c_operand(f.split(': ', 1)[1], fn) for f in split_top(mcl.group(3))] if mcl.group(3) else []
            name = mcl.group(1)
            return lambda ctx, fr: Agg(name, [f(ctx, fr) for f in fs])
        if s.startswith('(') and s.endswith(')') and match_close(mask_literals(s), 0) == len(s) - 1:
            fs = [self.c_operand(x, fn) for x in split_top(s[1:-1])]
            return lambda ctx, fr: Agg('tuple', [f(ctx, fr) for f in fs])
        ma = re.match(r'^([\w:<>, \[\]&\'\(\)]+?) \{ (.*) \}$', s)
        if ma:
            fs = [self.c_operand(f.split(': ', 1)[1], fn) for f in split_top(ma.group(2))]
            name = strip_generics(ma.group(1)).split('::')
            # enum struct-variant `Enum::Variant { .. }` or plain struct
            if len(name) >= 2:
                k = self.variant_index(fn.crate, name[-2], name[-1])
                if k is not None:
                    ty, var = name[-2], name[-1]
                    return lambda ctx, fr: Agg(ty, [f(ctx, fr) for f in fs], var, k)
            nm = name[-1]
            return lambda ctx, fr: Agg(nm, [f(ctx, fr) for f in fs])
        ma = re.match(r'^([\w:<>, \[\]&\'\(\)]+?) \{ *\}$', s)
        if ma:
            nm = strip_generics(ma.group(1)).split('::')[-1]
            return lambda ctx, fr: Agg(nm, [])
        st = strip_generics(s)
        mst = mask_literals(st)
        mv = re.match(r'^([\w:]+)::(\w+)(\(.*\))?$', mst)
        if mv:
            ty = mv.group(1); var = mv.group(2)
            if mv.group(3):
                inner = s[self._open_paren(mask_literals(s), len(s) - 1) + 1:-1]
                fs = [self.c_operand(f, fn) for f in split_top(inner)]
            else:
                fs = []
            k = self.variant_index(fn.crate, ty, var)
            tyl = ty.split('::')[-1]
            if k is not None:
                return lambda ctx, fr: Agg(tyl, [f(ctx, fr) for f in fs], var, k)
            if mv.group(3):
                return lambda ctx, fr: Agg(var, [f(ctx, fr) for f in fs])       # tuple struct `path::Name(..)`
            raise Unsupported('rvalue (unknown enum) ' + s)
        mt = re.match(r'^(\w+)\((.*)\)$', mst)
        if mt and mt.group(1)[0].isupper():
            inner = s[self._open_paren(mask_literals(s), len(s) - 1) + 1:-1]
            fs = [self.c_operand(f, fn) for f in split_top(inner)]
            nm = mt.group(1)
            return lambda ctx, fr: Agg(nm, [f(ctx, fr) for f in fs])
        if re.fullmatch(r'[A-Z]\w*', s):
            # a bare unit variant printed with a trimmed path (`Equal`, `None`)
            if s in ORDERING:
                return lambda ctx, fr: ordering(ORDERING[s])
            owners = [(c, e) for c, info in self.crates.items() for e, vs in info.enums.items() if vs and s in vs]
            owners += [(None, e) for e, vs in BUILTIN_ENUMS.items() if s in vs]
            if len(owners) == 1:
                c, e = owners[0]
                k = (self.crates[c].enums[e] if c else BUILTIN_ENUMS[e]).index(s)
                return lambda ctx, fr: Agg(e, [], s, k)
        raise Unsupported('rvalue ' + s)

    # ------------------------------------------------------------------ compile: statements
    def compile_fn(self, fn):
        self._cur_fn = fn
        code = {}
        for bb, stmts in fn.blocks.items():
            if bb in fn.cleanup:
                continue
            code[bb] = [self.c_stmt(st, fn) for st in stmts]
        fn.code = code

    def c_stmt(self, st, fn):
        try:
            return self._c_stmt(st, fn)
        except Unsupported as e:
            msg = f'{e} [in {fn.crate}::{fn.name}: {st[:160]}]'
            def bad(ctx, fr): raise Unsupported(msg)
            return bad
        except Exception as e:
            msg = f'MIR statement not understood ({type(e).__name__}: {e}) [in {fn.crate}::{fn.name}: {st[:160]}]'
            def bad2(ctx, fr): raise Unsupported(msg)
            return bad2

    def _c_stmt(self, st, fn):
        if st.startswith('goto -> bb'):
            t = int(st[10:-1]); return lambda ctx, fr: t
        if st == 'return;': return lambda ctx, fr: RETURN
        if st == 'unreachable;':
            def unr(ctx, fr): raise Panic('unreachable executed (last switch on ' + repr(getattr(ctx, 'last_switch', None))[:80] + ')')
            return unr
        if st.startswith('switchInt('):
            m = re.match(r'^switchInt\((.*)\) -> \[(.*)\];$', st)
            f = self.c_operand(m.group(1), fn)
            targets = []; other = None
            for t in m.group(2).split(','):
                k, b = t.strip().split(': ')
                if k == 'otherwise': other = int(b[2:])
                else: targets.append((int(k), int(b[2:])))
            def sw(ctx, fr):
                v = f(ctx, fr)
                ctx.last_switch = v
                if isinstance(v, BV):
                    if v.conc():
                        e = v.e
                        for kv, b in targets:
                            if e == (kv & ((1 << v.bits) - 1)): return b
                        return other
                    for kv, b in targets:
                        if ctx.branch(v.e == (kv & ((1 << v.bits) - 1))): return b
                    return other
                if isinstance(v, bool):
                    for kv, b in targets:
                        if v == bool(kv): return b
                    return other
                if is_bool(v):
                    for kv, b in targets:
                        if ctx.branch(v if kv else z3.Not(v)): return b
                    return other
                raise Unsupported(f'switchInt on {v!r:.60}')
            return sw
        if st.startswith('drop('):
            m = re.match(r'^drop\(.*\) -> \[return: bb(\d+),.*\];$', st)
            t = int(m.group(1)); return lambda ctx, fr: t
        if st.startswith('assert('):
            m = re.match(r'^assert\((.*)\) -> \[success: bb(\d+),.*\];$', st)
            parts = split_top(m.group(1))
            cs = parts[0]; neg = cs.startswith('!')
            f = self.c_operand(cs[1:] if neg else cs, fn)
            t = int(m.group(2)); msg = parts[1] if len(parts) > 1 else 'assert'
            where = f'{fn.crate}::{fn.name}'
            def asr(ctx, fr):
                v = f(ctx, fr)
                if neg: v = b_not(v)
                if ctx.branch(v): return t
                raise Panic(f'{msg} [{where}]')
            return asr
        if st.startswith(('StorageLive', 'StorageDead', 'nop', 'FakeRead', 'PlaceMention', 'AscribeUserType', 'Retag',
                          'Coverage', 'ConstEvalCounter', 'BackwardIncompatibleDropHint')) or st == 'resume;':
            return lambda ctx, fr: None
        mst = mask_literals(st)
        # diverging call: `callee(args) -> unwind continue;`
        mdiv = re.search(r'\) -> (unwind [\w() ]+|bb\d+);$', mst)
        if mdiv:
            k = mdiv.start()
            j = self._open_paren(mst, k)
            head = st[:j]
            callee = head.split(' = ', 1)[1] if ' = ' in mst[:j] else head
            argtxt = st[j + 1:k]
            return self._c_call(fn, None, callee.strip(), argtxt, None)
        k = mst.find(') -> [return: bb')
        if k > 0 and ' = ' in mst[:k]:
            j = self._open_paren(mst, k)
            eq = mst.index(' = ')
            lhs, callee = st[:eq], st[eq + 3:j]
            if callee.strip() not in BIN and callee.strip() not in UNOPS:
                t = int(re.match(r'\) -> \[return: bb(\d+)', st[k:]).group(1))
                return self._c_call(fn, lhs, callee.strip(), st[j + 1:k], t)
        if ' = ' in mst and st.endswith(';'):
            eq = mst.index(' = ')
            lhs, rhs = st[:eq], st[eq + 3:-1]
            f = self.c_rvalue(rhs, fn)
            setter = self.c_place_set(parse_place(lhs))
            ml = re.match(r'^_(\d+)$', lhs.strip())
            if rhs.startswith('discriminant(') and ml and fn.local_tys.get(int(ml.group(1))) in INT_BITS and fn.local_tys.get(int(ml.group(1))) != 'isize':
                # the discriminant has the width of the enum's tag type (Ordering: i8, printed as 255 in switch targets)
                dty = fn.local_tys[int(ml.group(1))]; f0 = f
                f = lambda ctx, fr: self.cast_int(f0(ctx, fr), dty)
            def asg(ctx, fr):
                setter(ctx, fr, f(ctx, fr))
            return asg
        if st.startswith('Deinit(') or st.startswith('discriminant('):
            if st.startswith('discriminant('):
                raise Unsupported('SetDiscriminant')
            return lambda ctx, fr: None
        raise Unsupported('stmt ' + st)

    @staticmethod
    def _open_paren(mst, k):
        d = 0; j = k
        while j >= 0:
            ch = mst[j]
            if ch == ')': d += 1
            elif ch == '(':
                d -= 1
                if d == 0: return j
            j -= 1
        raise Unsupported('call syntax ' + mst)

    def _c_call(self, fn, lhs, callee, argtxt, target):
        fargs = [self.c_operand(a, fn) for a in split_top(argtxt)] if argtxt.strip() else []
        setter = self.c_place_set(parse_place(lhs)) if lhs is not None else None
        crate = fn.crate
        if callee.startswith(('move _', 'copy _')):
            fcal = self.c_operand(callee, fn)
            def call_ptr(ctx, fr):
                f = fcal(ctx, fr)
                r = self.call_value(ctx, crate, f, [a(ctx, fr) for a in fargs])
                if setter: setter(ctx, fr, r)
                return target
            return call_ptr
        key = self.norm_key(callee)
        def call(ctx, fr):
            args = [a(ctx, fr) for a in fargs]
            r = self.call(ctx, crate, key, args, raw=callee)
            if setter is not None: setter(ctx, fr, r)
            if target is None: raise Unsupported('diverging call returned: ' + key)
            return target
        return call

    @staticmethod
    def norm_key(callee):
        key = strip_generics(callee)
        key = re.sub(r"'\w+ ", "", key)
        key = re.sub(r"<'\w+>", "", key)
        key = re.sub(r"<'\w+, ", "<", key)
        key = re.sub(r'::<(&mut |&)?impl .*>$', '', key)
        return key

    # ------------------------------------------------------------------ calls
    def call(self, ctx, crate, key, args, raw=None):
        if TRACE: print('  ' * ctx.depth + 'call', key)
        if key.startswith('<Self as ') and args:
            a0 = deref(args[0])
            if isinstance(a0, Agg): key = '<' + self._runtime_type(crate, a0, key[5:]) + key[5:]
            else:
                mt = re.match(r'^<Self as ([\w:]+)(?:<.*>)?>::(\w+)$', key)
                if mt:
                    trait, meth = mt.group(1).split('::')[-1], mt.group(2)
                    want = 'Vec' if isinstance(a0, VecV) else ('[' if isinstance(a0, (SliceV, list)) else ('String' if isinstance(a0, StrV) else None))
                    found = None
                    for exact in (True, False):
                        for c2 in [crate] + [c for c in self.crates if c != crate]:
                            for (t, tr, me) in self.crates[c2].trait_impls:
                                if tr == trait and (me == meth or not exact) and want and (t == want or (want == '[' and t.startswith('['))):
                                    found = t; break
                            if found: break
                        if found: break
                    if found: key = '<' + found + key[5:]
        elif key[0] == '<' and args and GENERIC_RECV.match(key):
            a0 = deref(args[0])
            if isinstance(a0, Agg) and a0.vidx is None or isinstance(a0, Agg) and a0.name not in ('Option', 'Result', 'tuple'):
                k2 = '<' + self._runtime_type(crate, a0, key[key.index(' as '):]) + key[key.index(' as '):]
                if self.resolve_static(crate, k2) is not None: key = k2
            else:
                # containers with a crate-local trait impl (impl<T: Search> Search for Vec<T> / Option<T>)
                want = 'Vec' if isinstance(a0, VecV) else ('Option' if isinstance(a0, Agg) and a0.name == 'Option' else ('String' if isinstance(a0, StrV) else None))
                mt = re.match(r'^<\w+ as ([\w:]+)(?:<.*>)?>::(\w+)$', key)
                if want and mt:
                    trait, meth = mt.group(1).split('::')[-1], mt.group(2)
                    if (want, trait, meth) in self.crates[crate].trait_impls:
                        k2 = '<' + want + key[key.index(' as '):]
                        if self.resolve_static(crate, k2) is not None: key = k2
        tgt = self.resolve_static(crate, key)
        if tgt is None:
            raise Unsupported('no model or MIR for call ' + key)
        kind, f = tgt
        if kind == 'fn':
            return self.call_fn(ctx, f, args)
        self.model_hits[key] = self.model_hits.get(key, 0) + 1
        # the model may read ctx.cur_* after calls it makes itself: restore them when it returns
        saved = (getattr(ctx, 'cur_key', None), getattr(ctx, 'cur_crate', None), getattr(ctx, 'cur_raw', None))
        ctx.cur_key = key; ctx.cur_crate = crate; ctx.cur_raw = raw or key
        try:
            return f(self, ctx, *args)
        finally:
            ctx.cur_key, ctx.cur_crate, ctx.cur_raw = saved

    def _runtime_type(self, crate, a0, rest):
        """type text of a receiver for run-time dispatch: `Name<FirstFieldType>` when the crate has impls for several instantiations
        of the generic type (impl Search for WithTokenSpan<Choice> / WithTokenSpan<Expression> ...)"""
        if a0.fields:
            f0 = deref(a0.fields[0])
            if isinstance(f0, Agg) and f0.name not in ('tuple', 'Option', 'Result', 'f64') and re.fullmatch(r'\w+', f0.name or ''):
                cand = f'{a0.name}<{f0.name}>'
                r = self.resolve_static(crate, '<' + cand + rest)
                if r is not None and r[0] == 'fn' and f0.name in r[1].arg_tys[0] if r is not None and r[0] == 'fn' and r[1].arg_tys else False:
                    return cand
        return a0.name

    def call_value(self, ctx, crate, f, args):
        """call a closure / fn item value with already spread arguments"""
        f0 = deref(f)
        if isinstance(f0, Agg):
            if f0.name.startswith('fnitem:'):
                return self.call(ctx, crate, self.norm_key(f0.name[7:]), list(args))
            if f0.name.startswith('{closure@'):
                for info in self.crates.values():
                    nm = info.closures.get(f0.name)
                    if nm:
                        cfn = info.mir.fns[nm][0]
                        a0ty = cfn.arg_tys[0]
                        a0 = f if isinstance(f, Ref) else (ValRef(f0) if a0ty.startswith('&') else f0)
                        if not a0ty.startswith('&'): a0 = f0
                        return self.call_fn(ctx, cfn, [a0] + list(args))
        raise Unsupported(f'call of value {f0!r:.80}')

    def resolve_static(self, crate, key):
        ck = (crate, key)
        if ck in self.resolve_cache: return self.resolve_cache[ck]
        r = self._resolve(crate, key)
        self.resolve_cache[ck] = r
        return r

    STD_PREFIX = ('std::', 'core::', 'alloc::', '<std::', '<core::', '<alloc::', 'hashbrown::', 'fnv::', 'parking_lot::',
                  'itertools::', 'strum::', 'rayon::', 'enum_map::', 'pinned_vec::')

    def _resolve(self, crate, key):
        f = self.models_exact.get(key)
        if f is not None: return ('model', f)
        fn = self._resolve_crate_fn(crate, key)
        if fn is not None: return ('fn', fn)
        for rx, f, pat in self.models_re:
            if rx.match(key): return ('model', f)
        segs = key.split('::')
        if len(segs) >= 2 and re.fullmatch(r'\w+', segs[-1]) and re.fullmatch(r'\w+', segs[-2]):
            # an enum variant (or tuple struct) constructor used as a function value
            k = self.variant_index(crate, segs[-2], segs[-1])
            if k is not None:
                ty, var = segs[-2], segs[-1]
                return ('model', lambda I, ctx, *a: Agg(ty, list(a), var, k))
        return None

    def _resolve_crate_fn(self, crate, key):
        # cross-crate path
        for c in self.crates:
            if key.startswith(c + '::'):
                r = self._resolve_in(c, key[len(c) + 2:])
                if r is not None: return r
            if key.startswith('<' + c + '::'):
                r = self._resolve_in(c, '<' + key[len(c) + 3:])
                if r is not None: return r
        if key.startswith(self.STD_PREFIX) and not (key.startswith('<') and ' as ' in key): return None
        r = self._resolve_in(crate, key)
        if r is not None: return r
        # a type of another loaded crate used through a trimmed path
        for c in self.crates:
            if c != crate:
                r = self._resolve_in(c, key, strict_type_only=True)
                if r is not None: return r
        return None

    def _pick(self, info, names):
        fl = []
        for n in names: fl.extend(info.mir.fns.get(n, []))
        if len(fl) == 1: return fl[0]
        return None

    def _resolve_in(self, crate, key, strict_type_only=False):
        from .resolve import last_seg
        info = self.crates[crate]
        if not strict_type_only and key in info.mir.fns and len(info.mir.fns[key]) == 1:
            return info.mir.fns[key][0]
        m = re.match(r'^<(.+) as ([\w:]+)(<.*>)?>::(\w+)$', key)
        if m:
            ty, trait, targs, meth = m.group(1), m.group(2).split('::')[-1], (m.group(3) or '')[1:-1], m.group(4)
            cands = info.trait_impls.get((last_seg(ty), trait, meth), [])
            if len(cands) > 1:
                # same type name in several modules (ast::Range / source::Range): the callee path decides
                typath = re.sub(r"^&(?:mut )?", '', strip_generics(ty).split('<')[0])
                byp = [c for c in cands if (c[3].split('::<impl at')[0] + '::' + last_seg(ty)).endswith('::' + typath) or c[3].split('::<impl at')[0] + '::' + last_seg(ty) == typath]
                if '::' in typath and byp: cands = byp
            if len(cands) == 1:
                # a single impl: it must still be the impl for these trait arguments (From<Buffer> is not From<&str>)
                if targs and cands[0][0] and self._unify(cands[0][0], cands[0][1], targs) is None: return None
                return self._pick(info, [cands[0][3]])
            if len(cands) > 1:
                best = None
                for cand in cands:
                    pat, gens, selfty, nm = cand[:4]
                    sc = self._unify(pat, gens, targs)
                    if sc is None: continue
                    s2 = self._unify(selfty, gens, ty)
                    if s2 is None: s2 = -1
                    if best is None or (sc + s2) > best[0]: best = (sc + s2, cand)
                if best:
                    cand = best[1]
                    if len(cand) > 4: return info.mir.fns[cand[3]][cand[4]]
                    return self._pick(info, [cand[3]])
                return None
            if not cands:
                # blanket impl `impl<T: Bound> Trait for T`
                bl = [c for (t, tr, me), cs in info.trait_impls.items() if tr == trait and me == meth for c in cs if c[2].strip() in c[1]]
                if len(bl) == 1 and (self._type_known(info, last_seg(ty)) or any(k[0] == last_seg(ty) for k in info.trait_impls)):
                    return self._pick(info, [bl[0][3]])
            d = info.trait_defaults.get((trait, meth))
            if d and (self._type_known(info, last_seg(ty)) or any(k[0] == last_seg(ty) and k[1] == trait for k in info.trait_impls)):
                return self._pick(info, [d])
            if re.fullmatch(r'[A-Z]\w*', ty) and not self._type_known(info, ty) and trait in info.traits and not strict_type_only:
                # a generic type parameter: the instantiation is not in the (polymorphic) MIR; decidable only
                # when the crate has exactly one implementation of that trait method
                allc = [v for (t, tr, me), v in info.trait_impls.items() if tr == trait and me == meth]
                if len(allc) == 1 and len(allc[0]) == 1 and len(allc[0][0]) == 4: return self._pick(info, [allc[0][0][3]])
            return None
        md = re.match(r"^<(?:dyn )?([\w:]+)(?:<.*>)?(?: \+ [^>]*)?>::(\w+)$", key)
        if md and ' as ' not in key:
            names = info.inherent.get((md.group(1).split('::')[-1], md.group(2)))
            if names:
                f = self._pick(info, names)
                if f is not None: return f
        if strict_type_only and '::' not in key: return None
        mi = re.match(r'^(?:[\w:]+::)?<impl (([\w:]+)(?:<.*>)?)>::(\w+)$', key)
        if mi:
            names = info.inherent.get((mi.group(2).split('::')[-1], mi.group(3)))
            if names:
                if len(names) > 1:
                    flat = lambda t: re.sub(r'\b(?:\w+::)+(\w+)', r'\1', re.sub(r"'\w+ ?,? ?", '', t)).replace(' ', '')
                    def hdr(n):
                        h = info.inherent_hdr.get(n, '')
                        if h in info.aliases_full: return info.aliases_full[h]
                        for a, full in info.aliases_full.items():
                            if a in h: h = re.sub(r'\b%s\b' % re.escape(a), lambda _m: full, h)
                        return h
                    same = [n for n in names if flat(hdr(n)) == flat(mi.group(1))]
                    if same: names = same
                f = self._pick(info, names)
                if f is not None: return f
            return None
        segs = key.split('::')
        if len(segs) >= 2:
            names = info.inherent.get((segs[-2], segs[-1]))
            if names:
                if len(names) > 1 and len(segs) >= 3:
                    typath = '::'.join(segs[:-1])
                    byp = [n for n in names if (n.split('::<impl at')[0] + '::' + segs[-2]).endswith('::' + typath) or n.split('::<impl at')[0] + '::' + segs[-2] == typath]
                    if byp: names = byp
                f = self._pick(info, names)
                if f is not None: return f
                # several impl blocks define the method for different type arguments: cannot decide statically
                raise Unsupported(f'ambiguous inherent method {key}: {names}')
            d = info.trait_defaults.get((segs[-2], segs[-1]))
            if d and not strict_type_only: return self._pick(info, [d])
        if strict_type_only: return None
        cands = [n for n in info.mir.by_last.get(segs[-1], []) if (n == key or n.endswith('::' + key) or key.endswith('::' + n)) and '<impl at' not in n]
        if len(cands) == 1: return self._pick(info, cands)
        return None

    @staticmethod
    def _type_known(info, ty):
        return ty in info.structs or ty in info.enums

    @staticmethod
    def _unify(pat, gens, arg):
        """match trait-argument text `pat` (with generic names `gens`) against concrete `arg`; score = literal length"""
        def nolt(t):
            t = re.sub(r"<'\w+>", "", t.strip()); t = re.sub(r"<'\w+, *", "<", t); t = re.sub(r", *'\w+(?=[,>])", "", t)
            return re.sub(r"'\w+ ", "", t)
        pat = nolt(pat); arg = nolt(arg)
        pat = re.sub(r'\b(?:\w+::)+(\w+)', r'\1', pat); arg = re.sub(r'\b(?:\w+::)+(\w+)', r'\1', arg)
        rx = re.escape(pat)
        for g in gens:
            if g: rx = re.sub(r'(?<![\w])' + re.escape(g) + r'(?![\w])', '.+', rx)
        if re.fullmatch(rx, arg):
            return len(re.sub(r'\.\+', '', rx))
        return None

    def call_fn(self, ctx, fn, args):
        if fn.code is None: self.compile_fn(fn)
        hk = fn.crate + '::' + fn.name
        self.fn_hits[hk] = self.fn_hits.get(hk, 0) + 1
        if TRACE: print('  ' * ctx.depth + '> ' + hk)
        fr = [None] * (fn.nlocals + 1)
        if len(args) != fn.nargs:
            # closures called through Fn* traits receive their arguments as one tuple
            raise Unsupported(f'arity mismatch calling {hk}: {len(args)} vs {fn.nargs}')
        for i, a in enumerate(args): fr[i + 1] = a
        code = fn.code
        bb = 0
        ctx.depth += 1
        if ctx.depth > 200: raise Unsupported('call depth limit')
        try:
            while True:
                for op in code[bb]:
                    ctx.steps += 1
                    nxt = op(ctx, fr)
                    if nxt is not None:
                        if nxt is RETURN:
                            if ctx.steps > ctx.step_limit: raise StepLimit('step limit')
                            r = fr[0]
                            return r if r is not None else UNIT
                        bb = nxt
                        break
                else:
                    raise Unsupported('fell off block in ' + hk)
                if ctx.steps > ctx.step_limit: raise StepLimit('step limit')
        except (Unsupported, Panic) as e:
            if not getattr(e, 'located', False):
                e.args = (f'{e.args[0]} [in {hk} bb{bb}]',); e.located = True; e.stack = []
            if len(e.stack) < 40: e.stack.append(f'{fn.name.split("::")[-1] if "::<impl at" not in fn.name else fn.name.split("/")[-1]} bb{bb}')
            raise
        finally:
            ctx.depth -= 1

    # convenience for harnesses
    def fn(self, crate, name_substr, pred=None):
        info = self.crates[crate]
        cands = [f for n, fl in info.mir.fns.items() for f in fl if name_substr in n and (pred is None or pred(f))]
        if len(cands) != 1: raise Unsupported(f'harness lookup {name_substr}: {len(cands)} candidates {[c.name for c in cands][:5]}')
        return cands[0]

    def method(self, crate, ty, meth):
        info = self.crates[crate]
        names = info.inherent.get((ty, meth))
        if not names: raise Unsupported(f'no inherent method {ty}::{meth}')
        f = self._pick(info, names)
        if f is None: raise Unsupported(f'ambiguous {ty}::{meth}')
        return f
