"""Call resolution tables for one crate: impl headers (read from the source location that rustc embeds in
MIR names), derived impls, closures, trait default methods, enum variant and struct field tables."""
import os, re
from .util import strip_generics, Unsupported, match_close

IMPL_AT = re.compile(r'<impl at ([^:>]+):(\d+):(\d+): (\d+):(\d+)>::(\w+)$')
CLOSURE_TY = re.compile(r'\{closure@[^}]*\}')


def _strip_leading_generics(hdr):
    hdr = hdr.lstrip()
    if hdr.startswith('<'):
        j = match_close(hdr, 0)
        return hdr[j + 1:].lstrip(), hdr[1:j]
    return hdr, ''


def last_seg(ty):
    """`&'a mut foo::Bar<X>` -> `Bar`; `[u8]` -> `[u8]`; `(A, B)` unchanged"""
    ty = ty.strip()
    ty = re.sub(r"^&(?:'\w+ )?(?:mut )?", '', ty)
    if ty.startswith('dyn '): ty = ty[4:]
    if ty and ty[0] == '[' and ty.endswith(']'):
        inner = ty[1:-1]; tail = ''
        if '; ' in inner: inner, tail = inner.rsplit('; ', 1); tail = '; ' + tail
        return '[' + last_seg(inner) + tail + ']'
    if ty and (ty[0] in '[(' ): return ty
    m = re.match(r'[\w:]+', ty)
    return m.group(0).split('::')[-1] if m else ty


class CrateInfo:
    def __init__(self, mir, repo_root, src_dirs):
        self.mir = mir
        self.crate = mir.crate
        self.repo_root = repo_root
        self._src = {}
        self.inherent = {}        # (Type, method) -> [fn name]
        self.trait_impls = {}     # (Type, Trait, method) -> [(trait_args, impl_generics, self_ty_text, fn name)]
        self.closures = {}        # closure type text -> fn name
        self.trait_defaults = {}  # (Trait, method) -> fn name
        self.enums = {}           # EnumName -> [variants]  (name collisions -> None)
        self.structs = {}         # StructName -> [field names]
        self.enum_discr = {}      # EnumName -> {variant: explicit discriminant}
        self.inherent_hdr = {}    # inherent impl fn name -> self type text of its impl header
        self.aliases_full = {}    # non-generic alias -> full aliased type text
        self.traits = set()       # traits defined in this crate
        self.aliases_lt = {}      # alias with lifetime parameters only -> full aliased type text (EntRef<'a> = &'a AnyEnt<'a>)
        self.aliases = {}         # type alias name -> last segment of the aliased type
        for d in src_dirs:
            self._scan_items(os.path.join(repo_root, d))
        self._build_impls()

    # ---- source access ----
    def src_lines(self, p):
        if p not in self._src:
            self._src[p] = open(os.path.join(self.repo_root, p), encoding='utf-8').read().split('\n')
        return self._src[p]

    def _build_impls(self):
        for name, fl in self.mir.fns.items():
            for fn in fl:
                if fn.arg_tys:
                    mc = CLOSURE_TY.search(fn.arg_tys[0])
                    if mc and '{closure#' in name.split('::')[-1]:
                        self.closures[mc.group(0)] = name
            m = IMPL_AT.search(name)
            if not m:
                segs = name.split('::')
                if len(segs) >= 2 and segs[-2][:1].isupper() and '<' not in segs[-2]:
                    self.trait_defaults.setdefault((segs[-2], segs[-1]), name)
                continue
            path, L, C, meth = m.group(1), int(m.group(2)), int(m.group(3)), m.group(6)
            try:
                lines = self.src_lines(path)
            except OSError:
                continue
            line = lines[L - 1]
            if line.lstrip().startswith('#[') or 'derive' in line[:C + 8] and 'impl' not in line:
                mt = re.match(r'\w+', line[C - 1:])
                if mt is None:
                    ma = re.match(r'\s*#\[(\w+)', line)
                    trait = {'with_token_span': 'HasTokenSpan'}.get(ma.group(1) if ma else '', None)
                    if trait is None: continue
                else:
                    trait = mt.group(0)
                k = L
                while not re.search(r'\b(struct|enum|union)\s+(\w+)', lines[k]): k += 1
                ty = re.search(r'\b(struct|enum|union)\s+(\w+)', lines[k]).group(2)
                if trait == 'IntoStaticStr':
                    # strum: `impl From<Ty> for &'static str` and `impl From<&Ty> for &'static str` share one MIR name
                    for k2, f2 in enumerate(fl):
                        a0 = re.sub(r"'\w+ ", '', f2.arg_tys[0]) if f2.arg_tys else ty
                        ent = (a0, [], 'str', name, k2)
                        lst = self.trait_impls.setdefault(('str', 'From', meth), [])
                        if ent not in lst: lst.append(ent)
                    continue
                trait = {'EnumString': 'FromStr', 'AsRefStr': 'AsRef', 'Display': 'Display', 'TokenSpan': 'HasTokenSpan'}.get(trait, trait)
                self.trait_impls.setdefault((ty, trait, meth), []).append(('', [], ty, name))
                continue
            hdr = line[C - 1:]
            k = L
            while '{' not in hdr and k < len(lines):
                hdr += ' ' + lines[k].strip(); k += 1
            hdr = hdr[:hdr.index('{')].strip() if '{' in hdr else hdr
            hdr = re.sub(r'^(unsafe )?impl\b', '', hdr).lstrip()
            hdr, gen_txt = _strip_leading_generics(hdr)
            generics = []
            if gen_txt:
                from .util import split_top
                for g in split_top(gen_txt):
                    g = g.strip()
                    if g.startswith("'"): continue
                    g = g.replace('const ', '')
                    generics.append(g.split(':')[0].strip())
            hdr = re.sub(r'\s+where\b.*$', '', hdr)
            if hdr.startswith('!'): continue
            k2 = self._top_for(hdr)
            if k2 >= 0:
                trait, ty = hdr[:k2].strip(), hdr[k2 + 5:].strip()
                tname = strip_generics(trait)
                tbase = tname.split('<')[0].split('::')[-1]
                targs = trait[trait.index('<') + 1:trait.rindex('>')] if '<' in trait else ''
                for a, full in self.aliases_lt.items():
                    if a in targs: targs = re.sub(r"\b%s\b(<'\w+>)?" % a, lambda _m: full, targs)
                self.trait_impls.setdefault((self.aliases.get(last_seg(ty), last_seg(ty)), tbase, meth), []).append((targs, generics, ty, name))
            else:
                self.inherent.setdefault((self.aliases.get(last_seg(hdr), last_seg(hdr)), meth), []).append(name)
                self.inherent_hdr[name] = hdr

    @staticmethod
    def _top_for(hdr):
        d = 0
        for i, c in enumerate(hdr):
            if c in '<([': d += 1
            elif c in ')]' or (c == '>' and hdr[i - 1] not in '-='): d -= 1
            elif d == 0 and hdr.startswith(' for ', i): return i
        return -1

    # ---- item tables ----
    def _scan_items(self, d):
        for root, _, files in os.walk(d):
            for f in files:
                if f.endswith('.rs'):
                    self._scan_file(os.path.join(root, f))

    def _scan_file(self, path):
        src = open(path, encoding='utf-8').read()
        # blank out comments, strings and char literals, keep offsets
        clean = self._blank(src)
        for m in re.finditer(r'\btrait\s+(\w+)', clean):
            self.traits.add(m.group(1))
        for m in re.finditer(r'\btype\s+(\w+)\s*(<[^=;]*>)?\s*=\s*([^;{]+);', clean):
            tgt = last_seg(m.group(3))
            if tgt and tgt[0].isupper() and tgt != m.group(1):
                self.aliases[m.group(1)] = tgt
                if not m.group(2): self.aliases_full[m.group(1)] = m.group(3).strip()
                elif re.fullmatch(r"<\s*'\w+(\s*,\s*'\w+)*\s*>", m.group(2)): self.aliases_lt[m.group(1)] = m.group(3).strip()
        for m in re.finditer(r'\b(enum|struct)\s+(\w+)\s*(<[^{;(]*?>)?\s*(where[^{;]*)?\{', clean):
            kind, name = m.group(1), m.group(2)
            i = m.end(); dpt = 1; j = i
            while dpt and j < len(clean):
                if clean[j] == '{': dpt += 1
                elif clean[j] == '}': dpt -= 1
                j += 1
            body = clean[i:j - 1]
            items = self._split_items(body)
            if kind == 'enum':
                vs = []; discr = {}
                for it in items:
                    mm = re.match(r'\s*(\w+)', it)
                    if mm:
                        vs.append(mm.group(1))
                        md = re.search(r'=\s*(-?\d+)\s*$', it)
                        if md: discr[mm.group(1)] = int(md.group(1))
                if name in self.enums and self.enums[name] != vs:
                    self.enums[name] = None
                else:
                    self.enums[name] = vs
                    if discr: self.enum_discr[name] = discr
            else:
                fs = []
                for it in items:
                    mm = re.match(r'\s*(?:pub(?:\([^)]*\))?\s+)?(\w+)\s*:', it)
                    if mm: fs.append(mm.group(1))
                if name in self.structs and self.structs[name] != fs:
                    self.structs[name] = None
                else:
                    self.structs[name] = fs

    @staticmethod
    def _split_items(body):
        body = re.sub(r'#\s*\[[^\]]*\]', '', body)
        out, d, cur = [], 0, []
        for c in body:
            if c in '({[<': d += 1
            elif c in ')}]>': d -= 1
            if c == ',' and d == 0:
                out.append(''.join(cur)); cur = []
            else:
                cur.append(c)
        if ''.join(cur).strip(): out.append(''.join(cur))
        return [o for o in out if o.strip()]

    @staticmethod
    def _blank(src):
        out = list(src); i, n = 0, len(src)
        while i < n:
            c = src[i]
            if src.startswith('//', i):
                j = src.find('\n', i); j = n if j < 0 else j
                for k in range(i, j): out[k] = ' '
                i = j
            elif src.startswith('/*', i):
                j = src.find('*/', i + 2); j = n if j < 0 else j + 2
                for k in range(i, j):
                    if out[k] != '\n': out[k] = ' '
                i = j
            elif c == '"':
                j = i + 1
                while j < n and src[j] != '"':
                    if src[j] == '\\': j += 1
                    j += 1
                for k in range(i + 1, min(j, n)):
                    if out[k] != '\n': out[k] = ' '
                i = j + 1
            elif src.startswith('r#"', i):
                j = src.find('"#', i + 3); j = n if j < 0 else j
                for k in range(i + 3, j):
                    if out[k] != '\n': out[k] = ' '
                i = j + 2
            elif c == "'":
                m = re.match(r"'(\\u\{[0-9a-fA-F]+\}|\\x[0-9a-fA-F]{2}|\\.|[^\\'])'", src[i:i + 12])
                if m:
                    for k in range(i + 1, i + m.end() - 1): out[k] = ' '
                    i += m.end()
                else:
                    i += 1
            else:
                i += 1
        return ''.join(out)

    # ---- lookups ----
    def variant_index(self, ty, var):
        base = ty.split('::')[-1]
        vs = self.enums.get(base)
        if vs is None:
            return None
        if var not in vs:
            return None
        return vs.index(var)

    def field_index(self, struct, field):
        fs = self.structs.get(struct)
        if not fs: raise Unsupported(f'struct {struct} unknown or ambiguous')
        return fs.index(field)
