"""Loader for `rustc -Zunpretty=mir` text.

The dump is regenerated from /repo's working tree on every check run (see build.py); this module
turns it into `Fn` records: name, argument types, local types and basic blocks as statement strings.
Statements are compiled to closures lazily by interp.Interp on first execution.
"""
import re, hashlib
from .util import split_top, top_find

FN_RE = re.compile(r'^fn (.+?)\((.*)\) -> (.+) \{$')
CONST_RE = re.compile(r'^(?:const|static(?: mut)?) (.+?): (.+) = \{$')
BB_RE = re.compile(r'^    bb(\d+)( \(cleanup\))?: \{$')
LET_RE = re.compile(r'^\s+let (?:mut )?_(\d+): (.+);$')


class Fn:
    __slots__ = ('name', 'crate', 'nargs', 'arg_tys', 'ret_ty', 'blocks', 'local_tys', 'code', 'text_hash',
                 'is_const', 'nlocals', 'cleanup')

    def __init__(self, name, crate, arg_tys, ret_ty, blocks, local_tys, is_const, text_hash, cleanup):
        self.name, self.crate, self.arg_tys, self.ret_ty = name, crate, arg_tys, ret_ty
        self.nargs = len(arg_tys)
        self.blocks, self.local_tys, self.is_const = blocks, local_tys, is_const
        self.code = None
        self.text_hash = text_hash
        self.cleanup = cleanup
        self.nlocals = (max(local_tys) + 1) if local_tys else 1

    def __repr__(self):
        return f'<Fn {self.crate}::{self.name}>'


class CrateMir:
    def __init__(self, crate, path):
        self.crate, self.path = crate, path
        self.fns = {}          # name -> [Fn]
        self.by_last = {}      # last path segment -> [name]
        self.statics = {}      # alloc id -> static item name
        self._load(path)

    def _load(self, path):
        lines = open(path, encoding='utf-8', errors='surrogateescape').read().split('\n')
        i, n = 0, len(lines)
        while i < n:
            l = lines[i]
            if l.startswith('alloc') and '(static: ' in l:
                ms = re.match(r'^alloc(\d+) \(static: ([\w:]+)', l)
                if ms: self.statics[int(ms.group(1))] = ms.group(2)
            m1 = re.match(r'^(?:const|static(?: mut)?) ([\w:<>]+): ([^=]+?) = (const .+);$', l) if l.startswith(('const ', 'static ')) else None
            if m1:
                # one-line constant item: `const VARIABLE: u32 = const 0_u32;`
                name, ret, val = m1.group(1), m1.group(2).strip(), m1.group(3)
                h = hashlib.sha256(l.encode('utf-8', 'surrogateescape')).hexdigest()[:16]
                f = Fn(name, self.crate, [], ret, {0: ['_0 = ' + val + ';', 'return;']}, {0: ret}, True, h, set())
                self.fns.setdefault(name, []).append(f)
            if l and not l[0].isspace() and l.endswith('{'):
                m = FN_RE.match(l)
                mc = None
                if not m and l.endswith(' = {') and l.startswith(('const ', 'static ')):
                    body = re.sub(r'^(const|static( mut)?) ', '', l[:-4])
                    k = top_find(body, ': ')
                    if k > 0:
                        class _MC:
                            def __init__(s, a, b): s.a, s.b = a, b
                            def group(s, i): return s.a if i == 1 else s.b
                        mc = _MC(body[:k], body[k + 2:])
                if m or mc:
                    start = i
                    if m:
                        name, args, ret = m.group(1), m.group(2), m.group(3)
                    else:
                        name, args, ret = mc.group(1), '', mc.group(2)
                    arg_list = split_top(args) if args.strip() else []
                    arg_tys = [a.split(': ', 1)[1] if ': ' in a else a for a in arg_list]
                    local_tys = {k + 1: t for k, t in enumerate(arg_tys)}
                    local_tys[0] = ret
                    blocks = {}; cleanup = set()
                    i += 1; bb = None
                    while i < n and lines[i] != '}':
                        l2 = lines[i]
                        if bb is None:
                            mb = BB_RE.match(l2)
                            if mb:
                                bb = int(mb.group(1)); blocks[bb] = []
                                if mb.group(2): cleanup.add(bb)
                            else:
                                ml = LET_RE.match(l2)
                                if ml: local_tys[int(ml.group(1))] = ml.group(2)
                        elif l2 == '    }':
                            bb = None
                        else:
                            s = l2.strip()
                            if s and not s.startswith('//'):
                                blocks[bb].append(s)
                        i += 1
                    h = hashlib.sha256('\n'.join(lines[start:i + 1]).encode('utf-8', 'surrogateescape')).hexdigest()[:16]
                    f = Fn(name, self.crate, arg_tys, ret, blocks, local_tys, bool(mc), h, cleanup)
                    self.fns.setdefault(name, []).append(f)
            i += 1
        for name in self.fns:
            self.by_last.setdefault(name.split('::')[-1], []).append(name)
