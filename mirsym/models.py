"""Models of the std / third-party functions that the encoded crate code calls.

Crate-local functions are never modelled here (they are interpreted from their MIR); every model that a run
used is listed with its call count in the evidence file ("stubs").  Keys are callee paths after
`Interp.norm_key`; `re:` keys are regular expressions tried only after crate functions.
"""
import re
import z3
from .util import *
from .values import *
from .interp import Violation, ordering

M = {}


def model(*names):
    def deco(f):
        for n in names:
            M[n] = f
            if not n.startswith('re:') and n.startswith('core::'):
                M['std::' + n[6:]] = f; M['alloc::' + n[6:]] = f
            if not n.startswith('re:') and n.startswith('char::methods::'):
                M['core::' + n] = f; M['std::' + n] = f
        return f
    return deco


# ------------------------------------------------------------------ helpers
def lt_const(ctx, b, k):
    return (b.e < k) if b.conc() else z3.ULT(b.e, k)


def utf8_decode(ctx, bts, i):
    """decode one char at byte index i of a list of BV8 (forks on the lead byte class) -> (BV32 char, width)"""
    b0 = bts[i]
    def zx(b): return BV(b.e, 32) if b.conc() else BV(z3.ZeroExt(24, b.e), 32)
    def comb(parts):
        if all(p[0].conc() for p in parts):
            return BV(sum((p[0].e & p[1]) << p[2] for p in parts), 32)
        e = z3.BitVecVal(0, 32)
        for b, mask, sh in parts: e = e | ((zx(b).z() & mask) << sh)
        return BV(z3.simplify(e), 32)
    if ctx.branch(lt_const(ctx, b0, 0x80)): return zx(b0), 1
    if ctx.branch(lt_const(ctx, b0, 0xE0)): return comb([(b0, 0x1F, 6), (bts[i + 1], 0x3F, 0)]), 2
    if ctx.branch(lt_const(ctx, b0, 0xF0)): return comb([(b0, 0x0F, 12), (bts[i + 1], 0x3F, 6), (bts[i + 2], 0x3F, 0)]), 3
    return comb([(b0, 0x07, 18), (bts[i + 1], 0x3F, 12), (bts[i + 2], 0x3F, 6), (bts[i + 3], 0x3F, 0)]), 4


def utf8_encode(ctx, c):
    """char (BV32) -> list of BV8 (forks on the width)"""
    def byte(shift, mask, orv):
        if c.conc(): return BV(((c.e >> shift) & mask) | orv, 8)
        return BV(z3.simplify(z3.Extract(7, 0, (z3.LShR(c.e, shift) & mask) | orv)), 8)
    if ctx.branch(lt_const(ctx, c, 0x80)): return [byte(0, 0x7F, 0)]
    if ctx.branch(lt_const(ctx, c, 0x800)): return [byte(6, 0x1F, 0xC0), byte(0, 0x3F, 0x80)]
    if ctx.branch(lt_const(ctx, c, 0x10000)): return [byte(12, 0x0F, 0xE0), byte(6, 0x3F, 0x80), byte(0, 0x3F, 0x80)]
    return [byte(18, 0x07, 0xF0), byte(12, 0x3F, 0x80), byte(6, 0x3F, 0x80), byte(0, 0x3F, 0x80)]


def utf8_width(ctx, c):
    if ctx.branch(lt_const(ctx, c, 0x80)): return 1
    if ctx.branch(lt_const(ctx, c, 0x800)): return 2
    if ctx.branch(lt_const(ctx, c, 0x10000)): return 3
    return 4


def str_bytes(v):
    """list-of-BV8 view of a str-like value (StrV, SliceV over bytes)"""
    v = deref(v)
    if isinstance(v, StrV): return v.b
    if isinstance(v, SliceV): return v.base[v.lo:v.hi]
    if isinstance(v, (VecV, list)): return seq_items(v)
    raise Unsupported('str bytes of ' + repr(v)[:60])


def decode_all(ctx, v):
    b = str_bytes(v); out = []; i = 0
    while i < len(b):
        c, n = utf8_decode(ctx, b, i); out.append(c); i += n
    return out


def py_str(s):
    return StrV([BV(x, 8) for x in s.encode('utf-8')])


class CharsIt:
    def __init__(self, b, i=0): self.b, self.i = b, i


class ListIt:
    """iterator over a python list of items (by value or by reference)"""
    def __init__(self, items, rev=False):
        self.items, self.i, self.j = items, 0, len(items)


class Peek:
    def __init__(self, it): self.it, self.peeked = it, None


class EnumIt:
    def __init__(self, it): self.it, self.n = it, 0


class MapIt:
    def __init__(self, it, f): self.it, self.f = it, f


class ChainIt:
    def __init__(self, a, b): self.a, self.b = a, b


class RevIt:
    def __init__(self, it): self.it = it


def it_next(I, ctx, it):
    it = deref(it)
    if isinstance(it, ListIt):
        if it.i < it.j:
            v = it.items[it.i]; it.i += 1; return SOME(v)
        return NONE()
    if isinstance(it, RevIt):
        return it_next_back(I, ctx, it.it)
    if isinstance(it, CharsIt):
        if it.i >= len(it.b): return NONE()
        c, n = utf8_decode(ctx, it.b, it.i); it.i += n
        return SOME(c)
    if isinstance(it, Peek):
        if it.peeked is not None:
            v = it.peeked; it.peeked = None; return v
        return it_next(I, ctx, it.it)
    if isinstance(it, EnumIt):
        o = it_next(I, ctx, it.it)
        if o.variant == 'None': return o
        r = SOME(TUPLE(BV(it.n, 64), o.fields[0])); it.n += 1; return r
    if isinstance(it, MapIt):
        o = it_next(I, ctx, it.it)
        if o.variant == 'None': return o
        return SOME(I.call_value(ctx, ctx.cur_crate, it.f, [o.fields[0]]))
    if isinstance(it, ChainIt):
        o = it_next(I, ctx, it.a)
        if o.variant == 'Some': return o
        return it_next(I, ctx, it.b)
    if isinstance(it, Agg) and it.name in ('Range', 'RangeInclusive'):
        a, b = it.fields[0], it.fields[1]
        if it.name == 'RangeInclusive':
            if len(it.fields) > 2 and it.fields[2] is True: return NONE()
            c = (a.e <= b.e) if (a.conc() and b.conc()) else z3.ULE(a.z(), b.z())
            if ctx.branch(c):
                if ctx.branch(bv_eq(a, b)):
                    if len(it.fields) > 2: it.fields[2] = True
                    else: it.fields.append(True)
                else:
                    it.fields[0] = BV(a.e + 1, a.bits, a.signed)
                return SOME(a)
            return NONE()
        c = (a.sval() < b.sval() if a.signed else a.e < b.e) if (a.conc() and b.conc()) else ((a.z() < b.z()) if a.signed else z3.ULT(a.z(), b.z()))
        if ctx.branch(c):
            it.fields[0] = BV(a.e + 1, a.bits, a.signed)
            return SOME(a)
        return NONE()
    if isinstance(it, Agg) and it.name in ('Either', 'Left', 'Right') and len(it.fields) == 1:
        return it_next(I, ctx, it.fields[0])
    if isinstance(it, Agg):
        # a crate type implementing Iterator
        tgt = I.resolve_static(ctx.cur_crate, f'<{it.name} as Iterator>::next')
        if tgt is None or tgt[0] != 'fn': raise Unsupported('Iterator::next on ' + repr(it)[:80])
        return I.call_fn(ctx, tgt[1], [ValRef(it)])
    raise Unsupported('next on ' + repr(it)[:80])


def it_next_back(I, ctx, it):
    it = deref(it)
    if isinstance(it, ListIt):
        if it.i < it.j:
            it.j -= 1; return SOME(it.items[it.j])
        return NONE()
    if isinstance(it, RevIt):
        return it_next(I, ctx, it.it)
    raise Unsupported('next_back on ' + repr(it)[:80])


def _ho(ctx, it):
    """iteration order of a hash container is not specified: a harness may ask for the reverse of insertion order (ctx.hash_rev)"""
    if getattr(ctx, 'hash_rev', False): it.items = it.items[::-1]
    return it


def to_iter(I, ctx, v, byref=None):
    """IntoIterator for the container values of the interpreter"""
    v0 = deref(v)
    if isinstance(v0, (ListIt, CharsIt, Peek, EnumIt, MapIt, ChainIt, RevIt)): return v0
    if isinstance(v0, Agg) and v0.name in ('Range', 'RangeInclusive'): return v0
    if isinstance(v0, (VecV, SliceV, list)):
        l, lo, hi = seq_view(v0)
        if byref is None: byref = isinstance(v, Ref)
        if byref: return ListIt([ElemRef(l, k) for k in range(lo, hi)])
        return ListIt(l[lo:hi])
    if isinstance(v0, HMap):
        return _ho(ctx, ListIt([TUPLE(k, x) for k, x in v0.entries()]) if not isinstance(v, Ref) else ListIt([TUPLE(ValRef(k), v0.ref_of(k)) for k, _ in v0.entries()]))
    if isinstance(v0, HSet):
        return _ho(ctx, ListIt(list(v0.items)) if not isinstance(v, Ref) else ListIt([ValRef(k) for k in v0.items]))
    if isinstance(v0, Agg) and v0.variant in ('Some', 'None') and v0.name == 'Option':
        return ListIt(list(v0.fields))
    return v0


def truthy(ctx, c):
    return ctx.branch(c)


def values_eq(I, ctx, a, b):
    """structural equality of two values as a (python/z3) boolean, without forking"""
    a, b = deref(a), deref(b)
    if a is b and not isinstance(a, (Agg,)): return True
    if isinstance(a, BV) and isinstance(b, BV):
        return bv_eq(a, b)
    if isinstance(a, HMap) and isinstance(b, HMap):
        if len(a.keys) != len(b.keys): return False
        r = True
        for k, v in zip(a.keys, a.vals):
            i = b.find(I, ctx, k)
            if i is None: return False
            r = b_and(r, values_eq(I, ctx, v, b.vals[i]))
            if r is False: return False
        return r
    if isinstance(a, HSet) and isinstance(b, HSet):
        if len(a.items) != len(b.items): return False
        return all(b.find(I, ctx, k) is not None for k in a.items)
    if is_bool(a) and is_bool(b):
        return (a == b) if isinstance(a, bool) and isinstance(b, bool) else (b_z(a) == b_z(b))
    if isinstance(a, Agg) and isinstance(b, Agg):
        if a.name == 'f64' or b.name == 'f64':
            return f64_eq(I, ctx, a, b)
        if isinstance(a.vidx, BV) or isinstance(b.vidx, BV):
            av = a.vidx if isinstance(a.vidx, BV) else BV(a.vidx, b.vidx.bits)
            bv_ = b.vidx if isinstance(b.vidx, BV) else BV(b.vidx, a.vidx.bits)
            return bv_eq(av, bv_)
        if a.vidx != b.vidx or len(a.fields) != len(b.fields): return False
        r = True
        for x, y in zip(a.fields, b.fields):
            r = b_and(r, values_eq(I, ctx, x, y))
            if r is False: return False
        return r
    if isinstance(a, Unit) and isinstance(b, Unit): return True
    if isinstance(a, (VecV, StrV, SliceV, list)) and isinstance(b, (VecV, StrV, SliceV, list)):
        xa, xb = seq_items(a), seq_items(b)
        if len(xa) != len(xb): return False
        r = True
        for x, y in zip(xa, xb):
            r = b_and(r, values_eq(I, ctx, x, y))
            if r is False: return False
        return r
    if a is None and b is None: return True
    raise Unsupported(f'values_eq {a!r:.50} / {b!r:.50}')


def f64_eq(I, ctx, a, b):
    def walk(x, y):
        if isinstance(x, Agg) and isinstance(y, Agg) and x.name == 'f64' and y.name == 'f64':
            return walk(x.fields[0], y.fields[0])
        if isinstance(x, tuple) and isinstance(y, tuple):
            if len(x) != len(y): return False
            r = True
            for p, q in zip(x, y):
                r = b_and(r, walk(p, q))
                if r is False: return False
            return r
        if isinstance(x, (BV,)) and isinstance(y, BV): return bv_eq(x, y) if x.bits == y.bits else False
        if isinstance(x, (Agg, VecV, StrV, SliceV, list)) or isinstance(y, (Agg, VecV, StrV, SliceV, list)):
            try: return values_eq(I, ctx, x, y)
            except Unsupported: return False
        return x == y
    return walk(a, b)


# ------------------------------------------------------------------ hash containers (concrete shape, symbolic keys)
def key_eq(I, ctx, a, b):
    """equality of hash-container keys: the key type's own PartialEq (Symbol compares ids, Source compares file ids), structural otherwise"""
    a, b = deref(a), deref(b)
    if isinstance(a, Agg) and isinstance(b, Agg):
        if a.name in ('tuple', 'Option') and a.name == b.name:
            if a.vidx != b.vidx or len(a.fields) != len(b.fields): return False
            r = True
            for x, y in zip(a.fields, b.fields):
                r = b_and(r, key_eq(I, ctx, x, y))
                if r is False: return False
            return r
        if a.name == b.name and a.name not in ('f64',):
            crate = getattr(ctx, 'cur_crate', None) or I.default_crate
            tgt = I.resolve_static(crate, f'<{a.name} as PartialEq>::eq')
            # same-named types: an enum's derived eq is not the eq of a struct value (ast::Range vs source::Range / lsp_types::Range)
            info = I.crates.get(crate)
            shape_ok = not (a.vidx is None and info is not None and a.name in info.enums and a.name in getattr(info, 'structs', {}))
            if tgt is not None and tgt[0] == 'fn' and shape_ok:
                if a.vidx is None and any(a.name in i2.enums for i2 in I.crates.values()):
                    # a struct value whose name is also an enum's somewhere (lsp_types::Range / source::Range vs ast::Range): the enum's derived
                    # eq starts with a discriminant read and is not this type's eq
                    try: return I.call_fn(ctx, tgt[1], [ValRef(a), ValRef(b)])
                    except Unsupported as u:
                        if 'discriminant of non-enum' not in str(u): raise
                        return values_eq(I, ctx, a, b)
                return I.call_fn(ctx, tgt[1], [ValRef(a), ValRef(b)])
    return values_eq(I, ctx, a, b)


class HMap:
    """FnvHashMap / HashMap: insertion-ordered association list; key comparison may fork"""
    def __init__(self): self.keys, self.vals = [], []
    def entries(self): return list(zip(self.keys, self.vals))
    def ref_of(self, k):
        i = [id(x) for x in self.keys].index(id(k)); return ElemRef(self.vals, i)
    def find(self, I, ctx, k):
        for i, k2 in enumerate(self.keys):
            if ctx.branch(key_eq(I, ctx, k, k2)): return i
        return None


class HSet:
    def __init__(self): self.items = []
    def find(self, I, ctx, k):
        for i, k2 in enumerate(self.items):
            if ctx.branch(key_eq(I, ctx, k, k2)): return i
        return None


@model('re:^(std::collections::)?(hash_map::)?(Fnv)?HashMap::(new|default|with_hasher|with_capacity_and_hasher)$',
       're:^<(std::collections::)?(Fnv)?HashMap<.*> as Default>::default$')
def _hm_new(I, ctx, *a): return HMap()
@model('re:^(std::collections::)?(hash_set::)?(Fnv)?HashSet::(new|default|with_hasher)$',
       're:^<(std::collections::)?(Fnv)?HashSet<.*> as Default>::default$')
def _hs_new(I, ctx, *a): return HSet()
@model('re:^(std::collections::)?(Fnv)?HashMap::get$')
def _hm_get(I, ctx, m, k):
    m = deref(m); i = m.find(I, ctx, deref(k))
    return NONE() if i is None else SOME(ElemRef(m.vals, i))
@model('re:^(std::collections::)?(Fnv)?HashMap::get_mut$')
def _hm_get_mut(I, ctx, m, k): return _hm_get(I, ctx, m, k)
@model('re:^(std::collections::)?(Fnv)?HashMap::contains_key$')
def _hm_contains(I, ctx, m, k):
    return deref(m).find(I, ctx, deref(k)) is not None
@model('re:^(std::collections::)?(Fnv)?HashMap::insert$')
def _hm_insert(I, ctx, m, k, v):
    m = deref(m); i = m.find(I, ctx, k)
    if i is None:
        m.keys.append(k); m.vals.append(v); return NONE()
    old = m.vals[i]; m.vals[i] = v; return SOME(old)
@model('re:^(std::collections::)?(Fnv)?HashMap::remove$')
def _hm_remove(I, ctx, m, k):
    m = deref(m); i = m.find(I, ctx, deref(k))
    if i is None: return NONE()
    m.keys.pop(i); return SOME(m.vals.pop(i))
@model('re:^(std::collections::)?(Fnv)?HashMap::(len)$')
def _hm_len(I, ctx, m): return BV(len(deref(m).keys), 64)
@model('re:^(std::collections::)?(Fnv)?HashMap::is_empty$')
def _hm_is_empty(I, ctx, m): return len(deref(m).keys) == 0
@model('re:^(std::collections::)?(Fnv)?HashMap::clear$')
def _hm_clear(I, ctx, m):
    m = deref(m); m.keys.clear(); m.vals.clear(); return UNIT
@model('re:^(std::collections::)?(Fnv)?HashMap::(values|into_values)$')
def _hm_values(I, ctx, m):
    m0 = deref(m)
    return _ho(ctx, ListIt([ElemRef(m0.vals, i) for i in range(len(m0.vals))]) if isinstance(m, Ref) else ListIt(list(m0.vals)))
@model('re:^(std::collections::)?(Fnv)?HashMap::values_mut$')
def _hm_values_mut(I, ctx, m):
    m0 = deref(m); return _ho(ctx, ListIt([ElemRef(m0.vals, i) for i in range(len(m0.vals))]))
@model('re:^(std::collections::)?(Fnv)?HashMap::keys$')
def _hm_keys(I, ctx, m):
    m0 = deref(m); return _ho(ctx, ListIt([ElemRef(m0.keys, i) for i in range(len(m0.keys))]))
@model('re:^(std::collections::)?(Fnv)?HashMap::(iter|iter_mut)$')
def _hm_iter(I, ctx, m):
    m0 = deref(m); return _ho(ctx, ListIt([TUPLE(ElemRef(m0.keys, i), ElemRef(m0.vals, i)) for i in range(len(m0.keys))]))
@model('re:^(std::collections::)?(Fnv)?HashMap::entry$')
def _hm_entry(I, ctx, m, k):
    m0 = deref(m); i = m0.find(I, ctx, k)
    if i is None: return Agg('Entry', [Agg('VacantEntry', [m0, k])], 'Vacant', 1)
    return Agg('Entry', [Agg('OccupiedEntry', [m0, i])], 'Occupied', 0)
@model('re:^(std::collections::hash_map::)?OccupiedEntry::(get_mut|into_mut|get)$')
def _oe_get(I, ctx, e):
    e = deref(e); return ElemRef(e.fields[0].vals, e.fields[1])
@model('re:^(std::collections::hash_map::)?OccupiedEntry::insert$')
def _oe_insert(I, ctx, e, v):
    e = deref(e); old = e.fields[0].vals[e.fields[1]]; e.fields[0].vals[e.fields[1]] = v; return old
@model('re:^(std::collections::hash_map::)?OccupiedEntry::remove$')
def _oe_remove(I, ctx, e):
    e = deref(e); e.fields[0].keys.pop(e.fields[1]); return e.fields[0].vals.pop(e.fields[1])
@model('re:^(std::collections::hash_map::)?VacantEntry::insert$')
def _ve_insert(I, ctx, e, v):
    e = deref(e); m = e.fields[0]; m.keys.append(e.fields[1]); m.vals.append(v); return ElemRef(m.vals, len(m.vals) - 1)
@model('re:^(std::collections::hash_map::)?Entry::or_default$', 're:^(std::collections::hash_map::)?Entry::or_insert_with$',
       're:^(std::collections::hash_map::)?Entry::or_insert$')
def _entry_or(I, ctx, e, *rest):
    if e.variant == 'Occupied': return _oe_get(I, ctx, e.fields[0])
    key = ctx.cur_key
    if key.endswith('or_insert'): v = rest[0]
    elif key.endswith('or_insert_with'): v = I.call_value(ctx, ctx.cur_crate, rest[0], [])
    else:
        raw = ctx.cur_raw
        if 'HashSet' in raw: v = HSet()
        elif 'HashMap' in raw.split('Entry')[-1] or re.search(r'Entry::<[^,]*, *(Fnv)?HashMap', raw): v = HMap()
        elif 'Vec<' in raw: v = VecV([])
        else: raise Unsupported('or_default for ' + raw)
    return _ve_insert(I, ctx, e.fields[0], v)
@model('re:^(std::collections::)?(Fnv)?HashMap::retain$')
def _hm_retain(I, ctx, m, f):
    m0 = deref(m); nk, nv = [], []
    for i in range(len(m0.keys)):
        if ctx.branch(I.call_value(ctx, ctx.cur_crate, f, [ValRef(m0.keys[i]), ElemRef(m0.vals, i)])):
            nk.append(m0.keys[i]); nv.append(m0.vals[i])
    m0.keys[:] = nk; m0.vals[:] = nv
    return UNIT
@model('re:^(std::collections::)?(Fnv)?HashMap::drain$')
def _hm_drain(I, ctx, m):
    m0 = deref(m); out = [TUPLE(k, v) for k, v in zip(m0.keys, m0.vals)]
    m0.keys.clear(); m0.vals.clear(); return ListIt(out)

@model('re:^(std::collections::)?(Fnv)?HashSet::insert$')
def _hs_insert(I, ctx, s, k):
    s = deref(s)
    if s.find(I, ctx, k) is not None: return False
    s.items.append(k); return True
@model('re:^(std::collections::)?(Fnv)?HashSet::contains$')
def _hs_contains(I, ctx, s, k): return deref(s).find(I, ctx, deref(k)) is not None
@model('re:^(std::collections::)?(Fnv)?HashSet::remove$')
def _hs_remove(I, ctx, s, k):
    s = deref(s); i = s.find(I, ctx, deref(k))
    if i is None: return False
    s.items.pop(i); return True
@model('re:^(std::collections::)?(Fnv)?HashSet::len$')
def _hs_len(I, ctx, s): return BV(len(deref(s).items), 64)
@model('re:^(std::collections::)?(Fnv)?HashSet::is_empty$')
def _hs_is_empty(I, ctx, s): return len(deref(s).items) == 0
@model('re:^(std::collections::)?(Fnv)?HashSet::clear$')
def _hs_clear(I, ctx, s): deref(s).items.clear(); return UNIT
@model('re:^(std::collections::)?(Fnv)?HashSet::iter$')
def _hs_iter(I, ctx, s): return ListIt([ValRef(k) for k in deref(s).items])
@model('re:^(std::collections::)?(Fnv)?HashSet::drain$')
def _hs_drain(I, ctx, s):
    s = deref(s); out = list(s.items); s.items.clear(); return ListIt(out)
@model('re:^(std::collections::)?(Fnv)?HashSet::retain$')
def _hs_retain(I, ctx, s, f):
    s0 = deref(s); keep = []
    for k in s0.items:
        if ctx.branch(I.call_value(ctx, ctx.cur_crate, f, [ValRef(k)])): keep.append(k)
    s0.items[:] = keep; return UNIT
@model('re:^<(std::collections::)?(Fnv)?HashSet<.*> as Extend<.*>>::extend$')
def _hs_extend(I, ctx, s, it):
    it = to_iter(I, ctx, it)
    while True:
        o = it_next(I, ctx, it)
        if o.variant == 'None': return UNIT
        _hs_insert(I, ctx, s, deref(o.fields[0]) if isinstance(o.fields[0], Ref) and False else o.fields[0])


# ------------------------------------------------------------------ Vec / slices / String
@model('Vec::new', 're:^<Vec<.*> as Default>::default$', 'Vec::with_capacity')
def _vec_new(I, ctx, *a): return VecV([])
@model('Vec::is_empty')
def _(I, ctx, r): return seq_len(r) == 0
@model('Vec::len')
def _(I, ctx, r): return BV(seq_len(r), 64)
@model('Vec::push')
def _(I, ctx, r, v): deref(r).items.append(v); return UNIT
@model('Vec::pop')
def _(I, ctx, r):
    v = deref(r)
    return SOME(v.items.pop()) if v.items else NONE()
@model('Vec::clear')
def _(I, ctx, r): deref(r).items.clear(); return UNIT
@model('Vec::append')
def _(I, ctx, r, o):
    a, b = deref(r), deref(o); a.items.extend(b.items); b.items.clear(); return UNIT
@model('Vec::as_slice', 'Vec::as_mut_slice', 're:^<Vec<.*> as Deref(Mut)?>::deref(_mut)?$', 're:^<Vec<.*> as AsRef<.*>>::as_ref$',
       're:^<Vec<.*> as Borrow<.*>>::borrow$')
def _vec_as_slice(I, ctx, r): return ValRef(deref(r))
@model('re:^<(std::string::)?String as Deref>::deref$', 're:^(std::string::)?String::as_str$', 're:^<(std::string::)?String as AsRef<str>>::as_ref$')
def _(I, ctx, r): return ValRef(deref(r))
@model('re:^<impl Into<.*> as Into<.*>>::into$')
def _impl_into(I, ctx, v):
    m = re.match(r'^<impl Into<(.*)> as Into<.*>>::into$', ctx.cur_key)
    tgt = re.sub(r'<.*$', '', m.group(1)).split('::')[-1]
    a0 = deref1(v)
    if isinstance(a0, Agg) and a0.name != tgt and a0.name not in ('tuple',):
        key = f'<{m.group(1)} as From<{a0.name}>>::from'
        r = I.resolve_static(ctx.cur_crate, key)
        if r is not None and r[0] == 'fn': return I.call(ctx, ctx.cur_crate, key, [v])
    return v
@model('re:^<Vec<.*> as Into<Vec<.*>>>::into$', 're:^<(\\w+) as Into<\\1>>::into$',
       're:^<&?(\\[u8\\]|str) as Into<&?(\\[u8\\]|str)>>::into$', 're:^<(.+) as From<\\1>>::from$')
def _ident(I, ctx, v): return v
@model('re:^<Vec<.*> as Clone>::clone$', 're:^<(std::string::)?String as Clone>::clone$', 're:^<Box<.*> as Clone>::clone$')
def _clone(I, ctx, r): return clone_value(deref(r))
@model('re:^<(Rc|Arc|std::rc::Rc|std::sync::Arc)<.*> as Clone>::clone$')
def _arc_clone(I, ctx, r): return deref1(r)
@model('re:^(Rc|Arc|Box|std::rc::Rc|std::sync::Arc)::new$', 're:^<(Rc|Arc|Box)<.*> as From<.*>>::from$')
def _box_new(I, ctx, v): return v
@model('re:^<(Rc|Arc|Box|std::rc::Rc|std::sync::Arc)<.*> as (Deref|DerefMut|AsRef<.*>|AsMut<.*>|Borrow<.*>|BorrowMut<.*>)>::(deref|deref_mut|as_ref|as_mut|borrow|borrow_mut)$')
def _box_deref(I, ctx, r):
    return r if isinstance(deref1(r), Ref) is False and isinstance(r, Ref) else r
@model('re:^(?:(?:core|std|alloc)::)?slice::<impl \\[.*\\]>::get$', 're:^(?:(?:core|std|alloc)::)?slice::<impl \\[.*\\]>::get_mut$')
def _slice_get(I, ctx, r, idx):
    l, lo, hi = seq_view(r)
    n = hi - lo
    if isinstance(idx, Agg):
        try:
            lo2, hi2 = _range_bounds(ctx, idx, n, 'slice')
        except Panic:
            return NONE()
        return SOME(ValRef(SliceV(l, lo + lo2, lo + hi2)))
    if ctx.branch((idx.e < n) if idx.conc() else z3.ULT(idx.z(), n)):
        i = ctx.concretize(idx)
        return SOME(ElemRef(l, lo + i))
    return NONE()
@model('re:^(?:(?:core|std|alloc)::)?slice::<impl \\[.*\\]>::len$')
def _(I, ctx, r): return BV(seq_len(r), 64)
@model('re:^(?:(?:core|std|alloc)::)?slice::<impl \\[.*\\]>::is_empty$')
def _(I, ctx, r): return seq_len(r) == 0
@model('re:^(?:(?:core|std|alloc)::)?slice::<impl \\[.*\\]>::(first|first_mut)$')
def _(I, ctx, r):
    l, lo, hi = seq_view(r)
    return SOME(ElemRef(l, lo)) if hi > lo else NONE()
@model('re:^(?:(?:core|std|alloc)::)?slice::<impl \\[.*\\]>::(last|last_mut)$')
def _(I, ctx, r):
    l, lo, hi = seq_view(r)
    return SOME(ElemRef(l, hi - 1)) if hi > lo else NONE()
@model('re:^(?:(?:core|std|alloc)::)?slice::<impl \\[.*\\]>::(iter|iter_mut)$')
def _slice_iter(I, ctx, r):
    l, lo, hi = seq_view(r)
    return ListIt([ElemRef(l, k) for k in range(lo, hi)])
@model('re:^(?:(?:core|std|alloc)::)?slice::<impl \\[.*\\]>::to_vec$', 're:^<\\[.*\\] as ToOwned>::to_owned$', 're:^(?:(?:core|std|alloc)::)?slice::<impl \\[.*\\]>::into_vec$',
       're:^<Vec<.*> as From<&\\[.*\\]>>::from$', 're:^<Vec<.*> as From<\\[.*\\]>>::from$', 're:^<Vec<.*> as From<&\\[.*; \\d+\\]>>::from$')
def _to_vec(I, ctx, r): return VecV([copy_value(x) for x in seq_items(r)])
@model('re:^(?:(?:core|std|alloc)::)?slice::<impl \\[.*\\]>::contains$')
def _(I, ctx, r, x):
    x = deref(x)
    for y in seq_items(r):
        if ctx.branch(values_eq(I, ctx, x, y)): return True
    return False
@model('re:^(?:(?:core|std|alloc)::)?slice::<impl \\[.*\\]>::(starts_with)$')
def _(I, ctx, r, p):
    a, b = seq_items(r), seq_items(p)
    if len(b) > len(a): return False
    return ctx.branch(values_eq(I, ctx, a[:len(b)], b))
def bounded(ctx, v, n, msg):
    """concretise an index that must be <= n: the out-of-range side is one fork (a panic), not 2^64 values"""
    if isinstance(v, int): k = v
    elif v.conc(): k = v.e
    else:
        if ctx.branch(z3.UGT(v.z(), n)): raise Panic(msg)
        return ctx.concretize(v)
    if k > n: raise Panic(msg)
    return k


def _range_bounds(ctx, rng, n, what):
    rng = deref1(rng)
    nm = rng.name
    if nm in ('Range', 'RangeFrom', 'RangeTo'):
        for f in rng.fields:
            if isinstance(f, BV) and not f.conc():
                if ctx.branch(z3.UGT(f.z(), n)): raise Panic(f'range index out of range for {what} of length {n}')
    if nm == 'Range': lo, hi = ctx.concretize(rng.fields[0]), ctx.concretize(rng.fields[1])
    elif nm == 'RangeFrom': lo, hi = ctx.concretize(rng.fields[0]), n
    elif nm == 'RangeTo': lo, hi = 0, ctx.concretize(rng.fields[0])
    elif nm == 'RangeFull': lo, hi = 0, n
    elif nm == 'RangeInclusive':
        lo, hi = ctx.concretize(rng.fields[0]), ctx.concretize(rng.fields[1])
        if hi == (1 << 64) - 1: raise Panic('attempted to index slice up to maximum usize')
        hi += 1
    elif nm == 'RangeToInclusive': lo, hi = 0, ctx.concretize(rng.fields[0]) + 1
    else: raise Unsupported('range kind ' + nm)
    if lo > hi: raise Panic(f'slice index starts at {lo} but ends at {hi}')
    if hi > n: raise Panic(f'range end index {hi} out of range for {what} of length {n}')
    return lo, hi
@model('re:^<(\\[.*\\]|Vec<.*>) as (std::ops::)?Index(Mut)?<(std::ops::)?Range\\w*(<usize>)?>>::index(_mut)?$',
       're:^core::slice::index::<impl (std::ops::)?Index(Mut)?<(std::ops::)?Range\\w*(<usize>)?> for \\[.*\\]>::index(_mut)?$')
def _slice_index_range(I, ctx, r, rng):
    l, lo0, hi0 = seq_view(r)
    lo, hi = _range_bounds(ctx, rng, hi0 - lo0, 'slice')
    return ValRef(SliceV(l, lo0 + lo, lo0 + hi))
@model('re:^<(\\[.*\\]|Vec<.*>) as (std::ops::)?Index(Mut)?<usize>>::index(_mut)?$',
       're:^core::slice::index::<impl (std::ops::)?Index(Mut)?<usize> for \\[.*\\]>::index(_mut)?$')
def _slice_index(I, ctx, r, idx):
    l, lo, hi = seq_view(r)
    i = ctx.concretize(idx)
    if i >= hi - lo: raise Panic(f'index out of bounds: the len is {hi - lo} but the index is {i}')
    return ElemRef(l, lo + i)
@model('Vec::splice')
def _(I, ctx, r, rng, repl):
    v = deref(r)
    lo, hi = _range_bounds(ctx, rng, len(v.items), 'slice')
    it = to_iter(I, ctx, repl); new = []
    while True:
        o = it_next(I, ctx, it)
        if o.variant == 'None': break
        new.append(o.fields[0])
    removed = v.items[lo:hi]
    v.items[lo:hi] = new
    return ListIt(removed)
@model('Vec::drain')
def _(I, ctx, r, rng):
    v = deref(r)
    lo, hi = _range_bounds(ctx, rng, len(v.items), 'slice')
    removed = v.items[lo:hi]; del v.items[lo:hi]
    return ListIt(removed)
@model('Vec::truncate')
def _(I, ctx, r, n):
    v = deref(r); k = ctx.concretize(n)
    if k < len(v.items): del v.items[k:]
    return UNIT
@model('Vec::insert')
def _(I, ctx, r, i, x):
    v = deref(r); k = ctx.concretize(i)
    if k > len(v.items): raise Panic('insertion index out of bounds')
    v.items.insert(k, x); return UNIT
@model('Vec::remove')
def _(I, ctx, r, i):
    v = deref(r); k = ctx.concretize(i)
    if k >= len(v.items): raise Panic('removal index out of bounds')
    return v.items.pop(k)
@model('Vec::extend_from_slice')
def _(I, ctx, r, s): deref(r).items.extend(copy_value(x) for x in seq_items(s)); return UNIT
@model('re:^<Vec<.*> as Extend<.*>>::extend$')
def _(I, ctx, r, it):
    v = deref(r); it = to_iter(I, ctx, it)
    byref = bool(re.search(r'Extend<&', ctx.cur_raw))
    while True:
        o = it_next(I, ctx, it)
        if o.variant == 'None': return UNIT
        v.items.append(copy_value(deref(o.fields[0])) if byref else o.fields[0])
@model('re:^<.* as IntoIterator>::into_iter$')
def _into_iter(I, ctx, it):
    return to_iter(I, ctx, it)

# --- String / str / char
@model('re:^(std::string::)?String::new$', 're:^<(std::string::)?String as Default>::default$', 're:^(std::string::)?String::with_capacity$')
def _(I, ctx, *a): return StrV([])
@model('re:^(std::string::)?String::push$')
def _(I, ctx, r, c): deref(r).b.extend(utf8_encode(ctx, c)); return UNIT
@model('re:^(std::string::)?String::push_str$')
def _(I, ctx, r, s): deref(r).b.extend(list(str_bytes(s))); return UNIT
@model('re:^(std::string::)?String::len$', 'core::str::<impl str>::len')
def _(I, ctx, r): return BV(len(str_bytes(r)), 64)
@model('re:^(std::string::)?String::is_empty$', 'core::str::<impl str>::is_empty')
def _(I, ctx, r): return len(str_bytes(r)) == 0
@model('re:^(std::string::)?String::clear$')
def _(I, ctx, r): deref(r).b.clear(); return UNIT
@model('re:^(std::string::)?String::from_utf8_unchecked$')
def _(I, ctx, v): return StrV(list(seq_items(v)))
@model('std::str::from_utf8_unchecked', 'core::str::from_utf8_unchecked', 'from_utf8_unchecked', 'std::str::from_utf8_unchecked_mut')
def _(I, ctx, v):
    l, lo, hi = seq_view(v); return ValRef(SliceV(l, lo, hi, True))
@model('re:^<(std::string::)?String as From<&str>>::from$', 're:^<str as ToOwned>::to_owned$', 're:^<str as ToString>::to_string$',
       're:^core::str::<impl str>::to_owned$', 're:^<(std::string::)?String as From<&(std::string::)?String>>::from$', 're:^core::str::<impl str>::to_string$')
def _(I, ctx, s): return StrV(list(str_bytes(s)))
@model('core::str::<impl str>::chars')
def _(I, ctx, r): return CharsIt(list(str_bytes(r)))
@model('core::str::<impl str>::as_bytes', 're:^(std::string::)?String::as_bytes$')
def _(I, ctx, r):
    s = deref(r)
    if isinstance(s, StrV): return ValRef(SliceV(s.b, 0, len(s.b)))
    return ValRef(s)
@model('re:^(std::string::)?String::into_bytes$')
def _(I, ctx, s): return VecV(deref(s).b)
@model('char::methods::<impl char>::len_utf16')
def _(I, ctx, c): return BV(1 if ctx.branch(lt_const(ctx, c, 0x10000)) else 2, 64)
@model('char::methods::<impl char>::len_utf8')
def _(I, ctx, c): return BV(utf8_width(ctx, c), 64)
@model('core::str::<impl str>::ends_with')
def _(I, ctx, s, pat):
    b = str_bytes(s); pat = deref(pat)
    if isinstance(pat, BV):
        if not b: return False
        enc = utf8_encode(ctx, pat)
        if len(enc) > len(b): return False
        return ctx.branch(values_eq(I, ctx, b[len(b) - len(enc):], enc))
    pb = str_bytes(pat)
    if len(pb) > len(b): return False
    return ctx.branch(values_eq(I, ctx, b[len(b) - len(pb):], pb)) if pb else True
@model('core::str::<impl str>::starts_with')
def _(I, ctx, s, pat):
    b = str_bytes(s); pat = deref(pat)
    enc = utf8_encode(ctx, pat) if isinstance(pat, BV) else str_bytes(pat)
    if len(enc) > len(b): return False
    return ctx.branch(values_eq(I, ctx, b[:len(enc)], enc)) if enc else True
@model('core::str::<impl str>::strip_prefix')
def _(I, ctx, s, pat):
    b = str_bytes(s); pat = deref(pat)
    enc = utf8_encode(ctx, pat) if isinstance(pat, BV) else str_bytes(pat)
    if len(enc) > len(b): return NONE()
    if not enc or ctx.branch(values_eq(I, ctx, b[:len(enc)], enc)): return SOME(ValRef(StrV(b[len(enc):])))
    return NONE()
@model('core::str::<impl str>::strip_suffix')
def _(I, ctx, s, pat):
    b = str_bytes(s); pat = deref(pat)
    enc = utf8_encode(ctx, pat) if isinstance(pat, BV) else str_bytes(pat)
    if len(enc) > len(b): return NONE()
    if not enc or ctx.branch(values_eq(I, ctx, b[len(b) - len(enc):], enc)): return SOME(ValRef(StrV(b[:len(b) - len(enc)])))
    return NONE()
@model('core::str::<impl str>::replace', 'std::str::<impl str>::replace', 'alloc::str::<impl str>::replace')
def _(I, ctx, s, pat, to):
    pat = deref(pat); tob = str_bytes(to); out = []
    if not isinstance(pat, BV): raise Unsupported('str::replace with a non-char pattern')
    for c in decode_all(ctx, s):
        if ctx.branch(bv_eq(c, pat)): out.extend(tob)
        else: out.extend(utf8_encode(ctx, c))
    return StrV(out)
@model('core::str::<impl str>::trim_end')
def _(I, ctx, s):
    cs = decode_all(ctx, s)
    def is_ws(c):
        ws = [0x20, 0x85, 0xA0, 0x1680, 0x2028, 0x2029, 0x202F, 0x205F, 0x3000]
        cond = z3.Or([c.z() == w for w in ws] + [z3.And(z3.UGE(c.z(), 9), z3.ULE(c.z(), 13)), z3.And(z3.UGE(c.z(), 0x2000), z3.ULE(c.z(), 0x200A))])
        if c.conc(): return c.e in ws or 9 <= c.e <= 13 or 0x2000 <= c.e <= 0x200A
        return cond
    n = len(cs)
    while n > 0 and ctx.branch(is_ws(cs[n - 1])): n -= 1
    out = []
    for c in cs[:n]: out.extend(utf8_encode(ctx, c))
    return ValRef(StrV(out))

# --- Option / Result
@model('re:^(std::option::)?Option::unwrap_or$')
def _(I, ctx, o, d): return o.fields[0] if o.variant == 'Some' else d
@model('re:^(std::option::)?Option::unwrap_or_default$')
def _(I, ctx, o):
    if o.variant == 'Some': return o.fields[0]
    raw = ctx.cur_raw
    if 'Vec<' in raw: return VecV([])
    from .models2 import default_of
    m = re.search(r'Option::<(.*)>::unwrap_or_default$', raw)
    if m: return default_of(I, ctx, m.group(1))
    raise Unsupported('unwrap_or_default ' + raw)
@model('re:^(std::option::)?Option::unwrap$')
def _(I, ctx, o):
    if o.variant == 'Some': return o.fields[0]
    raise Panic('called `Option::unwrap()` on a `None` value')
@model('re:^(std::option::)?Option::expect$')
def _(I, ctx, o, msg):
    if o.variant == 'Some': return o.fields[0]
    raise Panic('Option::expect failed')
@model('re:^(std::result::)?Result::unwrap$', 're:^(std::result::)?Result::expect$')
def _(I, ctx, o, *a):
    if o.variant == 'Ok': return o.fields[0]
    raise Panic('called `Result::unwrap()` on an `Err` value')
@model('re:^(std::result::)?Result::ok$')
def _(I, ctx, o): return SOME(o.fields[0]) if o.variant == 'Ok' else NONE()
@model('re:^(std::result::)?Result::is_ok$')
def _(I, ctx, o): return deref(o).variant == 'Ok'
@model('re:^(std::result::)?Result::is_err$')
def _(I, ctx, o): return deref(o).variant == 'Err'
@model('re:^(std::option::)?Option::is_some$')
def _(I, ctx, o): return deref(o).variant == 'Some'
@model('re:^(std::option::)?Option::is_none$')
def _(I, ctx, o): return deref(o).variant == 'None'
@model('re:^(std::option::)?Option::(copied|cloned)$')
def _(I, ctx, o):
    return NONE() if o.variant == 'None' else SOME(clone_value(deref(o.fields[0])))
@model('re:^(std::option::)?Option::(as_ref|as_mut)$')
def _(I, ctx, o):
    o0 = deref(o)
    return NONE() if o0.variant == 'None' else SOME(FieldRef(o0, 0))
@model('re:^(std::option::)?Option::as_deref$')
def _(I, ctx, o):
    o0 = deref(o)
    return NONE() if o0.variant == 'None' else SOME(FieldRef(o0, 0))
@model('re:^(std::option::)?Option::take$')
def _(I, ctx, r):
    o = r.get(); r.set(NONE()); return o
@model('re:^(std::option::)?Option::map$')
def _(I, ctx, o, f):
    if o.variant == 'None': return NONE()
    return SOME(I.call_value(ctx, ctx.cur_crate, f, [o.fields[0]]))
@model('re:^(std::option::)?Option::and_then$')
def _(I, ctx, o, f):
    if o.variant == 'None': return NONE()
    return I.call_value(ctx, ctx.cur_crate, f, [o.fields[0]])
@model('re:^(std::option::)?Option::map_or$')
def _(I, ctx, o, d, f):
    if o.variant == 'None': return d
    return I.call_value(ctx, ctx.cur_crate, f, [o.fields[0]])
@model('re:^(std::option::)?Option::unwrap_or_else$')
def _(I, ctx, o, f):
    if o.variant == 'Some': return o.fields[0]
    return I.call_value(ctx, ctx.cur_crate, f, [])
@model('re:^(std::option::)?Option::(is_some_and)$')
def _(I, ctx, o, f):
    if o.variant == 'None': return False
    return I.call_value(ctx, ctx.cur_crate, f, [o.fields[0]])
@model('re:^(std::option::)?Option::(is_none_or)$')
def _(I, ctx, o, f):
    if o.variant == 'None': return True
    return I.call_value(ctx, ctx.cur_crate, f, [o.fields[0]])
@model('re:^(std::option::)?Option::ok_or$')
def _(I, ctx, o, e): return OK(o.fields[0]) if o.variant == 'Some' else ERR(e)
@model('re:^(std::result::)?Result::map_err$')
def _(I, ctx, o, f):
    if o.variant == 'Ok': return o
    return ERR(I.call_value(ctx, ctx.cur_crate, f, [o.fields[0]]))
@model('re:^(std::result::)?Result::map$')
def _(I, ctx, o, f):
    if o.variant == 'Err': return o
    return OK(I.call_value(ctx, ctx.cur_crate, f, [o.fields[0]]))
@model('re:^<(std::option::)?Option<.*> as PartialEq>::(eq|ne)$')
def _(I, ctx, a, b):
    r = values_eq(I, ctx, a, b)
    return b_not(r) if ctx.cur_key.endswith('::ne') else r
@model('re:^<(std::option::)?Option<.*> as (std::ops::)?Try>::branch$')
def _(I, ctx, o):
    if o.variant == 'Some': return Agg('ControlFlow', [o.fields[0]], 'Continue', 0)
    return Agg('ControlFlow', [NONE()], 'Break', 1)
@model('re:^<(std::option::)?Option<.*> as (std::ops::)?FromResidual<.*>>::from_residual$')
def _(I, ctx, r): return NONE()
@model('re:^<(std::result::)?Result<.*> as (std::ops::)?Try>::branch$')
def _(I, ctx, r):
    return Agg('ControlFlow', [r.fields[0]], 'Continue', 0) if r.variant == 'Ok' else Agg('ControlFlow', [r], 'Break', 1)
@model('re:^<(std::result::)?Result<.*> as (std::ops::)?FromResidual<.*>>::from_residual$')
def _(I, ctx, r):
    # Err(e) -> Err(From::from(e)); the conversions used by the encoded code are looked up in the crate
    e = r.fields[0]
    raw = ctx.cur_raw
    m = re.match(r'^<(?:std::result::)?Result<(.*)> as (?:std::ops::)?FromResidual<(?:std::result::)?Result<(?:std::convert::)?Infallible, (.*)>>>::from_residual$', raw)
    if m:
        from .util import split_top as st
        tgt = st(m.group(1))[-1]; src = m.group(2)
        if tgt != src:
            conv = I.resolve_static(ctx.cur_crate, I.norm_key(f'<{tgt} as From<{src}>>::from'))
            if conv is None: raise Unsupported(f'error conversion {src} -> {tgt}')
            e = I.call(ctx, ctx.cur_crate, I.norm_key(f'<{tgt} as From<{src}>>::from'), [e])
    return ERR(e)

# --- misc
@model('std::mem::replace', 'core::mem::replace')
def _(I, ctx, r, v):
    old = r.get(); r.set(v); return old
@model('std::mem::take', 'core::mem::take')
def _(I, ctx, r):
    old = r.get()
    if isinstance(old, VecV): r.set(VecV([]))
    elif isinstance(old, StrV): r.set(StrV([]))
    elif isinstance(old, HMap): r.set(HMap())
    elif isinstance(old, HSet): r.set(HSet())
    elif isinstance(old, Agg) and old.name == 'Option': r.set(NONE())
    else:
        m = re.match(r'^(?:std|core)::mem::take::<(.*)>$', ctx.cur_raw or '')
        key = I.norm_key(f'<{m.group(1)} as Default>::default') if m else None
        if key is None or I.resolve_static(ctx.cur_crate, key) is None: raise Unsupported('mem::take of ' + repr(old)[:60])
        r.set(I.call(ctx, ctx.cur_crate, key, []))
    return old
@model('std::mem::swap', 'core::mem::swap')
def _(I, ctx, a, b):
    x, y = a.get(), b.get(); a.set(y); b.set(x); return UNIT
@model('re:^(std|core)::mem::drop$', 're:^(std|core)::mem::forget$')
def _(I, ctx, v): return UNIT
def _agg_minmax(I, ctx, a, b, want_max):
    o = I.call(ctx, ctx.cur_crate, f'<{a.name} as Ord>::cmp', [ValRef(a), ValRef(b)])
    if want_max: return a if o.variant == 'Greater' else b       # Ord::max returns the second argument when equal
    return b if o.variant == 'Greater' else a


@model('std::cmp::min', 'core::cmp::min', 're:^<usize as Ord>::min$', 're:^std::cmp::Ord::min$')
def _(I, ctx, a, b):
    if isinstance(a, Agg): return _agg_minmax(I, ctx, a, b, False)
    if a.conc() and b.conc(): return a if (a.sval() if a.signed else a.e) <= (b.sval() if b.signed else b.e) else b
    lt = (b.z() < a.z()) if a.signed else z3.ULT(b.z(), a.z())
    return b if ctx.branch(lt) else a
@model('std::cmp::max', 'core::cmp::max', 're:^<usize as Ord>::max$', 're:^std::cmp::Ord::max$')
def _(I, ctx, a, b):
    if isinstance(a, Agg): return _agg_minmax(I, ctx, a, b, True)
    if a.conc() and b.conc(): return b if (b.sval() if b.signed else b.e) >= (a.sval() if a.signed else a.e) else a
    lt = (b.z() < a.z()) if a.signed else z3.ULT(b.z(), a.z())
    return a if ctx.branch(lt) else b
@model('re:^(?:core|std)::num::<impl (usize|u32|u64|u8)>::saturating_sub$')
def _(I, ctx, a, b):
    if a.conc() and b.conc(): return BV(max(0, a.e - b.e), a.bits)
    return BV(z3.If(z3.ULT(a.z(), b.z()), z3.BitVecVal(0, a.bits), a.z() - b.z()), a.bits)
@model('re:^(?:core|std)::num::<impl (usize|u32|u64|u8|i32|i64)>::checked_(add|sub|mul)$')
def _(I, ctx, a, b):
    op = {'add': 'AddWithOverflow', 'sub': 'SubWithOverflow', 'mul': 'MulWithOverflow'}[ctx.cur_key.rsplit('_', 1)[1]]
    r = I.binop(ctx, op, a, b)
    return NONE() if ctx.branch(r.fields[1]) else SOME(r.fields[0])
@model('re:^(?:core|std)::num::<impl (usize|u32|u64|u8|i32|i64)>::wrapping_(add|sub|mul)$')
def _(I, ctx, a, b):
    op = {'add': 'Add', 'sub': 'Sub', 'mul': 'Mul'}[ctx.cur_key.rsplit('_', 1)[1]]
    return I.binop(ctx, op, a, b)
@model('re:^(?:core|std)::num::<impl (u64|u32|usize)>::checked_pow$')
def _(I, ctx, a, e):
    n = ctx.concretize(e)
    acc = BV(1, a.bits)
    for _ in range(n):
        r = I.binop(ctx, 'MulWithOverflow', acc, a)
        if ctx.branch(r.fields[1]): return NONE()
        acc = r.fields[0]
    return SOME(acc)
@model('re:^(std::ops::)?RangeInclusive::new$')
def _(I, ctx, a, b): return Agg('RangeInclusive', [a, b, False])
@model('re:^(std::ops::)?RangeInclusive::contains$', 're:^(std::ops::)?RangeInclusive::<.*>::contains$')
def _(I, ctx, r, x):
    r = deref(r); x = deref(x); a, b = r.fields[0], r.fields[1]
    return b_and(I.binop(ctx, 'Le', a, x), I.binop(ctx, 'Le', x, b))
@model('re:^(std::ops::)?Range::contains$')
def _(I, ctx, r, x):
    r = deref(r); x = deref(x); a, b = r.fields[0], r.fields[1]
    return b_and(I.binop(ctx, 'Le', a, x), I.binop(ctx, 'Lt', x, b))
@model('re:^<.* as (std::iter::)?Iterator>::next$')
def _(I, ctx, r): return it_next(I, ctx, r)
@model('re:^<.* as (std::iter::)?DoubleEndedIterator>::next_back$')
def _(I, ctx, r): return it_next_back(I, ctx, r)
@model('re:^<.* as (std::iter::)?Iterator>::peekable$')
def _(I, ctx, it): return Peek(to_iter(I, ctx, it))
@model('re:^(std::iter::)?Peekable::peek$')
def _(I, ctx, r):
    p = deref(r)
    if p.peeked is None: p.peeked = it_next(I, ctx, p.it)
    o = p.peeked
    if o.variant == 'None': return NONE()
    return SOME(FieldRef(o, 0))
@model('re:^<.* as (std::iter::)?Iterator>::enumerate$')
def _(I, ctx, it): return EnumIt(to_iter(I, ctx, it))
@model('re:^<.* as (std::iter::)?Iterator>::rev$')
def _(I, ctx, it): return RevIt(to_iter(I, ctx, it))
@model('re:^<.* as (std::iter::)?Iterator>::map$')
def _(I, ctx, it, f): return MapIt(to_iter(I, ctx, it), f)
@model('re:^<.* as (std::iter::)?Iterator>::chain$')
def _(I, ctx, a, b): return ChainIt(to_iter(I, ctx, a), to_iter(I, ctx, b))
@model('re:^<.* as (std::iter::)?Iterator>::(copied|cloned)$')
def _(I, ctx, it):
    it = to_iter(I, ctx, it)
    class _C: pass
    return MapIt(it, Agg('fnitem:__deref_clone', []))
@model('__deref_clone')
def _(I, ctx, v): return clone_value(deref(v))
@model('re:^<.* as (std::iter::)?Iterator>::fold$')
def _(I, ctx, it, init, f):
    acc = init; it = to_iter(I, ctx, it)
    while True:
        o = it_next(I, ctx, it)
        if o.variant == 'None': return acc
        acc = I.call_value(ctx, ctx.cur_crate, f, [acc, o.fields[0]])
@model('re:^<.* as (std::iter::)?Iterator>::count$')
def _(I, ctx, it):
    n = 0; it = to_iter(I, ctx, it)
    while it_next(I, ctx, it).variant == 'Some': n += 1
    return BV(n, 64)
@model('re:^<.* as (std::iter::)?Iterator>::last$')
def _(I, ctx, it):
    last = NONE(); it = to_iter(I, ctx, it)
    while True:
        o = it_next(I, ctx, it)
        if o.variant == 'None': return last
        last = o
@model('re:^<.* as (std::iter::)?Iterator>::(any|all)$')
def _(I, ctx, it, f):
    is_any = ctx.cur_key.endswith('::any'); it0 = to_iter(I, ctx, it)
    while True:
        o = it_next(I, ctx, it0)
        if o.variant == 'None': return not is_any
        if ctx.branch(I.call_value(ctx, ctx.cur_crate, f, [o.fields[0]])) == is_any: return is_any
@model('re:^<.* as (std::iter::)?Iterator>::sum$')
def _(I, ctx, it):
    it0 = to_iter(I, ctx, it); acc = None
    while True:
        o = it_next(I, ctx, it0)
        if o.variant == 'None': break
        acc = o.fields[0] if acc is None else I.binop(ctx, 'Add', acc, o.fields[0])
    return acc if acc is not None else BV(0, 64)
@model('re:^<.* as (std::iter::)?Iterator>::collect$')
def _(I, ctx, it):
    raw = ctx.cur_raw; it0 = to_iter(I, ctx, it); out = []
    while True:
        o = it_next(I, ctx, it0)
        if o.variant == 'None': break
        out.append(o.fields[0])
    tgt = raw[raw.rindex('collect::<') + 10:-1] if 'collect::<' in raw else ''
    if tgt.startswith(('Vec<', 'std::vec::Vec<', 'VecDeque<', 'std::collections::VecDeque<')): return VecV(out)
    if tgt.startswith(('String', 'std::string::String')):
        b = []
        for c in out: b.extend(utf8_encode(ctx, deref(c)))
        return StrV(b)
    if 'HashSet' in tgt:
        s = HSet()
        for x in out: _hs_insert(I, ctx, ValRef(s), x)
        return s
    if tgt.startswith('Box<['): return VecV(out)
    if re.match(r'^(std::collections::)?(Fnv)?HashMap<', tgt):
        m = HMap()
        for kv in out: _hm_insert(I, ctx, ValRef(m), kv.fields[0], kv.fields[1])
        return m
    raise Unsupported('collect into ' + tgt)
@model('re:^<.* as (std::io::)?Write>::write_all$')
def _(I, ctx, w, buf):
    sink = deref(w)
    items = seq_items(buf)
    if isinstance(sink, VecV): sink.items.extend(items)
    elif isinstance(sink, list): sink.extend(items)
    else: raise Unsupported('write_all sink ' + repr(sink)[:40])
    return OK(UNIT)
@model('panic_fmt', 'panic', 'panic_explicit', 're:^core::panicking::(panic|panic_fmt|panic_explicit|unreachable_display|panic_nounwind)$', 're:^std::rt::(begin_panic|panic_fmt)$',
       're:^core::panicking::assert_failed$', 're:^core::option::(unwrap_failed|expect_failed)$', 're:^core::result::unwrap_failed$',
       're:^core::panicking::panic_bounds_check$', 're:^core::slice::index::.*_fail$', 're:^core::str::slice_error_fail$')
def _(I, ctx, *a):
    msg = ''
    if a and isinstance(deref(a[0]), StrV):
        b = deref(a[0]).b
        if all(x.conc() for x in b): msg = bytes(x.e for x in b).decode('utf-8', 'replace')
    raise Panic('panic: ' + (msg or ctx.cur_key))
@model('re:^core::intrinsics::(cold_path|assume|assert_inhabited)$', 're:^std::hint::(assert_unchecked|black_box)$', 're:^core::hint::assert_unchecked$',
       're:^core::ub_checks::.*$', 're:^std::intrinsics::(cold_path|assume)$')
def _(I, ctx, *a): return UNIT
@model('re:^(std::boxed::)?Box::<?.*>?::new_uninit$', 'Box::new_uninit', 'std::boxed::Box::new_uninit')
def _(I, ctx): return UninitBox()
@model('std::boxed::box_assume_init_into_vec_unsafe', 'alloc::boxed::box_assume_init_into_vec_unsafe')
def _(I, ctx, b): return VecV(list(deref(b).arr))
@model('re:^<.* as (std::convert::)?AsRef<\\[u8\\]>>::as_ref$')
def _(I, ctx, r):
    v = deref(r)
    if isinstance(v, StrV): return ValRef(SliceV(v.b, 0, len(v.b)))
    return ValRef(v)
@model('re:^<.* as (std::borrow::)?ToOwned>::to_owned$')
def _(I, ctx, r): return clone_value(deref(r))
@model('re:^<(u8|u16|u32|u64|u128|usize|i8|i16|i32|i64|i128|isize|char|bool) as Clone>::clone$')
def _(I, ctx, r): return deref(r)
@model('re:^<(u8|u16|u32|u64|u128|usize|i8|i16|i32|i64|i128|isize|char|bool) as PartialEq>::(eq|ne)$')
def _(I, ctx, a, b):
    r = values_eq(I, ctx, a, b); return b_not(r) if ctx.cur_key.endswith('ne') else r
@model('re:^<(u8|u16|u32|u64|u128|usize|i8|i16|i32|i64|i128|isize|char) as (Partial)?Ord>::(partial_)?cmp$')
def _(I, ctx, a, b):
    r = I.binop(ctx, 'Cmp', deref(a), deref(b))
    return SOME(r) if 'partial_cmp' in ctx.cur_key else r
@model('re:^([\\w:]+::)?(RefCell|Cell|RwLock|Mutex)::new$')
def _(I, ctx, v): return Agg('CellLike', [v])
@model('re:^(std::cell::)?RefCell::(borrow|borrow_mut)$', 're:^(?!std::sync::)([\\w:]+::)?(RwLock|Mutex)::(read|write|lock|upgradable_read)$')
def _(I, ctx, r): return FieldRef(deref(r), 0)
@model('re:^std::sync::(RwLock|Mutex)::(read|write|lock)$')
def _(I, ctx, r): return OK(FieldRef(deref(r), 0))
@model('re:^(std::sync::)?LazyLock::new$', 're:^(std::sync::)?OnceLock::new$', 're:^(std::cell::)?(LazyCell|OnceCell)::new$')
def _(I, ctx, *f): return Agg('Lazy', [f[0] if f else None, None])
@model('re:^<(std::sync::)?LazyLock<.*> as Deref>::deref$', 're:^(std::sync::)?LazyLock::force$', 're:^<(std::cell::)?LazyCell<.*> as Deref>::deref$')
def _(I, ctx, r):
    l = deref(r)
    if l.fields[1] is None: l.fields[1] = ValRef(I.call_value(ctx, ctx.cur_crate, l.fields[0], []))
    return l.fields[1]
@model('re:^<(std::cell::)?(Ref|RefMut)<.*> as Deref(Mut)?>::deref(_mut)?$', 're:^<([\\w:]+::)?(RwLockReadGuard|RwLockWriteGuard|MutexGuard|RwLockUpgradableReadGuard|MappedRwLockReadGuard)<.*> as Deref(Mut)?>::deref(_mut)?$')
def _(I, ctx, r): return deref1(r)
@model('re:^(std::cell::)?Cell::get$')
def _(I, ctx, r): return copy_value(deref(r).fields[0])
@model('re:^(std::cell::)?Cell::set$')
def _(I, ctx, r, v): deref(r).fields[0] = v; return UNIT
@model('re:^(std::cell::)?Cell::replace$')
def _(I, ctx, r, v):
    c = deref(r); old = c.fields[0]; c.fields[0] = v; return old


def install(I):
    I.add_models(M)


@model('re:^<.* as (std::ops::)?(Fn|FnMut|FnOnce)<.*>>::(call|call_mut|call_once)$')
def _fn_call(I, ctx, f, args):
    return I.call_value(ctx, ctx.cur_crate, f, list(args.fields) if isinstance(args, Agg) else [])
