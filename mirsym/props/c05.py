"""C05  Valid programs produce no error diagnostics.

Real code (MIR): parser + analyser (Project::analyse, std analysed by the real code) on the valid designs of `designs.py` and on every
composition (quick: up to 2, thorough: every subset) of validity-preserving rewrites listed per design: `use p.all` -> item-wise use
clauses, simple -> selected name, positional <-> named association (calls, port and generic maps), reordering two independent
declarations, wrapping a statement in a block, adding an unused declaration whose name ends in a symbolic letter/digit (any value for
which the name is new).  Oracle: no error-severity diagnostic.  That the bundled std library itself analyses without any diagnostic
is asserted when the kit is built (every run of every analyser-level check).
"""
from .queries import *
from .c06 import WARNING_CODES, known_identifiers

USE_ITEMS = ("use lib1.types_pkg.color_t;\nuse lib1.types_pkg.red;\nuse lib1.types_pkg.green;\nuse lib1.types_pkg.blue;\nuse lib1.types_pkg.point_t;\n"
             "use lib1.types_pkg.vec_t;\nuse lib1.types_pkg.origin;\nuse lib1.types_pkg.add;\nuse lib1.types_pkg.\"+\";\nuse lib1.types_pkg.swap;")
# design -> (file to rewrite, [(rewrite class, find, replace)])
FAMILY = [
    (DS.D_RECORDS, 'shape.vhd', [
        ('use p.all -> item-wise use clauses', 'use lib1.types_pkg.all;', USE_ITEMS),
        ('simple -> selected name', 'signal p, q : point_t := origin;', 'signal p, q : point_t := lib1.types_pkg.origin;'),
        ('positional -> named association (function call)', 'constant k : integer := add(1, 2);', 'constant k : integer := add(a => 1, b => 2);'),
        ('positional -> named association (procedure call)', 'swap(v);', 'swap(p => v);'),
        ('reorder independent declarations', '  signal acc : vec_t(0 to n - 1);\n  constant k : integer := add(1, 2);\n', '  constant k : integer := add(1, 2);\n  signal acc : vec_t(0 to n - 1);\n'),
        ('add an unused declaration', 'begin\n  main : process (clk)', '  signal spare_§ : bit;\nbegin\n  main : process (clk)'),
    ]),
    (DS.D_TREE, 'tree.vhd', [
        ('named -> positional association (port map)', 'port map (a => x, y => t);', 'port map (x, t);'),
        ('named -> positional association (generic map)', 'generic map (w => 4)', 'generic map (4)'),
        ('named -> positional association (component instance)', 'u : leaf generic map (w => 2) port map (a => x(2 * i + 1 downto 2 * i), y => z(i));', 'u : leaf generic map (2) port map (x(2 * i + 1 downto 2 * i), z(i));'),
        ('wrap a statement in a block', '  y <= a(0);\n', '  wrap : block\n  begin\n    y <= a(0);\n  end block;\n'),
        ('add an unused declaration', '  signal t : bit;\nbegin', '  signal t : bit;\n  constant spare_§ : natural := 0;\nbegin'),
        ('reorder independent declarations', '    generic (w : positive := 1);\n    port (a : in bit_vector(w - 1 downto 0); y : out bit);\n  end component;\n  signal t : bit;\n',
         '    generic (w : positive := 1);\n    port (a : in bit_vector(w - 1 downto 0); y : out bit);\n  end component;\n  signal t : bit;\n  signal t2 : bit;\n'),
    ]),
    (DS.D_GENERIC, 'generic.vhd', [
        ('use p.all -> item-wise use clauses', 'use work.counter_pkg.all;', 'use work.counter_pkg.counter_t;\nuse work.counter_pkg.tiny_t;\nuse work.counter_pkg.limit;'),
        ('reorder independent declarations', '  signal s : tiny_t := limit;\n  constant data : arr_t := (1, 2, 3);\n', '  constant data : arr_t := (1, 2, 3);\n  signal s : tiny_t := limit;\n'),
        ('positional -> named association (function call)', 'f := first(data) + c.get;', 'f := first(a => data) + c.get;'),
        ('simple -> selected name', 'signal s : tiny_t := limit;', 'signal s : tiny_t := work.counter_pkg.limit;'),
        ('add an unused declaration', '    variable f : integer;\n', '    variable f : integer;\n    variable spare_§ : integer;\n'),
    ]),
    (DS.D_COMB, 'comb.vhd', [
        ('reorder independent declarations', '  signal m, spare : bit;\n  constant zero : natural := 0;\n', '  constant zero : natural := 0;\n  signal m, spare : bit;\n'),
        ('positional -> named association (function call)', 'y <= inv(m) or a or d(0);', 'y <= inv(x => m) or a or d(0);'),
        ('wrap a statement in a block', '  p3 : process (all)\n  begin\n    z <= c;\n  end process;\n', '  wrap : block\n  begin\n    p3 : process (all)\n    begin\n      z <= c;\n    end process;\n  end block;\n'),
        ('add an unused declaration', '  constant zero : natural := 0;\n', '  constant zero : natural := 0;\n  type spare_§ is (one, two);\n'),
    ]),
    (DS.D_USE, 'use_in_decl.vhd', [
        ('use p.all -> item-wise use clause inside the declarative part', 'use work.enum_pkg.all;\n\npackage user_pkg is\n  constant c0 : boolean := 1 = 2;\n',
         'package user_pkg is\n  constant c0 : boolean := 1 = 2;\n  use work.enum_pkg.color_t;\n'),
        ('add an unused declaration', '  constant c1 : boolean := red = green;\n', '  constant c1 : boolean := red = green;\n  constant spare_§ : boolean := false;\n'),
    ]),
    (DS.D_OVER, 'overload.vhd', [
        ('reorder independent declarations', "  function f (a : bit) return integer is\n  begin\n    if a = '1' then\n      return f('0');\n    end if;\n    return 0;\n  end function;\n  function f (a : integer) return integer is\n  begin\n    return a;\n  end function;\n  constant c : integer := f(1);\n",
         "  function f (a : integer) return integer is\n  begin\n    return a;\n  end function;\n  constant c : integer := f(1);\n  function f (a : bit) return integer is\n  begin\n    if a = '1' then\n      return f('0');\n    end if;\n    return 0;\n  end function;\n"),
        ('positional -> named association (function call)', "signal s : integer := f('1') + c;", "signal s : integer := f(a => '1') + c;"),
        ('add an unused declaration', 'begin\nend architecture;', '  signal spare_§ : bit;\nbegin\nend architecture;'),
    ]),
    (DS.D_NEST, 'nested.vhd', [
        ('wrap a statement in a block', "  main : process (c)\n    type mode_t is (idle, busy);\n    variable m : mode_t;\n  begin\n    if c = green and m = idle then\n      y <= init.flag;\n    else\n      y <= zero.flag;\n    end if;\n  end process;\n",
         "  wrap : block\n  begin\n    main : process (c)\n      type mode_t is (idle, busy);\n      variable m : mode_t;\n    begin\n      if c = green and m = idle then\n        y <= init.flag;\n      else\n        y <= zero.flag;\n      end if;\n    end process;\n  end block;\n"),
        ('reorder independent declarations', "  signal c : color_t;\n  signal y : bit;\n", "  signal y : bit;\n  signal c : color_t;\n"),
        ('add an unused declaration', "  signal y : bit;\n", "  signal y : bit;\n  type spare_§ is (only);\n"),
    ]),
    (DS.D_ZOO, 'zoo.vhd', [
        ('positional -> named association (function call through an alias)', 'flag <= choose(mat, copy - 1, 0) after 1 ns;', 'flag <= choose(m => mat, r => copy - 1, c => 0) after 1 ns;'),
        ('positional -> named association (procedure call)', 'bump(count, ok);', 'bump(n => count, done => ok);'),
        ('reorder independent declarations', '  signal lvl : level_t := low;\n  signal span : dist_t := 2 cm;\n', '  signal span : dist_t := 2 cm;\n  signal lvl : level_t := low;\n'),
        ('simple -> selected name', 'signal lvl : level_t := low;', 'signal lvl : work.zoo_pkg.level_t := work.zoo_pkg.low;'),
        ('wrap a statement in a block', '  flag <= choose(mat, copy - 1, 0) after 1 ns;\n', '  wrap : block\n  begin\n    flag <= choose(mat, copy - 1, 0) after 1 ns;\n  end block;\n'),
        ('add an unused declaration', '  file log : text_file;\n', '  file log : text_file;\n  subtype spare_§ is natural range 0 to 1;\n'),
    ]),
]


def compatible(rws, chosen):
    """two rewrites of one design may touch the same text; such pairs are applied in list order only if the second still finds its anchor"""
    return True


class Rewritten(DesignPart):
    def __init__(self, name, max_rewrites, required=(), time_cap=None):
        self.name, self.max = name, max_rewrites
        self.designs = [f[0] for f in FAMILY]
        self.required_classes = required; self.time_cap = time_cap
        self.words = known_identifiers()
        self.bounds = dict(designs=[f[0]['name'] for f in FAMILY], rewrites={f[0]['name'][:40]: [r[0] for r in f[2]] for f in FAMILY},
                           compositions=f'every subset of the rewrites of a design with at most {max_rewrites} members (those whose anchors survive the earlier members)',
                           symbolic='the added unused declaration is named spare_§ with § any letter or digit')

    def bases(self, chk): return None

    def build(self, ctx, inp):
        di = choose(ctx, inp, 'design', len(FAMILY)); D, fn, rws = FAMILY[di]
        text = dict((f, t) for _, f, t in D['files'])[fn]
        applied = []
        for k, (cls, find, repl) in enumerate(rws):
            if len(applied) >= self.max: break
            if not ctx.branch(inp.bool(f'r{k}')): continue
            if text.count(find) != 1: raise Infeasible()          # anchor consumed by an earlier rewrite: not a member
            text = text.replace(find, repl); applied.append(cls)
        chars = []
        for ch in text:
            if ch == '§':
                c = inp.bv('char', 32)
                if inp.symbolic: ctx.assume(z3.Or(z3.And(z3.UGE(c.e, 97), z3.ULE(c.e, 122)), z3.And(z3.UGE(c.e, 65), z3.ULE(c.e, 90)), z3.And(z3.UGE(c.e, 48), z3.ULE(c.e, 57))))
                chars.append(c)
            else: chars.append(BV(ord(ch), 32))
        return D, fn, chars, applied, text

    def run(self, chk, ctx, inp, verify=True):
        kit = chk.pkit
        D, fn, chars, applied, text = self.build(ctx, inp)
        pr = kit.new_project(ctx, copy=not inp.symbolic)
        try:
            for lib, f, t in D['files']:
                pr.set_text(ctx, '/p/' + f, chars if f == fn else [BV(ord(c), 32) for c in t]); pr.map_file(ctx, '/p/' + f, lib); pr.update(ctx, '/p/' + f)
            dobs = [kit.diag_obs(d) for d in pr.analyse(ctx)]
        except Panic as p:
            ctx.model(); raise Violation('analysis of a valid program panics: ' + str(p), 'panic')
        if not verify: return [obs_show(d)[:3] for d in dobs]
        errors = [obs_show(d)[:3] for d in dobs if d[1] not in WARNING_CODES]
        ctx.obligations += 1
        if errors:
            ctx.model(); raise Violation(f'valid design "{D["name"][:50]}" with the rewrites {applied} gets error diagnostics: {errors[:4]}', 'false-error')
        ctx.cover('compared')
        if applied: ctx.cover('rewritten')
        if len(applied) >= 2: ctx.cover('composition of rewrites')
        if not applied: ctx.cover('original design')
        return None

    def harness(self, chk):
        def h(ctx):
            ctx.step_limit = max(ctx.step_limit, 60_000_000)
            self.run(chk, ctx, SymInputs(ctx))
        return h

    def text_of(self, w):
        D, fn, rws = FAMILY[w.get('design', 0) % len(FAMILY)]
        text = dict((f, t) for _, f, t in D['files'])[fn]; n = 0
        for k, (cls, find, repl) in enumerate(rws):
            if n >= self.max: break
            if not w.get(f'r{k}', False): continue
            if text.count(find) != 1: return None
            text = text.replace(find, repl); n += 1
        return D, fn, text.replace('§', chr(w.get('char', 122)))

    def case_of(self, w):
        r = self.text_of(w)
        if r is None: return None
        D, fn, text = r
        D2 = dict(name='rewritten', files=[(lib, f, text if f == fn else t) for lib, f, t in D['files']])
        return self.native_case(D2, {})

    def replay_case(self, chk, w, v):
        case = self.case_of(w)
        if case is None: return 'not a member of the family'
        for rel in (False, True):
            out = chk.native.run('analyse', [case], release=rel)[0]
            if 'panic' in out: return True
            if 'diagnostics' not in out: return f'native replay failed: {out}'
            if any(d[1] not in WARNING_CODES for d in out['diagnostics']): return True
        return False

    def translator_validation(self, chk):
        rng = chk.rng; cases = []
        for di in range(len(FAMILY)):
            w = {'design': di, 'char': ord(rng.choice('zq7Z'))}
            for k in rng.sample(range(len(FAMILY[di][2])), 2): w[f'r{k}'] = True
            if self.case_of(w) is not None: cases.append(w)
        outs = chk.native.run('analyse', [self.case_of(w) for w in cases])
        bad = []
        for w, out in zip(cases, outs):
            ctx = Ctx(); ctx.step_limit = 10 ** 9
            try: mine = sorted([list(d[0]), d[1], d[2]] for d in self.run(chk, ctx, ConcInputs(ctx, w), verify=False))
            except Infeasible: continue
            theirs = sorted([['/p/' + d[0][0].rsplit('/', 1)[-1]] + d[0][1:], d[1], d[2]] for d in out['diagnostics']) if 'diagnostics' in out else out
            if json.loads(json.dumps(mine)) != json.loads(json.dumps(theirs)): bad.append({'case': w, 'interpreter': mine, 'native': theirs})
        return len(cases), bad


class C05(Check):
    prop = 'C05'
    crates = (L,)

    def parts(self):
        if hasattr(self, '_parts'): return self._parts
        if not hasattr(self, 'll'): self.ll = LangLex(self)
        if not hasattr(self, 'pkit'): self.pkit = ProjectKit(self, log=self.log)
        ps = [Rewritten('valid designs and compositions of validity-preserving rewrites', 2 if self.tier == 'quick' else 6,
                        required=('compared', 'rewritten', 'composition of rewrites', 'original design'))]
        self._parts = ps
        return ps

    def assumptions(self):
        return ['the family: five hand-written valid designs (std only) and the listed rewrites at the listed places; a generator of type-correct programs was not built, and ieee is covered only by C13 thorough (std_logic_1164 analyses without diagnostics there)',
                'error severity = every error code except the five the default severity map makes warnings and the `Related` hint',
                'bundled std library analysed by the real code without any diagnostic (asserted when the kit is built); FnvHashMap modelled insertion ordered; rayon sequential']


if __name__ == '__main__':
    run_check(C05)
