"""C16  Semantic tokens are well-formed encodings  --  kernel: the delta encoder and the ordering it relies on.

Real code (MIR): vhdl_ls semantic_tokens::encode, vhdl_lang Range::overlaps_lines, <SrcPos as Ord>::cmp, derived Ord of Position.
For every array of N tokens sorted the way map_and_sort sorts them (by SrcPos, i.e. by start position) with well-ordered ranges
and every optional filter range: no arithmetic overflow / panic; decoding the deltas gives back exactly the single-line tokens
that touch the filter lines, in order, with their type and modifiers; decoded starts are non-decreasing.
Classification, reference collection and document symbols need the analyser and are outside.
"""
import z3
from ..util import Panic, Unsupported
from ..values import *
from ..interp import Violation, Ctx
from .common import Check, Part, SymInputs, ConcInputs, run_check

LS, L = 'vhdl_ls', 'vhdl_lang'


def pos_lt(a, b):   # (line, char) lexicographic on BV pairs
    return b_or(bv_ult(a[0], b[0]), b_and(bv_eq(a[0], b[0]), bv_ult(a[1], b[1])))


def pos_le(a, b): return b_not(pos_lt(b, a))


class Encode(Part):
    vcap = 6

    def __init__(self, name, N, required=()):
        self.name, self.N = name, N
        self.required_classes = required
        self.bounds = dict(tokens=N, fields='start/end line/character, type, modifiers: unconstrained u32', filter='absent or an arbitrary range (4 x u32)',
                           precondition='tokens sorted by start position (what sort_by(SrcPos::cmp) establishes), start <= end in each range')

    def run(self, chk, ctx, inp, verify=True):
        I = chk.I
        toks = []
        for i in range(self.N):
            f = {k: inp.bv(f't{i}{k}', 32) for k in ('sl', 'sc', 'el', 'ec', 'ty', 'mo')}
            if inp.symbolic:
                ctx.assume(b_z(pos_le((f['sl'], f['sc']), (f['el'], f['ec']))))
                if toks: ctx.assume(b_z(pos_le((toks[-1]['sl'], toks[-1]['sc']), (f['sl'], f['sc']))))
            toks.append(f)
        use_filter = ctx.branch(inp.bool('filter'))
        flt = None
        if use_filter:
            flt = {k: inp.bv(f'f{k}', 32) for k in ('sl', 'sc', 'el', 'ec')}
            if inp.symbolic: ctx.assume(b_z(pos_le((flt['sl'], flt['sc']), (flt['el'], flt['ec']))))
        def rng(f): return Agg('Range', [Agg('Position', [f['sl'], f['sc']]), Agg('Position', [f['el'], f['ec']])])
        cached = [Agg('CachedToken', [rng(f), f['ty'], f['mo']]) for f in toks]
        arg2 = SOME(ValRef(rng(flt))) if flt else NONE()
        try:
            out = I.call(ctx, LS, 'encode', [ValRef(VecV(cached)), arg2])
        except Panic as p:
            ctx.model()
            raise Violation('encode panics (arithmetic overflow / underflow): ' + str(p), 'panic')
        res = seq_items(out)
        if not verify: return [[ctx.concretize(x) for x in r.fields] for r in res]
        # oracle: which tokens must appear
        want = []
        for f in toks:
            single = ctx.branch(bv_eq(f['sl'], f['el']))
            touch = True
            if flt: touch = ctx.branch(b_and(b_not(bv_ult(flt['el'], f['sl'])), b_not(bv_ult(f['el'], flt['sl']))))
            if single and touch: want.append(f)
            if not single: ctx.cover('multi-line token skipped')
            if not touch: ctx.cover('token outside the filter')
        if len(res) != len(want):
            ctx.model(); raise Violation(f'{len(res)} tokens encoded, {len(want)} expected', 'count')
        line = BV(0, 32); start = BV(0, 32)
        for r, f in zip(res, want):
            dl, ds, ln, ty, mo = r.fields
            line = I.binop(ctx, 'Add', line, dl)
            start = I.binop(ctx, 'Add', start, ds) if not ctx.branch(b_not(bv_is(dl, 0))) else ds
            ok = b_and(bv_eq(line, f['sl']), b_and(bv_eq(start, f['sc']), b_and(bv_eq(I.binop(ctx, 'Add', start, ln), f['ec']), b_and(bv_eq(ty, f['ty']), bv_eq(mo, f['mo'])))))
            ctx.obligations += 1
            if ctx.feasible(b_not(ok)): raise Violation('decoded token differs from the input token', 'decode')
        ctx.cover('compared')
        if len(want) >= 2: ctx.cover('two or more tokens encoded')
        return None

    def harness(self, chk):
        def h(ctx): self.run(chk, ctx, SymInputs(ctx))
        return h

    def case_of(self, w):
        toks = [[w.get(f't{i}{k}', 0) for k in ('sl', 'sc', 'el', 'ec', 'ty', 'mo')] for i in range(self.N)]
        flt = [w.get(f'f{k}', 0) for k in ('sl', 'sc', 'el', 'ec')] if w.get('filter') else None
        return {'tokens': toks, 'filter': flt}

    def replay_case(self, chk, w, v):
        case = self.case_of(w)
        want = [t for t in case['tokens'] if t[0] == t[2] and (case['filter'] is None or (t[0] <= case['filter'][2] and t[2] >= case['filter'][0]))]
        for rel in (False, True):
            out = chk.native.run('encode', [case], release=rel)[0]
            if 'panic' in out:
                if not rel: return True        # the dev profile (overflow checks) is what the tests run
                continue
            if 'data' not in out: return f'native replay failed: {out}'
            line = start = 0; dec = []
            for dl, ds, ln, ty, mo in out['data']:
                line = (line + dl) & 0xFFFFFFFF; start = ((start + ds) if dl == 0 else ds) & 0xFFFFFFFF
                dec.append([line, start, line, (start + ln) & 0xFFFFFFFF, ty, mo])
            if dec != want: return True
        return False

    def translator_validation(self, chk):
        rng = chk.rng; cases = []
        for _ in range(20):
            w = {}; line = 0; col = 0
            for i in range(self.N):
                line += rng.choice([0, 0, 1, 2]); col = (col + rng.randrange(0, 6)) if True else 0
                el = line + rng.choice([0, 0, 0, 1]); ec = col + rng.randrange(0, 5)
                w.update({f't{i}sl': line, f't{i}sc': col, f't{i}el': el, f't{i}ec': ec, f't{i}ty': rng.randrange(11), f't{i}mo': rng.randrange(2)})
            w['filter'] = rng.random() < 0.5
            fl = rng.randrange(0, 3); w.update({'fsl': fl, 'fsc': 0, 'fel': fl + rng.randrange(0, 3), 'fec': 9})
            cases.append(w)
        outs = chk.native.run('encode', [self.case_of(w) for w in cases])
        bad = []
        for w, out in zip(cases, outs):
            ctx = Ctx()
            try: mine = self.run(chk, ctx, ConcInputs(ctx, w), verify=False)
            except Violation as vv: mine = 'panic'
            theirs = 'panic' if 'panic' in out else out.get('data')
            if mine != theirs: bad.append({'case': self.case_of(w), 'interpreter': mine, 'native': out})
        return len(cases), bad


class Order(Part):
    """<SrcPos as Ord>::cmp within one source and the derived Ord of Position are the lexicographic (line, character) order of the start"""
    vcap = 6
    name = 'SrcPos::cmp / Position::cmp are the lexicographic order'
    bounds = dict(positions='2 x (line, character) unconstrained u32; the same source for both SrcPos')
    required_classes = ('compared',)

    def run(self, chk, ctx, inp, verify=True):
        I = chk.I
        a = (inp.bv('al', 32), inp.bv('ac', 32)); b = (inp.bv('bl', 32), inp.bv('bc', 32))
        pa, pb = Agg('Position', list(a)), Agg('Position', list(b))
        o1 = I.call(ctx, L, '<Position as Ord>::cmp', [ValRef(pa), ValRef(pb)])
        from ..models import py_str
        us = Agg('UniqueSource', [Agg('FileId', [Agg('FilePath', [py_str('/x.vhd')]), BV(1, 64)]), Agg('CellLike', [None])])
        src = Agg('Source', [us])
        ea = (inp.bv('ael', 32), inp.bv('aec', 32)); eb = (inp.bv('bel', 32), inp.bv('bec', 32))
        sa = Agg('SrcPos', [src, Agg('Range', [Agg('Position', list(a)), Agg('Position', list(ea))])])
        sb = Agg('SrcPos', [src, Agg('Range', [Agg('Position', list(b)), Agg('Position', list(eb))])])
        o2 = I.call(ctx, L, '<SrcPos as Ord>::cmp', [ValRef(sa), ValRef(sb)])
        if not verify: return [o1.variant, o2.variant]
        lt = pos_lt(a, b); eq = b_and(bv_eq(a[0], b[0]), bv_eq(a[1], b[1]))
        for o in (o1, o2):
            exp_ok = {'Less': lt, 'Equal': eq, 'Greater': b_and(b_not(lt), b_not(eq))}[o.variant]
            ctx.obligations += 1
            if ctx.feasible(b_not(exp_ok)): raise Violation(f'cmp returns {o.variant} against the (line, character) order', 'order')
        ctx.cover('compared')

    def harness(self, chk):
        def h(ctx): self.run(chk, ctx, SymInputs(ctx))
        return h

    def replay_case(self, chk, w, v): return 'ordering is replayed only through the encoder cases'


class C16(Check):
    prop = 'C16'
    crates = (LS, L)

    def parts(self):
        if hasattr(self, '_parts'): return self._parts
        req = ('compared', 'two or more tokens encoded', 'multi-line token skipped', 'token outside the filter')
        if self.tier == 'quick':
            ps = [Encode('encode, 4 tokens', 4, required=req), Encode('encode, 5 tokens', 5, required=req), Encode('encode, 1 token', 1), Order()]
        else:
            ps = [Encode('encode, 5 tokens', 5, required=req), Encode('encode, 6 tokens', 6, required=req), Encode('encode, 7 tokens', 7), Order()]
        if not hasattr(self, 'll'): self.ll = LangLex(self)
        self.server_stubs = install_server_stubs(self.I)
        def _publish(I, ctx, srv):
            # the notification channel is the environment: analysis runs (real Project::analyse), nothing is sent
            I.call(ctx, L, 'Project::analyse', [FieldRef(deref(srv), I.crates[LS].structs['VHDLServer'].index('project'))]); return UNIT
        self.I.add_models({'VHDLServer::publish_diagnostics': _publish, 'diagnostics::<impl VHDLServer>::publish_diagnostics': _publish})
        if not hasattr(self, 'pkit'): self.pkit = ProjectKit(self, log=self.log)
        all_ds = [DS.D_RECORDS, DS.D_TREE, DS.D_GENERIC, DS.D_COMB, DS.D_ZOO, DS.D_SEM, DS.D_SYN, DS.MUT_DESIGN]
        ds = all_ds if self.tier != 'quick' else [all_ds[self.seed % 8], all_ds[(self.seed + 5) % 8]]
        ps.append(TokensOnDesigns('the server on analysed designs: semanticTokens/full and /range', ds, required=('compared', 'tokens present', 'proper subset requested')))
        ps.append(TokenCacheHistory('the token cache across an edit, two spellings of the URI', [DS.D_COMB, DS.MUT_DESIGN] if self.tier != 'quick' else [DS.D_COMB], required=('compared', 'different spellings')))
        self._parts = ps
        return ps

    def assumptions(self):
        return ['input tokens are sorted by start position and have start <= end (established by map_and_sort / the tokenizer; distinctness of reference positions is NOT assumed and not claimed)',
                'server part: the listed designs (valid, semantically and syntactically broken) with std; environment stubs: a Url is its path, path normalisers are the identity; the document-symbol hierarchy and the classification of tokens are outside',
                'the semantic token cache invalidation (per-URI state of the server) is outside this check']



# ------------------------------------------------------------------------------------------------ the server on analysed designs
from .queries import DesignPart, FileTexts, load_design, choose as _choose, DS, ProjectKit, LangLex, obs_show, Infeasible
from .c09 import install_stubs as install_server_stubs, url_of
from ..models import HMap, py_str
import re as _re

TOKEN_TEXT = _re.compile(r"[A-Za-z][A-Za-z0-9_]*|\\[^\\]*\\|'.'|\"[^\"]*\"|\*\*|<=|>=|/=|:=|\?\?|\?=|\?/=|\?<=|\?>=|\?<|\?>|[-+*/&=<>]")


def make_server(chk, proj_agg):
    info = chk.I.crates[LS]
    F = info.structs['VHDLServer']; srv = Agg('VHDLServer', [None] * len(F))
    S = info.structs['VHDLServerSettings']; st = Agg('VHDLServerSettings', [None] * len(S))
    st.fields[S.index('no_lint')] = False; st.fields[S.index('silent')] = True
    st.fields[S.index('non_project_file_handling')] = chk.I.enum_value(LS, 'NonProjectFileHandling', 'Ignore') if 'NonProjectFileHandling' in info.enums else None
    srv.fields[F.index('rpc')] = Agg('SharedRpcChannel', [None]); srv.fields[F.index('settings')] = st
    srv.fields[F.index('use_external_config')] = False; srv.fields[F.index('project')] = proj_agg
    srv.fields[F.index('diagnostic_cache')] = HMap(); srv.fields[F.index('semantic_token_cache')] = HMap()
    srv.fields[F.index('init_params')] = Agg('Option', [], 'None', 0); srv.fields[F.index('config_file')] = Agg('Option', [], 'None', 0)
    srv.fields[F.index('severity_map')] = None; srv.fields[F.index('case_transform')] = Agg('Option', [], 'None', 0)
    srv.fields[F.index('string_matcher')] = Agg('SkimMatcherV2', [])
    return srv


def decode(data):
    """[(line, start, length, type, modifiers)] of a delta-encoded token array (concrete)"""
    out = []; line = 0; start = 0
    for t in data:
        dl, ds, ln, ty, mo = [x.e for x in t.fields]
        line += dl; start = start + ds if dl == 0 else ds
        out.append((line, start, ln, ty, mo))
    return out


class TokensOnDesigns(DesignPart):
    """semanticTokens/full and /range of the real server on analysed designs"""

    def __init__(self, name, designs, required=(), time_cap=None):
        self.name, self.designs = name, designs
        self.required_classes = required; self.time_cap = time_cap
        self.bounds = dict(designs=[d['name'] for d in designs], request='full, then a range request with four unconstrained u32 (symbolic)',
                           decoded='strictly increasing, non-overlapping, single line, inside the text, each exactly one identifier / operator symbol / character literal; range answer == tokens of the full answer on the requested lines')

    def run(self, chk, ctx, inp, verify=True):
        I = chk.I
        D = self.designs[_choose(ctx, inp, 'design', len(self.designs))]
        pr = self.project(chk, ctx, inp, D)
        fi = _choose(ctx, inp, 'file', len(D['files'])); fn = D['files'][fi][1]; fname = '/p/' + fn
        srv = make_server(chk, pr.agg)
        tdi = Agg('TextDocumentIdentifier', [url_of(fname)])
        wd = Agg('WorkDoneProgressParams', [Agg('Option', [], 'None', 0)]); prp = Agg('PartialResultParams', [Agg('Option', [], 'None', 0)])
        try:
            full = I.call(ctx, LS, 'VHDLServer::semantic_tokens_full', [ValRef(srv), ValRef(Agg('SemanticTokensParams', [wd, prp, tdi]))])
        except Panic as p:
            raise Violation(f'semanticTokens/full panics on {fn}: ' + str(p), 'panic')
        if full.variant == 'None': raise Violation(f'no semantic tokens for the project file {fn}', 'none')
        toks = decode(seq_items(deref(full.fields[0]).fields[0].fields[1]))
        if not verify: return toks
        lines = D['files'][fi][2].split('\n')
        prev = None
        for (ln, st, le, ty, mo) in toks:
            ctx.obligations += 1
            if ln >= len(lines) or st + le > len(lines[ln]) or le == 0:
                raise Violation(f'{fn}: token (line {ln}, start {st}, length {le}) is not inside the document', 'outside')
            if prev is not None and not ((ln, st) >= (prev[0], prev[1] + prev[2]) and (ln, st) > (prev[0], prev[1])):
                raise Violation(f'{fn}: tokens are not strictly increasing / overlap: {prev[:3]} then {(ln, st, le)}', 'order')
            text = lines[ln][st:st + le]
            if not TOKEN_TEXT.fullmatch(text):
                raise Violation(f'{fn}: token (line {ln}, start {st}, length {le}) covers {text!r}, which is not exactly one identifier, operator symbol or character literal', 'text')
            prev = (ln, st, le)
        ctx.cover('full answer decoded')
        if toks: ctx.cover('tokens present')
        # range request
        r = [inp.bv(k, 32) for k in ('rsl', 'rsc', 'rel', 'rec')]
        rng = Agg('Range', [Agg('Position', [r[0], r[1]]), Agg('Position', [r[2], r[3]])])
        try:
            part = I.call(ctx, LS, 'VHDLServer::semantic_tokens_range', [ValRef(srv), ValRef(Agg('SemanticTokensRangeParams', [wd, prp, tdi, rng]))])
        except Panic as p:
            ctx.model(); raise Violation(f'semanticTokens/range panics on {fn}: ' + str(p), 'panic')
        got = decode(seq_items(deref(part.fields[0]).fields[0].fields[1]))
        # which tokens of the full answer touch the requested lines: decided per token (the solver splits the range space accordingly)
        want = []
        for t in toks:
            touch = ctx.branch(z3.And(z3.ULE(r[0].e, t[0]), z3.UGE(r[2].e, t[0])))
            if touch: want.append(t)
        ctx.obligations += 1
        if got != want:
            ctx.model(); raise Violation(f'{fn}: the range request returns {len(got)} tokens, the full answer has {len(want)} on the requested lines; first difference: {[x for x in got if x not in want][:2]} / {[x for x in want if x not in got][:2]}', 'range')
        ctx.cover('compared')
        if want and len(want) < len(toks): ctx.cover('proper subset requested')
        return None

    def harness(self, chk):
        self.bases(chk)
        def h(ctx):
            ctx.step_limit = max(ctx.step_limit, 60_000_000)
            self.run(chk, ctx, SymInputs(ctx))
        return h

    def replay_case(self, chk, w, v):
        from .c09 import os as _os
        D = self.designs[w.get('design', 0) % len(self.designs)]; fn = D['files'][w.get('file', 0) % len(D['files'])][1]
        full, part = lsp_tokens(D, fn, [w.get(k, 0) for k in ('rsl', 'rsc', 'rel', 'rec')])
        if full is None: return True
        lines = dict((f, t) for _, f, t in D['files'])[fn].split('\n')
        prev = None
        for (ln, st, le, ty, mo) in full:
            if ln >= len(lines) or st + le > len(lines[ln]) or le == 0 or not TOKEN_TEXT.fullmatch(lines[ln][st:st + le]): return True
            if prev is not None and not ((ln, st) >= (prev[0], prev[1] + prev[2])): return True
            prev = (ln, st, le)
        rsl, rel = w.get('rsl', 0), w.get('rel', 0)
        return part != [t for t in full if rsl <= t[0] <= rel]

    def translator_validation(self, chk):
        self.bases(chk)
        rng = chk.rng; bad = []; n = 0
        for di, D in enumerate(self.designs):
            w = {'design': di, 'file': rng.randrange(len(D['files'])), 'rsl': rng.randrange(5), 'rsc': 0, 'rel': rng.randrange(5, 40), 'rec': 3}
            ctx = Ctx(); ctx.step_limit = 10 ** 9
            try: mine = self.run(chk, ctx, ConcInputs(ctx, w), verify=False)
            except Violation as vv: mine = ('violation', str(vv))
            fn = D['files'][w['file'] % len(D['files'])][1]
            theirs, _ = lsp_tokens(D, fn, None); n += 1
            if mine != theirs: bad.append({'case': w, 'interpreter': [list(x) for x in mine][:8] if isinstance(mine, list) else mine, 'vhdl_ls over stdio': (theirs or [])[:8]})
        return n, bad


def lsp_tokens(D, fn, rng4):
    """the real vhdl_ls binary over stdio: decoded full answer and (optionally) range answer"""
    import tempfile, shutil, os
    from .c14 import LspClient, lsp_binary
    from .. import build
    os.makedirs(os.path.join(build.BUILD, 'scratch'), exist_ok=True)
    root = tempfile.mkdtemp(prefix='c16-', dir=os.path.join(build.BUILD, 'scratch'))
    try:
        libs = {}
        for lib, f, t in D['files']:
            libs.setdefault(lib, []).append(f)
            with open(os.path.join(root, f), 'w', encoding='latin-1') as fh: fh.write(t)
        with open(os.path.join(root, 'vhdl_ls.toml'), 'w') as fh:
            fh.write('[libraries]\n' + ''.join(f'{k}.files = [{", ".join(repr(x) for x in v)}]\n' for k, v in libs.items()))
        c = LspClient(lsp_binary(), root)
        try:
            doc = {'textDocument': {'uri': 'file://' + os.path.join(root, fn)}}
            res = c.request('textDocument/semanticTokens/full', doc).get('result')
            part = None
            if rng4 is not None:
                part = c.request('textDocument/semanticTokens/range', dict(doc, range={'start': {'line': rng4[0], 'character': rng4[1]}, 'end': {'line': rng4[2], 'character': rng4[3]}})).get('result')
        finally: c.stop()
        def dec(r):
            if r is None: return None
            d = r['data']; out = []; line = 0; start = 0
            for k in range(0, len(d), 5):
                dl, ds, ln, ty, mo = d[k:k + 5]
                line += dl; start = start + ds if dl == 0 else ds
                out.append((line, start, ln, ty, mo))
            return out
        return dec(res), dec(part)
    finally:
        shutil.rmtree(root, ignore_errors=True)


class TokenCacheHistory(DesignPart):
    """tokens, an edit (through the same or another spelling of the file's URI), tokens again: the second answer belongs to the new text"""

    def __init__(self, name, designs, required=(), time_cap=None):
        self.name, self.designs = name, designs
        self.required_classes = required; self.time_cap = time_cap
        self.bounds = dict(designs=[d['name'] for d in designs], history='semanticTokens/full via spelling X of the URI; didChange (full text: one comment line inserted on top) via spelling Y; semanticTokens/full via X again; X, Y in {plain, an equivalent spelling (a percent-encoded letter; written /./ in the interpreter, where a Url is its path)}',
                           oracle='the second answer is the first one moved down by one line')

    def run(self, chk, ctx, inp, verify=True):
        I = chk.I
        D = self.designs[_choose(ctx, inp, 'design', len(self.designs))]
        pr = self.project(chk, ctx, inp, D)
        fi = _choose(ctx, inp, 'file', len(D['files'])); fn = D['files'][fi][1]
        spell = ['/p/' + fn, '/p/./' + fn]
        x = _choose(ctx, inp, 'request spelling', 2); y = _choose(ctx, inp, 'edit spelling', 2)
        srv = make_server(chk, pr.agg)
        wd = Agg('WorkDoneProgressParams', [Agg('Option', [], 'None', 0)]); prp = Agg('PartialResultParams', [Agg('Option', [], 'None', 0)])
        def tokens():
            r = I.call(ctx, LS, 'VHDLServer::semantic_tokens_full', [ValRef(srv), ValRef(Agg('SemanticTokensParams', [wd, prp, Agg('TextDocumentIdentifier', [url_of(spell[x])])]))])
            if r.variant == 'None': raise Violation(f'no semantic tokens for {spell[x]}', 'none')
            return decode(seq_items(deref(r.fields[0]).fields[0].fields[1]))
        try:
            t0 = tokens()
            new_text = '-- edited\n' + D['files'][fi][2]
            ev = Agg('TextDocumentContentChangeEvent', [Agg('Option', [], 'None', 0), Agg('Option', [], 'None', 0), py_str(new_text)])
            params = Agg('DidChangeTextDocumentParams', [Agg('VersionedTextDocumentIdentifier', [url_of(spell[y]), BV(2, 32, True)]), VecV([ev])])
            I.call(ctx, LS, 'VHDLServer::text_document_did_change_notification', [ValRef(srv), ValRef(params)])
            t1 = tokens()
        except Panic as p:
            raise Violation('a handler panics: ' + str(p), 'panic')
        if not verify: return t0, t1
        ctx.obligations += 1
        want = [(ln + 1, st, le, ty, mo) for (ln, st, le, ty, mo) in t0]
        if t1 != want:
            raise Violation(f'{fn}: tokens requested via {spell[x]!r} after an edit via {spell[y]!r} do not belong to the new text: {len(t1)} tokens, first {t1[:2]}, expected {want[:2]}', 'stale')
        ctx.cover('compared')
        if x != y: ctx.cover('different spellings')
        return None

    def harness(self, chk):
        self.bases(chk)
        def h(ctx):
            ctx.step_limit = max(ctx.step_limit, 60_000_000)
            self.run(chk, ctx, SymInputs(ctx))
        return h

    def replay_case(self, chk, w, v):
        D = self.designs[w.get('design', 0) % len(self.designs)]; fn = D['files'][w.get('file', 0) % len(D['files'])][1]
        t0, t1 = lsp_token_history(D, fn, w.get('request spelling', 0) % 2, w.get('edit spelling', 0) % 2)
        return t1 != [(ln + 1, st, le, ty, mo) for (ln, st, le, ty, mo) in (t0 or [])]

    def translator_validation(self, chk): return 0, []


def lsp_token_history(D, fn, x, y):
    import tempfile, shutil, os
    from .c14 import LspClient, lsp_binary
    from .. import build
    os.makedirs(os.path.join(build.BUILD, 'scratch'), exist_ok=True)
    root = tempfile.mkdtemp(prefix='c16h-', dir=os.path.join(build.BUILD, 'scratch'))
    try:
        libs = {}
        for lib, f, t in D['files']:
            libs.setdefault(lib, []).append(f)
            with open(os.path.join(root, f), 'w', encoding='latin-1') as fh: fh.write(t)
        with open(os.path.join(root, 'vhdl_ls.toml'), 'w') as fh:
            fh.write('[libraries]\n' + ''.join(f'{k}.files = [{", ".join(repr(v2) for v2 in v)}]\n' for k, v in libs.items()))
        c = LspClient(lsp_binary(), root)
        # the second spelling percent-encodes the first letter of the file name: another Url value, the same file after decoding
        spell = ['file://' + os.path.join(root, fn), 'file://' + root + '/%%%02X' % ord(fn[0]) + fn[1:]]
        def dec(r):
            if r is None: return None
            d = r['data']; out = []; line = 0; start = 0
            for k in range(0, len(d), 5):
                dl, ds, ln, ty, mo = d[k:k + 5]
                line += dl; start = start + ds if dl == 0 else ds
                out.append((line, start, ln, ty, mo))
            return out
        try:
            t0 = dec(c.request('textDocument/semanticTokens/full', {'textDocument': {'uri': spell[x]}}).get('result'))
            text = dict((f, t) for _, f, t in D['files'])[fn]
            c.notify('textDocument/didChange', {'textDocument': {'uri': spell[y], 'version': 2}, 'contentChanges': [{'text': '-- edited\n' + text}]})
            t1 = dec(c.request('textDocument/semanticTokens/full', {'textDocument': {'uri': spell[x]}}).get('result'))
        finally: c.stop()
        return t0, t1
    finally:
        shutil.rmtree(root, ignore_errors=True)


if __name__ == '__main__':
    run_check(C16)
