"""C16  Semantic tokens are well-formed encodings  --  kernel: the delta encoder and the ordering it relies on.

Real code (MIR): vhdl_ls semantic_tokens::encode, vhdl_lang Range::overlaps_lines, <SrcPos as Ord>::cmp, derived Ord of Position.
For every array of N tokens sorted the way map_and_sort sorts them (by SrcPos, i.e. by start position) with well-ordered ranges
and every optional filter range: no arithmetic overflow / panic; decoding the deltas gives back exactly the single-line tokens
that touch the filter lines, in order, with their type and modifiers; decoded starts are non-decreasing.
Classification, reference collection and document symbols need the analyser and are outside.
"""
import z3
from ..util import Panic, Unsupported
from ..values import *
from ..interp import Violation, Ctx
from .common import Check, Part, SymInputs, ConcInputs, run_check

LS, L = 'vhdl_ls', 'vhdl_lang'


def pos_lt(a, b):   # (line, char) lexicographic on BV pairs
    return b_or(bv_ult(a[0], b[0]), b_and(bv_eq(a[0], b[0]), bv_ult(a[1], b[1])))


def pos_le(a, b): return b_not(pos_lt(b, a))


class Encode(Part):
    vcap = 6

    def __init__(self, name, N, required=()):
        self.name, self.N = name, N
        self.required_classes = required
        self.bounds = dict(tokens=N, fields='start/end line/character, type, modifiers: unconstrained u32', filter='absent or an arbitrary range (4 x u32)',
                           precondition='tokens sorted by start position (what sort_by(SrcPos::cmp) establishes), start <= end in each range')

    def run(self, chk, ctx, inp, verify=True):
        I = chk.I
        toks = []
        for i in range(self.N):
            f = {k: inp.bv(f't{i}{k}', 32) for k in ('sl', 'sc', 'el', 'ec', 'ty', 'mo')}
            if inp.symbolic:
                ctx.assume(b_z(pos_le((f['sl'], f['sc']), (f['el'], f['ec']))))
                if toks: ctx.assume(b_z(pos_le((toks[-1]['sl'], toks[-1]['sc']), (f['sl'], f['sc']))))
            toks.append(f)
        use_filter = ctx.branch(inp.bool('filter'))
        flt = None
        if use_filter:
            flt = {k: inp.bv(f'f{k}', 32) for k in ('sl', 'sc', 'el', 'ec')}
            if inp.symbolic: ctx.assume(b_z(pos_le((flt['sl'], flt['sc']), (flt['el'], flt['ec']))))
        def rng(f): return Agg('Range', [Agg('Position', [f['sl'], f['sc']]), Agg('Position', [f['el'], f['ec']])])
        cached = [Agg('CachedToken', [rng(f), f['ty'], f['mo']]) for f in toks]
        arg2 = SOME(ValRef(rng(flt))) if flt else NONE()
        try:
            out = I.call(ctx, LS, 'encode', [ValRef(VecV(cached)), arg2])
        except Panic as p:
            ctx.model()
            raise Violation('encode panics (arithmetic overflow / underflow): ' + str(p), 'panic')
        res = seq_items(out)
        if not verify: return [[ctx.concretize(x) for x in r.fields] for r in res]
        # oracle: which tokens must appear
        want = []
        for f in toks:
            single = ctx.branch(bv_eq(f['sl'], f['el']))
            touch = True
            if flt: touch = ctx.branch(b_and(b_not(bv_ult(flt['el'], f['sl'])), b_not(bv_ult(f['el'], flt['sl']))))
            if single and touch: want.append(f)
            if not single: ctx.cover('multi-line token skipped')
            if not touch: ctx.cover('token outside the filter')
        if len(res) != len(want):
            ctx.model(); raise Violation(f'{len(res)} tokens encoded, {len(want)} expected', 'count')
        line = BV(0, 32); start = BV(0, 32)
        for r, f in zip(res, want):
            dl, ds, ln, ty, mo = r.fields
            line = I.binop(ctx, 'Add', line, dl)
            start = I.binop(ctx, 'Add', start, ds) if not ctx.branch(b_not(bv_is(dl, 0))) else ds
            ok = b_and(bv_eq(line, f['sl']), b_and(bv_eq(start, f['sc']), b_and(bv_eq(I.binop(ctx, 'Add', start, ln), f['ec']), b_and(bv_eq(ty, f['ty']), bv_eq(mo, f['mo'])))))
            ctx.obligations += 1
            if ctx.feasible(b_not(ok)): raise Violation('decoded token differs from the input token', 'decode')
        ctx.cover('compared')
        if len(want) >= 2: ctx.cover('two or more tokens encoded')
        return None

    def harness(self, chk):
        def h(ctx): self.run(chk, ctx, SymInputs(ctx))
        return h

    def case_of(self, w):
        toks = [[w.get(f't{i}{k}', 0) for k in ('sl', 'sc', 'el', 'ec', 'ty', 'mo')] for i in range(self.N)]
        flt = [w.get(f'f{k}', 0) for k in ('sl', 'sc', 'el', 'ec')] if w.get('filter') else None
        return {'tokens': toks, 'filter': flt}

    def replay_case(self, chk, w, v):
        case = self.case_of(w)
        want = [t for t in case['tokens'] if t[0] == t[2] and (case['filter'] is None or (t[0] <= case['filter'][2] and t[2] >= case['filter'][0]))]
        for rel in (False, True):
            out = chk.native.run('encode', [case], release=rel)[0]
            if 'panic' in out:
                if not rel: return True        # the dev profile (overflow checks) is what the tests run
                continue
            if 'data' not in out: return f'native replay failed: {out}'
            line = start = 0; dec = []
            for dl, ds, ln, ty, mo in out['data']:
                line = (line + dl) & 0xFFFFFFFF; start = ((start + ds) if dl == 0 else ds) & 0xFFFFFFFF
                dec.append([line, start, line, (start + ln) & 0xFFFFFFFF, ty, mo])
            if dec != want: return True
        return False

    def translator_validation(self, chk):
        rng = chk.rng; cases = []
        for _ in range(20):
            w = {}; line = 0; col = 0
            for i in range(self.N):
                line += rng.choice([0, 0, 1, 2]); col = (col + rng.randrange(0, 6)) if True else 0
                el = line + rng.choice([0, 0, 0, 1]); ec = col + rng.randrange(0, 5)
                w.update({f't{i}sl': line, f't{i}sc': col, f't{i}el': el, f't{i}ec': ec, f't{i}ty': rng.randrange(11), f't{i}mo': rng.randrange(2)})
            w['filter'] = rng.random() < 0.5
            fl = rng.randrange(0, 3); w.update({'fsl': fl, 'fsc': 0, 'fel': fl + rng.randrange(0, 3), 'fec': 9})
            cases.append(w)
        outs = chk.native.run('encode', [self.case_of(w) for w in cases])
        bad = []
        for w, out in zip(cases, outs):
            ctx = Ctx()
            try: mine = self.run(chk, ctx, ConcInputs(ctx, w), verify=False)
            except Violation as vv: mine = 'panic'
            theirs = 'panic' if 'panic' in out else out.get('data')
            if mine != theirs: bad.append({'case': self.case_of(w), 'interpreter': mine, 'native': out})
        return len(cases), bad


class Order(Part):
    """<SrcPos as Ord>::cmp within one source and the derived Ord of Position are the lexicographic (line, character) order of the start"""
    vcap = 6
    name = 'SrcPos::cmp / Position::cmp are the lexicographic order'
    bounds = dict(positions='2 x (line, character) unconstrained u32; the same source for both SrcPos')
    required_classes = ('compared',)

    def run(self, chk, ctx, inp, verify=True):
        I = chk.I
        a = (inp.bv('al', 32), inp.bv('ac', 32)); b = (inp.bv('bl', 32), inp.bv('bc', 32))
        pa, pb = Agg('Position', list(a)), Agg('Position', list(b))
        o1 = I.call(ctx, L, '<Position as Ord>::cmp', [ValRef(pa), ValRef(pb)])
        from ..models import py_str
        us = Agg('UniqueSource', [Agg('FileId', [Agg('FilePath', [py_str('/x.vhd')]), BV(1, 64)]), Agg('CellLike', [None])])
        src = Agg('Source', [us])
        ea = (inp.bv('ael', 32), inp.bv('aec', 32)); eb = (inp.bv('bel', 32), inp.bv('bec', 32))
        sa = Agg('SrcPos', [src, Agg('Range', [Agg('Position', list(a)), Agg('Position', list(ea))])])
        sb = Agg('SrcPos', [src, Agg('Range', [Agg('Position', list(b)), Agg('Position', list(eb))])])
        o2 = I.call(ctx, L, '<SrcPos as Ord>::cmp', [ValRef(sa), ValRef(sb)])
        if not verify: return [o1.variant, o2.variant]
        lt = pos_lt(a, b); eq = b_and(bv_eq(a[0], b[0]), bv_eq(a[1], b[1]))
        for o in (o1, o2):
            exp_ok = {'Less': lt, 'Equal': eq, 'Greater': b_and(b_not(lt), b_not(eq))}[o.variant]
            ctx.obligations += 1
            if ctx.feasible(b_not(exp_ok)): raise Violation(f'cmp returns {o.variant} against the (line, character) order', 'order')
        ctx.cover('compared')

    def harness(self, chk):
        def h(ctx): self.run(chk, ctx, SymInputs(ctx))
        return h

    def replay_case(self, chk, w, v): return 'ordering is replayed only through the encoder cases'


class C16(Check):
    prop = 'C16'
    crates = (LS, L)

    def parts(self):
        if hasattr(self, '_parts'): return self._parts
        req = ('compared', 'two or more tokens encoded', 'multi-line token skipped', 'token outside the filter')
        if self.tier == 'quick':
            ps = [Encode('encode, 4 tokens', 4, required=req), Encode('encode, 5 tokens', 5, required=req), Encode('encode, 1 token', 1), Order()]
        else:
            ps = [Encode('encode, 5 tokens', 5, required=req), Encode('encode, 6 tokens', 6, required=req), Encode('encode, 7 tokens', 7), Order()]
        self._parts = ps
        return ps

    def assumptions(self):
        return ['input tokens are sorted by start position and have start <= end (established by map_and_sort / the tokenizer; distinctness of reference positions is NOT assumed and not claimed)',
                'that reference positions are single identifiers inside the document, the classification and the document-symbol hierarchy need the analyser and are outside this check',
                'the semantic token cache invalidation (per-URI state of the server) is outside this check']


if __name__ == '__main__':
    run_check(C16)
