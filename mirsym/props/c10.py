"""C10  Document synchronisation equals LSP splice semantics.

Real code executed (MIR): data::source::Source::change, data::contents::{Contents::from_str, Contents::change, split_lines,
Contents::get_line/num_lines}.  Oracle: raw-string splice per the LSP specification, written from the property text.
"""
import json
import z3
from ..util import Panic, Unsupported
from ..values import *
from ..interp import Violation
from ..models import utf8_encode, decode_all, str_bytes
from .common import Check, Part, SymInputs, ConcInputs, run_check
from ..interp import Ctx

CR, LF = 13, 10


def is_(ctx, c, k): return ctx.branch(bv_is(c, k))


def width16(ctx, c): return 1 if ctx.branch((c.e < 0x10000) if c.conc() else z3.ULT(c.e, 0x10000)) else 2


def normalise(ctx, chars):
    out = []; i = 0
    while i < len(chars):
        c = chars[i]
        if is_(ctx, c, CR):
            out.append(BV(LF, 32))
            if i + 1 < len(chars) and is_(ctx, chars[i + 1], LF): i += 1
        else:
            out.append(c)
        i += 1
    return out


def line_table(ctx, doc):
    """[(start, end_before_terminator)] of the raw text; lines end at LF, CR or CRLF; a trailing terminator opens a last empty line"""
    lines = []; start = 0; i = 0; n = len(doc)
    while i < n:
        c = doc[i]
        if is_(ctx, c, LF):
            lines.append((start, i)); i += 1; start = i
        elif is_(ctx, c, CR):
            lines.append((start, i)); i += 1
            if i < n and is_(ctx, doc[i], LF): i += 1
            start = i
        else:
            i += 1
    lines.append((start, n))
    return lines


def offset_of(ctx, doc, lines, line, col):
    """LSP position -> index into the raw text; None if the column falls inside a surrogate pair (outside the claim)"""
    L = None
    for k in range(len(lines)):
        if ctx.branch(bv_is(line, k)): L = k; break
    if L is None: return len(doc)              # line beyond the end -> end of document
    i, end = lines[L]
    u = 0
    while i < end:
        if ctx.branch((col.e <= u) if col.conc() else z3.ULE(col.z(), u)):
            return i if ctx.branch(bv_is(col, u)) else None
        u += width16(ctx, doc[i]); i += 1
    if ctx.branch((col.e < u) if col.conc() else z3.ULT(col.z(), u)): return None
    return end                                  # column beyond the line end -> line end (before its terminator)


def expected_of_case(case):
    """the oracle evaluated concretely -> list of code points, or None if outside the claim"""
    ctx = Ctx()
    raw = [BV(c, 32) for c in case['doc']]
    for ev in case['events']:
        rep = [BV(c, 32) for c in ev['text']]
        if ev['range'] is None: raw = rep; continue
        sl, sc, el, ec = [BV(x, 32) for x in ev['range']]
        lines = line_table(ctx, raw)
        a = offset_of(ctx, raw, lines, sl, sc); b = offset_of(ctx, raw, lines, el, ec)
        if a is None or b is None: return None
        if a > b: b = a
        raw = raw[:a] + rep + raw[b:]
    return [c.e for c in normalise(ctx, raw)]


def native_differs(chk, case):
    """True: the native build violates the oracle on this case (dev or release); False: it agrees; str: cannot tell"""
    want = expected_of_case(case)
    if want is None: return 'case is outside the claim'
    for rel in (False, True):
        out = chk.native.run('c10', [case], release=rel)[0]
        if 'lines' in out:
            got = [c for l in out['lines'] for c in l]
            if got == want: return False
        elif 'panic' not in out:
            return f'native replay failed: {out}'
    return True


class Events(Part):
    """doc of N chars, then a history of events; kinds[i] in {'ranged','full','any'}"""
    vcap = 10

    def __init__(self, name, N, kinds, R, time_cap=None, required=(), fixed_doc=None, holes=(), alphabet='unicode'):
        self.name, self.N, self.kinds, self.R = name, N, kinds, R
        self.alphabet = alphabet
        self.time_cap = time_cap
        self.required_classes = required
        self.fixed_doc, self.holes = fixed_doc, holes
        self.bounds = dict(document_chars=N, events=len(kinds), event_kinds=kinds, replacement_chars_per_event=R,
                           positions='4 x u32 unconstrained, start <= end', alphabet=('all Unicode scalar values' if alphabet == 'unicode' else 'CR, LF and all printable ASCII characters') if fixed_doc is None else f'skeleton {fixed_doc!r} with symbolic holes at {list(holes)}')

    # ---- the run shared by symbolic exploration, concrete translator validation and witness replay
    def sym_char(self, ctx, inp, name):
        c = inp.char(name)
        if self.alphabet == 'eol' and inp.symbolic:
            ctx.assume(z3.Or(c.e == CR, c.e == LF, z3.And(z3.UGE(c.e, 0x20), z3.ULE(c.e, 0x7E))))
        return c

    def run(self, chk, ctx, inp, verify=False):
        I = chk.I
        if self.fixed_doc is None:
            doc0 = [self.sym_char(ctx, inp, f'd{i}') for i in range(self.N)]
        else:
            doc0 = [inp.char(f'd{i}') if i in self.holes else BV(ord(ch), 32) for i, ch in enumerate(self.fixed_doc)]
        info = I.crates['vhdl_lang']
        # build the Source value through real code where that code is heap-only
        b = []
        for c in doc0: b.extend(utf8_encode(ctx, c))
        contents = I.call(ctx, 'vhdl_lang', 'Contents::from_str', [ValRef(StrV(b))])
        us_fields = info.structs['UniqueSource']
        us = Agg('UniqueSource', [None] * len(us_fields))
        us.fields[us_fields.index('contents')] = Agg('CellLike', [contents])
        source = Agg('Source', [us])
        raw = list(doc0)
        if verify:
            self.compare(ctx, self.read_lines(chk, ctx, us, us_fields), raw, False, -1)
        got_lines = None
        for e, kind in enumerate(self.kinds):
            rep = [self.sym_char(ctx, inp, f'e{e}r{i}') for i in range(self.R)]
            if kind == 'any':
                ranged = ctx.branch(inp.bool(f'e{e}ranged'))
            else:
                ranged = kind == 'ranged'
            rb = []
            for c in rep: rb.extend(utf8_encode(ctx, c))
            text = ValRef(StrV(rb))
            if ranged:
                sl, sc, el, ec = [inp.bv(f'e{e}{n}', 32) for n in ('sl', 'sc', 'el', 'ec')]
                if inp.symbolic:
                    ctx.assume(z3.Or(z3.ULT(sl.e, el.e), z3.And(sl.e == el.e, z3.ULE(sc.e, ec.e))))
                rng = Agg('Range', [Agg('Position', [sl, sc]), Agg('Position', [el, ec])])
                lines = line_table(ctx, raw)
                a = offset_of(ctx, raw, lines, sl, sc); bb = offset_of(ctx, raw, lines, el, ec)
                if a is None or bb is None:
                    ctx.cover('position inside a surrogate pair (excluded)')
                    return None
                if a > bb: bb = a
                arg = SOME(ValRef(rng))
                # coverage classes
                if len(lines) > 1 and not ctx.branch(bv_eq(sl, el)): ctx.cover('range spans lines')
                if a == len(raw) and raw: ctx.cover('start at/after end of document')
                new_raw = raw[:a] + rep + raw[bb:]
                seam = None
                # known-finding region: a CR of the document (stored as '\n') is adjacent to the edit seam
                if a > 0 and ctx.branch(bv_is(raw[a - 1], CR)):
                    nxt = rep[0] if rep else (raw[bb] if bb < len(raw) else None)
                    if nxt is not None and ctx.branch(bv_is(nxt, LF)):
                        seam = a; ctx.notes.append('seam:start')
                if rep and bb < len(raw) and ctx.branch(bv_is(rep[-1], CR)) and ctx.branch(bv_is(raw[bb], CR)):
                    seam = bb; ctx.notes.append('seam:end')
                raw = new_raw
            else:
                arg = NONE(); seam = None
                raw = list(rep)
                ctx.cover('full text event')
            try:
                I.call(ctx, 'vhdl_lang', 'Source::change', [ValRef(source), arg, text])
            except Panic as p:
                ctx.notes.append(f'event {e}')
                raise Violation('panic: ' + str(p), 'panic')
            if seam is not None:
                ctx.cover('CR of the document adjacent to the edit seam (known-finding region)')
            got_lines = self.read_lines(chk, ctx, us, us_fields)
            if verify:
                self.compare(ctx, got_lines, raw, seam is not None, e)
                if seam is not None:
                    return None            # impl and oracle may legitimately differ from here on only inside the known region
        return got_lines if got_lines is not None else self.read_lines(chk, ctx, us, us_fields)

    def read_lines(self, chk, ctx, us, us_fields):
        I = chk.I
        got_lines = []
        cont = us.fields[us_fields.index('contents')].fields[0]
        i = 0
        while True:
            o = I.call(ctx, 'vhdl_lang', 'Contents::get_line', [ValRef(cont), BV(i, 64)])
            if o.variant == 'None': break
            got_lines.append(decode_all(ctx, o.fields[0])); i += 1
        n = I.call(ctx, 'vhdl_lang', 'Contents::num_lines', [ValRef(cont)])
        if n.e != len(got_lines): raise Violation(f'num_lines {n.e} != lines readable {len(got_lines)}', 'shape')
        return got_lines

    def compare(self, ctx, got_lines, raw, in_region, e):
        got = [c for l in got_lines for c in l]
        want = normalise(ctx, raw)
        if any(c.conc() and c.e == LF for c in want): ctx.cover('newline in final text')
        if in_region: ctx.notes.append('region:cr-seam')
        ctx.notes.append(f'event:{e}')
        if len(got) != len(want):
            ctx.notes.append(f'lendiff:{len(got) - len(want)}')
            ctx.model()
            raise Violation(f'text length {len(got)} != expected {len(want)} after event {e}', 'length')
        neq = False
        for g, w in zip(got, want): neq = b_or(neq, b_not(bv_eq(g, w)))
        ctx.obligations += 1
        if neq is not False and ctx.feasible(neq):
            ctx.solver.add(neq)
            raise Violation(f'text differs from the LSP splice after event {e}', 'content')
        # every stored line but the last ends with exactly one '\n' and no line contains another terminator
        for k, l in enumerate(got_lines):
            for j, c in enumerate(l):
                if j < len(l) - 1 and ctx.feasible(b_or(bv_is(c, LF), bv_is(c, CR))):
                    raise Violation('line terminator inside a stored line', 'shape')
                if j == len(l) - 1 and ctx.feasible(bv_is(c, CR)):
                    raise Violation('CR stored in a line', 'shape')
            if not l: raise Violation('empty stored line', 'shape')
            if k < len(got_lines) - 1 and ctx.feasible(b_not(bv_is(l[-1], LF))):
                raise Violation('stored line without terminator before the last line', 'shape')
        ctx.cover('compared')

    def check(self, chk, ctx, inp):
        self.run(chk, ctx, inp, verify=True)

    def harness(self, chk):
        def h(ctx): self.check(chk, ctx, SymInputs(ctx))
        return h

    # ---- witness <-> native case
    def case_of(self, w):
        if self.fixed_doc is None:
            doc = [w.get(f'd{i}', 0) for i in range(self.N)]
        else:
            doc = [w.get(f'd{i}', 0) if i in self.holes else ord(ch) for i, ch in enumerate(self.fixed_doc)]
        evs = []
        for e, kind in enumerate(self.kinds):
            ranged = (kind == 'ranged') or (kind == 'any' and w.get(f'e{e}ranged', False))
            evs.append({'range': [w.get(f'e{e}{n}', 0) for n in ('sl', 'sc', 'el', 'ec')] if ranged else None,
                        'text': [w.get(f'e{e}r{i}', 0) for i in range(self.R)]})
        return {'doc': doc, 'events': evs}

    def expected(self, chk, w):
        return expected_of_case(self.case_of(w))

    def replay_case(self, chk, w, v):
        return native_differs(chk, self.case_of(w))

    def attribute(self, chk, v, known):
        notes = v.get('notes', [])
        for k in known:
            if k['id'] != 'C10-cr-seam' or 'region:cr-seam' not in notes: continue
            if v['kind'] == 'length' and any(n in ('lendiff:1', 'lendiff:-1') for n in notes): return k['id']
            # both seams of one edit touch a CR: the two off-by-one line breaks may cancel in length and show as content, or add up
            if 'seam:start' in notes and 'seam:end' in notes and (v['kind'] == 'content' or any(n in ('lendiff:2', 'lendiff:-2') for n in notes)):
                return k['id']
        return None

    def translator_validation(self, chk):
        """concrete cases through the interpreter (real MIR + models) and through the native build must agree"""
        rng = chk.rng
        alphabet = [ord('a'), ord('b'), 10, 13, 0xE9, 0x20AC, 0x1F4A3, ord(' ')] if self.alphabet == 'unicode' else [ord('a'), 10, 13, 10, 13, ord(' ')]
        cases = []
        for _ in range(40 if chk.tier == 'quick' else 150):
            w = {}
            n = self.N if self.fixed_doc is None else len(self.fixed_doc)
            for i in range(n): w[f'd{i}'] = rng.choice(alphabet)
            for e, kind in enumerate(self.kinds):
                w[f'e{e}ranged'] = rng.random() < 0.8
                for i in range(self.R): w[f'e{e}r{i}'] = rng.choice(alphabet)
                sl = rng.randrange(0, 4); el = sl + rng.randrange(0, 3)
                sc = rng.randrange(0, 5); ec = rng.randrange(0, 6)
                if sl == el and ec < sc: sc, ec = ec, sc
                w.update({f'e{e}sl': sl, f'e{e}sc': sc, f'e{e}el': el, f'e{e}ec': ec})
            cases.append(w)
        outs = chk.native.run('c10', [self.case_of(w) for w in cases])
        bad = []
        for w, out in zip(cases, outs):
            ctx = Ctx()
            try:
                r = self.run(chk, ctx, ConcInputs(ctx, w))
                mine = {'lines': [[c.e for c in l] for l in r]} if r is not None else None
            except Violation as vv:
                mine = {'panic': str(vv)}
            if mine is None: continue
            if ('panic' in mine) != ('panic' in out) or ('lines' in mine and mine['lines'] != out.get('lines')):
                bad.append({'case': self.case_of(w), 'interpreter': mine, 'native': out})
        return len(cases), bad


class C10(Check):
    prop = 'C10'
    crates = ('vhdl_lang',)

    def parts(self):
        if hasattr(self, '_parts'): return self._parts
        req = ('compared', 'range spans lines', 'newline in final text')
        if self.tier == 'quick':
            ps = [Events('ranged N<=2 R<=1', 2, ['ranged'], 1, required=req),
                  Events('ranged N<=1 R<=1', 1, ['ranged'], 1),
                  Events('ranged N<=2 R=0 (deletions)', 2, ['ranged'], 0),
                  Events('history k=2 N=1 R=1', 1, ['any', 'ranged'], 1, required=('full text event', 'compared')),
                  Events('open N<=5 (line-ending alphabet)', 5, [], 0, alphabet='eol', required=('compared', 'newline in final text')),
                  Events('ranged N<=3 R<=2 (line-ending alphabet)', 3, ['ranged'], 2, alphabet='eol', required=req)]
        else:
            ps = [Events('ranged N<=3 R<=1', 3, ['ranged'], 1, required=req),
                  Events('ranged N<=2 R<=2', 2, ['ranged'], 2, required=req),
                  Events('ranged N<=3 R=0 (deletions)', 3, ['ranged'], 0),
                  Events('history k=2 N=2 R=1', 2, ['any', 'ranged'], 1, required=('full text event', 'compared')),
                  Events('history k=3 N=1 R=1', 1, ['any', 'ranged', 'ranged'], 1),
                  Events('open N<=7 (line-ending alphabet)', 7, [], 0, alphabet='eol', required=('compared', 'newline in final text')),
                  Events('ranged N<=4 R<=3 (line-ending alphabet)', 4, ['ranged'], 3, alphabet='eol', required=req),
                  Events('history k=2 N=3 R=2 (line-ending alphabet)', 3, ['any', 'ranged'], 2, alphabet='eol')]
        self._parts = ps
        return ps

    def replay_known(self, k):
        return native_differs(self, k['case']) is True

    def assumptions(self):
        return ['LSP well-formedness: start <= end for every ranged event',
                'a column never points between the two UTF-16 units of one supplementary-plane character (LSP leaves that undefined); such paths are excluded and counted',
                'document and replacement lengths are bounded as listed per part; longer texts are outside the claim',
                'std models (Vec, String, str, char, Option, RwLock as transparent cell) as listed under stubs',
                'Source is built with only its contents field populated (file name / id are not read by Source::change)']


if __name__ == '__main__':
    run_check(C10)
