"""C19  Unused-declaration lint is exact where usage is known.

Real code (MIR): Project::analyse = parser + analyser + UnusedDeclarationsLinter (DeadCodeSearcher over primary + secondary units,
can_be_locally_unused) on generated design units.  The generator places, per path, for every local declaration of a catalogue either no
reference or exactly one reference at one of several syntactic positions; the oracle is the construction itself:
reported == { eligible declarations without a reference }, each at its declaring identifier; ineligible ones (label, loop parameter,
record element, enumeration literal, package-header item, component port, formal of a subprogram declaration, design units) never;
a subprogram whose declaration is referenced does not get its body reported; nothing for a third-party library.
"""
from .queries import *

HEAD = """entity leaf19 is
  port (a : in bit := '0');
end entity;

architecture la of leaf19 is
  signal z : bit;
begin
  z <= a;
end architecture;

package pkg19 is
  constant pc : natural := 2;
  function pf(x : bit) return bit;
end package;

package body pkg19 is
  function pf(x : bit) return bit is
  begin
    return x;
  end function;
end package body;

entity e19 is
end entity;

architecture a19 of e19 is
  type rec_t is record
    fld : bit;
  end record;
  signal keep_r : rec_t;
  signal k1, k2, k3 : bit;
  signal kb : boolean;
  signal kn : natural;
  attribute mark : natural;
  attribute mark of k1 : signal is 0;
  function f2 (x : bit) return bit;
  function f2 (x : bit) return bit is
  begin
    return not x;
  end function;
"""
# (name, declaration text with the declaring identifier marked by @, [(region, reference text)])   regions: decl / conc / seq
CATALOGUE = [
    ('s1', "  signal @s1 : bit;\n", [('conc', "  k1 <= s1;\n"), ('conc', "  s1 <= '1';\n"), ('conc', "  kb <= s1'event;\n"),
                                     ('conc', "  u1 : entity work.leaf19 port map (a => s1);\n"), ('seq', "    va := s1;\n"), ('conc', "  sp : process (s1)\n  begin\n  end process;\n")]),
    ('c1', "  constant @c1 : natural := 1;\n", [('conc', "  kn <= c1;\n"), ('conc', "  g1 : if c1 = 1 generate\n  begin\n  end generate;\n"), ('seq', "    if c1 = 0 then\n      null;\n    end if;\n"),
                                                [('decl', "  signal vv : bit_vector(c1 downto 0);\n"), ('conc', "  vv <= (others => '0');\n")],
                                                ('conc', "  cg : case c1 generate\n    when 0 =>\n      k3 <= '0';\n    when others =>\n      k3 <= '1';\n  end generate;\n"),
                                                ('conc', "  fg : for gi in 0 to c1 generate\n  begin\n  end generate;\n"),
                                                ('decl', "  attribute mark of keep_r : signal is c1;\n"), ('decl', "  attribute mark of all : signal is c1;\n"),
                                                ('seq', "    while va = '1' and c1 = 0 loop\n      null;\n    end loop;\n"),
                                                ('conc', "  u2 : entity work.leaf19 port map (a => k1) ;\n  kn <= natural'(c1);\n")]),
    ('t1', "  type @t1 is (e1, e2);\n", [('conc', "  kb <= t1'(e1) = e1;\n"), ('seq', "    if t1'pos(e1) = 0 then\n      null;\n    end if;\n")]),
    ('st1', "  subtype @st1 is natural range 0 to 3;\n", [('conc', "  kn <= st1'high;\n"), ('conc', "  blk : block\n    signal q : st1;\n  begin\n    q <= 0;\n  end block;\n")]),
    ('f1', "  function @f1 (x : bit) return bit is\n  begin\n    return x;\n  end function;\n", [('conc', "  k2 <= f1('0');\n"), ('seq', "    va := f1('1');\n")]),
    ('p1', "  procedure @p1 (x : in bit) is\n  begin\n    if x = '1' then\n      null;\n    end if;\n  end procedure;\n", [('conc', "  p1('0');\n"), ('seq', "    p1('1');\n")]),
    ('a1', "  alias @a1 : bit is keep_r.fld;\n", [('conc', "  k3 <= a1;\n"), ('seq', "    va := a1;\n")]),
    ('comp1', "  component @comp1 is\n    port (cp : in bit);\n  end component;\n", [('conc', "  ci : comp1 port map (cp => '0');\n")]),
    ('at1', "  attribute @at1 : string;\n", [('decl', "  attribute at1 of keep_r : signal is \"x\";\n")]),
    ('v1', None, [('seq', "    v1 := '0';\n"), ('seq', "    va := v1;\n")]),                 # declared in the process: "    variable @v1 : bit;\n"
]
MID = """begin
  keep_r.fld <= '0';
  k3 <= '0';
  kb <= false;
  k1 <= f2(keep_r.fld);
  kn <= work.pkg19.pc;
  k2 <= work.pkg19.pf('0');
"""
PROC = """  lbl : process
    variable va : bit;
    variable @v1 : bit;
  begin
    va := '0';
    for i in 0 to 1 loop
      null;
    end loop;
"""
TAIL = """    wait;
  end process;
end architecture;
"""


def build_design(options):
    """options[i] = None (no reference) or the index of the reference site of catalogue entry i -> (text, {name: (line, col)})"""
    decl = ''; extra_decl = ''; conc = ''; seq = ''
    for (name, dtext, sites), o in zip(CATALOGUE, options):
        if dtext: decl += dtext
        if o is not None:
            for region, t in (sites[o] if isinstance(sites[o], list) else [sites[o]]):
                if region == 'decl': extra_decl += t
                elif region == 'conc': conc += t
                else: seq += t
    text = HEAD + decl + extra_decl + MID + conc + PROC + seq + TAIL
    pos = {}
    clean = ''
    for ch in text:
        if ch == '@':
            line = clean.count('\n'); col = len(clean) - (clean.rfind('\n') + 1)
            m = re.match(r'\w+', text[text.index('@', len(clean) + len(pos)) + 1:])
            pos[m.group(0)] = (line, col, len(m.group(0)))
        else: clean += ch
    return clean, pos


class Generated(DesignPart):
    PATTERNS = {0: lambda i: True, 1: lambda i: False, 2: lambda i: i % 2 == 0, 3: lambda i: i % 2 == 1, 4: lambda i: i % 3 == 0, 5: lambda i: i % 3 != 0, 6: lambda i: i < 5, 7: lambda i: i >= 5}

    def __init__(self, name, third_party=False, required=(), time_cap=None, patterns=4):
        self.name, self.third_party, self.npat = name, third_party, patterns
        self.required_classes = required; self.time_cap = time_cap
        self.designs = []
        self.bounds = dict(catalogue=[c[0] for c in CATALOGUE], references='per path: one focus declaration with every reference position of its list or none; the others all referenced / none / alternating (4 patterns quick, 8 thorough)',
                           ineligible='label, loop parameter, record element, enumeration literals, package-header constant and function, component port, design units, subprogram declaration + body with the declaration referenced',
                           library='lib0 (reported)' if not third_party else 'lib2 configured is_third_party (nothing reported)')

    def options(self, ctx, inp):
        f = choose(ctx, inp, 'focus', len(CATALOGUE))
        o = choose(ctx, inp, 'site', len(CATALOGUE[f][2]) + 1)
        pat = choose(ctx, inp, 'others', self.npat)
        opts = []
        for i, c in enumerate(CATALOGUE):
            if i == f: opts.append(None if o == 0 else o - 1)
            else:
                used = self.PATTERNS[pat](i)
                opts.append(0 if used else None)
        return opts

    def bases(self, chk): return None

    def run(self, chk, ctx, inp, verify=True):
        kit = chk.pkit
        opts = self.options(ctx, inp)
        text, pos = build_design(opts)
        lib = 'lib2' if self.third_party else 'lib0'
        pr = kit.new_project(ctx, copy=not inp.symbolic)
        fname = '/p/gen19.vhd'
        try:
            pr.set_text(ctx, fname, [BV(ord(c), 32) for c in text]); pr.map_file(ctx, fname, lib); pr.update(ctx, fname)
            dobs = [obs_show(kit.diag_obs(d)) for d in pr.analyse(ctx)]
        except Panic as p:
            raise Violation('analysis or the lint panics: ' + str(p), 'panic')
        if not verify: return dobs
        other = [d for d in dobs if d[1] != 'Unused' and 'Sensitivity' not in d[1]]
        dobs = [d for d in dobs if d[1] == 'Unused']
        if other: raise Unsupported(f'the generated unit is not diagnostic-free (generator defect): {other[:3]}')
        got = sorted(d[0][1:] for d in dobs)
        want = [] if self.third_party else sorted((pos[c[0]][0], pos[c[0]][1], pos[c[0]][0], pos[c[0]][1] + pos[c[0]][2]) for c, o in zip(CATALOGUE, opts) if o is None)
        ctx.obligations += 1
        if got != want:
            names = {(v[0], v[1]): k for k, v in pos.items()}
            extra = [names.get((g[0], g[1]), g) for g in got if g not in want]; miss = [names.get((g[0], g[1]), g) for g in want if g not in got]
            raise Violation(f'unused-declaration lint: reported but referenced or ineligible: {extra}; unreferenced but not reported: {miss}; references placed: ' +
                            str({c[0]: (None if o is None else str(c[2][o])[:50]) for c, o in zip(CATALOGUE, opts)}), 'lint')
        ctx.cover('compared')
        if want: ctx.cover('something unused')
        if any(o is not None for o in opts): ctx.cover('something referenced')
        return None

    def harness(self, chk):
        def h(ctx):
            ctx.step_limit = max(ctx.step_limit, 60_000_000)
            self.run(chk, ctx, SymInputs(ctx))
        return h

    def opts_of(self, w):
        f = w.get('focus', 0) % len(CATALOGUE); o = w.get('site', 0) % (len(CATALOGUE[f][2]) + 1); pat = w.get('others', 0) % self.npat
        return [(None if o == 0 else o - 1) if i == f else (0 if self.PATTERNS[pat](i) else None) for i in range(len(CATALOGUE))]

    def case_of(self, w):
        text, pos = build_design(self.opts_of(w))
        lib = 'lib2' if self.third_party else 'lib0'
        D = dict(name='generated', files=[(lib, 'gen19.vhd', text)])
        c = self.native_case(D, {})
        if self.third_party: c['third_party'] = ['lib2']
        return c

    def replay_case(self, chk, w, v):
        opts = self.opts_of(w); text, pos = build_design(opts)
        want = [] if self.third_party else sorted([pos[c[0]][0], pos[c[0]][1], pos[c[0]][0], pos[c[0]][1] + pos[c[0]][2]] for c, o in zip(CATALOGUE, opts) if o is None)
        for rel in (False, True):
            out = chk.native.run('analyse', [self.case_of(w)], release=rel)[0]
            if 'panic' in out: return True
            if 'diagnostics' not in out: return f'native replay failed: {out}'
            if any(d[1] != 'Unused' and 'Sensitivity' not in d[1] for d in out['diagnostics']): return 'generated unit not diagnostic-free natively'
            if sorted(d[0][1:] for d in out['diagnostics'] if d[1] == 'Unused') != want: return True
        return False

    def translator_validation(self, chk):
        rng = chk.rng; cases = [{'focus': rng.randrange(20), 'site': rng.randrange(8), 'others': rng.randrange(4)} for _ in range(6)]
        outs = chk.native.run('analyse', [self.case_of(w) for w in cases])
        bad = []
        for w, out in zip(cases, outs):
            ctx = Ctx(); ctx.step_limit = 10 ** 9
            mine = sorted([list(d[0]), d[1], d[2]] for d in self.run(chk, ctx, ConcInputs(ctx, w), verify=False))
            theirs = sorted([['/p/' + d[0][0].rsplit('/', 1)[-1]] + d[0][1:], d[1], d[2]] for d in out['diagnostics']) if 'diagnostics' in out else out
            if json.loads(json.dumps(mine)) != json.loads(json.dumps(theirs)): bad.append({'case': w, 'interpreter': mine, 'native': theirs})
        return len(cases), bad


class C19(Check):
    prop = 'C19'
    crates = (L,)

    def parts(self):
        if hasattr(self, '_parts'): return self._parts
        if not hasattr(self, 'll'): self.ll = LangLex(self)
        if not hasattr(self, 'pkit'): self.pkit = ProjectKit(self, third_party=('lib2',), log=self.log)
        np = 4 if self.tier == 'quick' else 8
        ps = [Generated('generated architecture: which declarations are reported', required=('compared', 'something unused', 'something referenced'), patterns=np),
              Generated('the same units in a third-party library: nothing is reported', third_party=True, required=('compared',), patterns=np)]
        self._parts = ps
        return ps

    def assumptions(self):
        return ['the generated family: one architecture with 10 catalogue declarations (signal, constant, enumeration type, subtype, function, procedure, alias, component, attribute, process variable) and the fixed ineligible ones; every unit analyses without other diagnostics (checked on every path)',
                'one reference per declaration at most; references inside other generated declarations (e.g. the constant in a subtype indication) count as references',
                'bundled std library; FnvHashMap modelled insertion ordered; rayon sequential']


if __name__ == '__main__':
    run_check(C19)
