"""Analysis-level parts of C13: diagnostics of the real parser + analyser + lints are insensitive to letter case and layout."""
from .queries import *


def vhdl_tokens(text):
    """[(start, end, kind)] of an ASCII design text; kind in ident / number / char / string / comment / op"""
    out = []; i = 0; n = len(text)
    ops2 = ('<=', ':=', '=>', '**', '/=', '>=', '<>', '??', '?=', '<<', '>>')
    while i < n:
        c = text[i]
        if c in ' \t\r\n': i += 1; continue
        if text.startswith('/*', i):
            j = text.find('*/', i + 2); j = n if j < 0 else j + 2
            out.append((i, j, 'comment')); i = j; continue
        if text.startswith('--', i):
            j = text.find('\n', i); j = n if j < 0 else j
            out.append((i, j, 'comment')); i = j; continue
        mb0 = re.match(r'[sSuU]?[bBoOxXdD]"[^"\n]*"', text[i:])
        if mb0:
            out.append((i, i + mb0.end(), 'string')); i += mb0.end(); continue
        if c.isalpha():
            j = i + 1
            while j < n and (text[j].isalnum() or text[j] == '_'): j += 1
            out.append((i, j, 'ident')); i = j; continue
        mb = re.match(r'\d*[sSuU]?[bBoOxXdD]"[^"\n]*"', text[i:])
        if mb:
            out.append((i, i + mb.end(), 'string')); i += mb.end(); continue
        if c.isdigit():
            j = i + 1
            while j < n and (text[j].isalnum() or text[j] in '_.#'): j += 1
            out.append((i, j, 'number')); i = j; continue
        if c == '"':
            j = i + 1
            while j < n and text[j] != '"': j += 1
            out.append((i, j + 1, 'string')); i = j + 1; continue
        if c == "'":
            prev = out[-1] if out else None
            tick = prev is not None and prev[1] == i and (prev[2] == 'ident' or text[prev[0]:prev[1]] in (')', ']'))
            if not tick and i + 2 < n and text[i + 2] == "'":
                out.append((i, i + 3, 'char')); i += 3; continue
            out.append((i, i + 1, 'op')); i += 1; continue
        if text[i:i + 2] in ops2: out.append((i, i + 2, 'op')); i += 2; continue
        out.append((i, i + 1, 'op')); i += 1
    return out


def line_col_table(text):
    """offset -> (line, col) for every offset 0..len(text) (LF / CR / CRLF terminate a line)"""
    tab = []; ln = 0; col = 0; i = 0
    while i < len(text):
        tab.append((ln, col))
        if text[i] == '\r' and i + 1 < len(text) and text[i + 1] == '\n':
            tab.append((ln, col + 1)); i += 2; ln += 1; col = 0; continue
        if text[i] in '\r\n': ln += 1; col = 0
        else: col += 1
        i += 1
    tab.append((ln, col))
    return tab


def anchor(text, toks, tab, line, col, is_end=False):
    """a position as (token index, offset inside the token) | ('gap', index of the next token) | ('eof', distance).
    A start position that coincides with a token start is that token's start; an end position that coincides with a token end is that
    token's end (adjacent tokens share the offset: `name;`)."""
    rev = {lc: o for o, lc in reversed(list(enumerate(tab)))}
    o = rev.get((line, col))
    if o is None:
        last = tab[-1]
        return ('eof', (line - last[0], col - last[1]))
    real = [(k, t) for k, t in enumerate(toks) if t[2] != 'comment']
    if is_end:
        for k, (s, e, kind) in real:
            if o == e: return ('tok', k, e - s)
    for k, (s, e, kind) in real:
        if s <= o < e: return ('tok', k, o - s)
    for k, (s, e, kind) in real:
        if o == e: return ('tok', k, e - s)
    return ('gap', sum(1 for k, (s, e, kd) in real if e <= o))


def tok_index_without_comments(toks):
    m = {}; k2 = 0
    for k, t in enumerate(toks):
        if t[2] != 'comment': m[k] = k2; k2 += 1
    return m


class AnalysisInvariance(DesignPart):
    """kind 'case': one identifier/keyword token, every letter symbolic in {lower, upper};  kind 'layout': one gap between tokens gets a
    blank (symbolic: space, tab, LF, CR), a line comment or a block comment inserted, or a line break removed"""

    def __init__(self, name, designs, kind, stride=1, offset=0, required=(), time_cap=None):
        self.name, self.designs, self.kind, self.stride, self.offset = name, designs, kind, stride, offset
        self.required_classes = required; self.time_cap = time_cap
        self.bounds = dict(designs=[d['name'] for d in designs], kind=kind, selection=f'every {stride}. token / gap of each design file',
                           case='one letter (every choice) and the last letter of the chosen basic identifier or keyword are symbolic in {lower case, upper case}; diagnostics compared with the original modulo the case of messages',
                           layout='inserted: one blank (symbolic in space, tab, LF, CR) | " -- c" + LF | "/* c */" ; or one whitespace run containing a line break replaced by a space; semantic and lint diagnostics compared token-relative, syntax errors by code and message',
                           std='bundled std library, parsed and analysed by the real code')

    def sites(self, D):
        lib, fn, text = D['files'][0]
        toks = vhdl_tokens(text)
        if self.kind == 'case' and D.get('site_lines') is not None:
            tab = line_col_table(text)
            s = []
            for ln in D['site_lines']:
                on_line = [k for k, t in enumerate(toks) if t[2] == 'ident' and tab[t[0]][0] == ln]
                s.append(on_line[1])              # `type NAME is` / `subtype NAME is` / `function NAME`: the declared name
            return toks, s
        if self.kind == 'case':
            s = [k for k, t in enumerate(toks) if t[2] == 'ident']
        else:
            s = [k for k in range(len(toks)) if toks[k][2] != 'comment']
        return toks, s[self.offset::self.stride]

    def diag_key(self, kit, d):
        o = kit.diag_obs(d)
        return o

    def run(self, chk, ctx, inp, verify=True):
        kit = chk.pkit
        di = choose(ctx, inp, 'design', len(self.designs)); D = self.designs[di]
        lib, fn, text = D['files'][0]; fname = '/p/' + fn
        toks, sites = self.sites(D)
        base = self.bases(chk)[D['name']]
        if isinstance(base, tuple): raise Violation('parsing or analysis of the design panics: ' + base[1], 'panic')
        A = [kit.diag_obs(d) for d in base.diagnostics]
        k = sites[choose(ctx, inp, 'site', len(sites))]
        s, e, _ = toks[k]
        nl_inserted = None
        if self.kind == 'case':
            chars = [BV(ord(c), 32) for c in text]
            letters = [j for j in range(s, e) if text[j].isalpha()]
            # one or two letters of the token are symbolic at a time (the tokenizer and the interner fork on every symbolic letter)
            j1 = letters[choose(ctx, inp, 'letter', len(letters))]
            pick = [j1] + ([letters[-1]] if letters[-1] != j1 else [])
            for j in pick:
                v = inp.bv(f'l{j - s}', 32)
                if inp.symbolic: ctx.assume(z3.Or(v.e == ord(text[j].lower()), v.e == ord(text[j].upper())))
                elif f'l{j - s}' not in inp.case: v = BV(ord(text[j]), 32)
                chars[j] = v
            newtext = None
        else:
            how = choose(ctx, inp, 'how', 4)
            gap_start = toks[k - 1][1] if k > 0 else 0
            if how == 0:
                b = inp.bv('blank', 32)
                if inp.symbolic: ctx.assume(z3.Or(b.e == 32, b.e == 9, b.e == 10, b.e == 13))
                chars = [BV(ord(c), 32) for c in text[:s]] + [b] + [BV(ord(c), 32) for c in text[s:]]
                nl_inserted = b
                newtext = (text[:s], text[s:])
            elif how == 1: newtext = text[:s] + ' -- c\n' + text[s:]
            elif how == 2: newtext = text[:s] + '/* c */' + text[s:]
            else:
                if '\n' not in text[gap_start:s] or any(t[2] == 'comment' and gap_start <= t[0] < s for t in toks): raise Infeasible()
                newtext = text[:gap_start] + ' ' + text[s:]
            if how != 0: chars = [BV(ord(c), 32) for c in newtext]
        if D.get('incremental'):
            # a large design (ieee): start from the loaded and analysed project and update the one file (everything that depends on it is re-analysed)
            pr = base if inp.symbolic else base.clone(ctx)
            if inp.symbolic: ctx.statics = base.statics
            try:
                pr.set_text(ctx, fname, chars); pr.update(ctx, fname)
                B = [kit.diag_obs(d) for d in pr.analyse(ctx)]
            except Panic as p:
                ctx.model(); raise Violation('parsing or analysis of the re-written design panics: ' + str(p), 'panic')
            pr = None
        else: pr = kit.new_project(ctx, copy=not inp.symbolic)
        # the iteration order of the hash maps of the analyser is an environment choice (declaration order is re-established by sorting on positions)
        if self.kind == 'layout' and inp.symbolic: ctx.hash_rev = ctx.branch(inp.bool('hash order reversed'))
        try:
            if pr is not None:
                pr.set_text(ctx, fname, chars); pr.map_file(ctx, fname, lib); pr.update(ctx, fname)
                B = [kit.diag_obs(d) for d in pr.analyse(ctx)]
        except Panic as p:
            ctx.model(); raise Violation('parsing or analysis of the re-written design panics: ' + str(p), 'panic')
        if not verify: return [obs_show(d) for d in B]
        if len(A) != len(B):
            ctx.model()
            raise Violation(f'{len(B)} diagnostics after the re-write, {len(A)} before; before={[obs_show(d)[:3] for d in A]} after={[obs_show(d)[:3] for d in B]}', 'count')
        if self.kind == 'case':
            A2 = sorted(A, key=obs_key); B2 = sorted(B, key=lambda d: obs_key((d[0], d[1])))
            A2 = sorted(A, key=lambda d: obs_key((d[0], d[1])))
            conds = []
            for a, b in zip(A2, B2):
                if obs_show(a[0]) != obs_show(b[0]) or a[1] != b[1] or len(a[2]) != len(b[2]) or len(a[3]) != len(b[3]):
                    ctx.model(); raise Violation(f'a diagnostic changed with the letter case: {obs_show(a)[:3]} -> {obs_show(b)[:3]}', 'case')
                for x, y in zip(a[2], b[2]):
                    if x.conc() and y.conc():
                        if chr(x.e).lower() != chr(y.e).lower():
                            ctx.model(); raise Violation(f'a diagnostic message changed with the letter case: {obs_show(a)[:3]} -> {obs_show(b)[:3]}', 'case')
                    else:
                        lo = lambda v: z3.If(z3.And(z3.UGE(v.z(), 65), z3.ULE(v.z(), 90)), v.z() + 32, v.z())
                        conds.append(lo(x) == lo(y))
            ctx.obligations += 1
            if conds and ctx.feasible(z3.Not(z3.And(*conds))):
                raise Violation('a diagnostic message differs (beyond letter case) for some choice of the letter cases', 'case')
            ctx.cover('compared')
            if conds: ctx.cover('quoted name re-spelled')
            if A: ctx.cover('diagnostics present')
            return None
        # layout: positions token-relative
        if nl_inserted is not None:
            c = nl_inserted
            v = ctx.concretize(c) if not c.conc() else c.e
            newtext = newtext[0] + chr(v) + newtext[1]
            if v in (10, 13): ctx.cover('line break inserted')
        tA = vhdl_tokens(text); tB = vhdl_tokens(newtext)
        mA = tok_index_without_comments(tA); mB = tok_index_without_comments(tB)
        tabA = line_col_table(text); tabB = line_col_table(newtext)
        def rel(d, tx, tk, tb, m):
            if d[1] == 'SyntaxError': return (d[1], obs_show(d[2]))
            p = obs_show(d[0])
            def an(l, c, is_end=False):
                a = anchor(tx, tk, tb, l, c, is_end)
                return ('tok', m[a[1]], a[2]) if a[0] == 'tok' else a
            return (d[1], obs_show(d[2]), an(p[1], p[2]), an(p[3], p[4], True), tuple((obs_show(r[1]),) for r in d[3]))
        RA = sorted(map(repr, (rel(d, text, tA, tabA, mA) for d in A))); RB = sorted(map(repr, (rel(d, newtext, tB, tabB, mB) for d in B)))
        ctx.obligations += 1
        if RA != RB:
            diff = [x for x in RA if x not in RB][:2], [x for x in RB if x not in RA][:2]
            ctx.model(); raise Violation(f'diagnostics differ after the re-layout (token-relative): only before={diff[0]} only after={diff[1]}', 'layout')
        ctx.cover('compared')
        if A: ctx.cover('diagnostics present')
        return None

    def harness(self, chk):
        self.bases(chk)
        def h(ctx):
            ctx.step_limit = max(ctx.step_limit, 60_000_000)
            self.run(chk, ctx, SymInputs(ctx))
        return h

    def text_of(self, w):
        D = self.designs[w.get('design', 0) % len(self.designs)]
        lib, fn, text = D['files'][0]
        toks, sites = self.sites(D)
        k = sites[w.get('site', 0) % len(sites)]; s, e, _ = toks[k]
        if self.kind == 'case':
            t = list(text)
            for j in range(s, e):
                if text[j].isalpha() and f'l{j - s}' in w: t[j] = chr(w[f'l{j - s}'])
            return D, ''.join(t)
        how = w.get('how', 0) % 4; gap_start = toks[k - 1][1] if k > 0 else 0
        if how == 0: return D, text[:s] + chr(w.get('blank', 32)) + text[s:]
        if how == 1: return D, text[:s] + ' -- c\n' + text[s:]
        if how == 2: return D, text[:s] + '/* c */' + text[s:]
        return D, text[:gap_start] + ' ' + text[s:]

    def case_of(self, w):
        D, t = self.text_of(w)
        D2 = dict(D); D2['files'] = [(D['files'][0][0], D['files'][0][1], t)] + list(D['files'][1:])
        return self.native_case(D2, {}), self.native_case(D, {})

    def replay_case(self, chk, w, v):
        after, before = self.case_of(w)
        D, newtext = self.text_of(w); text = D['files'][0][2]
        for rel_ in (False, True):
            oa, ob = chk.native.run('analyse', [before, after], release=rel_)
            if 'panic' in ob: return True
            if 'diagnostics' not in oa or 'diagnostics' not in ob: return f'native replay failed: {ob}'
            da, db = oa['diagnostics'], ob['diagnostics']
            if len(da) != len(db): return True
            if self.kind == 'case':
                ka = sorted([d[0][1:], d[1], d[2].lower()] for d in da); kb = sorted([d[0][1:], d[1], d[2].lower()] for d in db)
                if ka != kb: return True
            else:
                tA = vhdl_tokens(text); tB = vhdl_tokens(newtext); mA = tok_index_without_comments(tA); mB = tok_index_without_comments(tB)
                tabA = line_col_table(text); tabB = line_col_table(newtext)
                def rel(d, tx, tk, tb, m):
                    if d[1] == 'SyntaxError': return (d[1], d[2])
                    def an(l, c, is_end=False):
                        a = anchor(tx, tk, tb, l, c, is_end)
                        return ('tok', m[a[1]], a[2]) if a[0] == 'tok' else a
                    return (d[1], d[2], an(d[0][1], d[0][2]), an(d[0][3], d[0][4], True))
                if sorted(map(repr, (rel(d, text, tA, tabA, mA) for d in da))) != sorted(map(repr, (rel(d, newtext, tB, tabB, mB) for d in db))): return True
        return False

    def translator_validation(self, chk):
        self.bases(chk)
        rng = chk.rng; cases = []
        for di in range(len(self.designs)):
            for _ in range(3):
                w = {'design': di, 'site': rng.randrange(400), 'how': rng.randrange(4), 'blank': rng.choice([32, 9, 10, 13])}
                D = self.designs[di]; toks, sites = self.sites(D); k = sites[w['site'] % len(sites)]; s, e, _ = toks[k]; text = D['files'][0][2]
                if self.kind == 'case':
                    letters = [j for j in range(s, e) if text[j].isalpha()]
                    w['letter'] = rng.randrange(len(letters))
                    for j in {letters[w['letter']], letters[-1]}: w[f'l{j - s}'] = ord(rng.choice([text[j].lower(), text[j].upper()]))
                cases.append(w)
        outs = chk.native.run('analyse', [self.case_of(w)[0] for w in cases])
        bad = []
        for w, out in zip(cases, outs):
            ctx = Ctx(); ctx.step_limit = 10 ** 9
            try: mine = self.run(chk, ctx, ConcInputs(ctx, w), verify=False)
            except Infeasible: continue
            except Violation as vv: mine = ('panic', str(vv))
            theirs = sorted([['/p/' + d[0][0].rsplit('/', 1)[-1]] + d[0][1:], d[1], d[2]] for d in out['diagnostics']) if 'diagnostics' in out else out
            m2 = sorted([list(d[0]), d[1], d[2]] for d in mine) if not (mine and mine[0] == 'panic') else mine
            if json.loads(json.dumps(m2)) != json.loads(json.dumps(theirs)): bad.append({'case': w, 'interpreter': m2, 'native': theirs})
        return len(cases), bad
