"""C14  Published diagnostics always reflect the current analysis  --  the cache protocol, over histories.

Real code (MIR of vhdl_ls): VHDLServer::publish_diagnostics, diagnostics_by_uri, flatten_related, reload_project and the handlers
workspace_did_{change_watched,create,rename,delete}_files, initialized-style publishing; vhdl_lang Diagnostic/SrcPos/Source equality.
Environment (listed stubs): Project::analyse returns an arbitrary subset of a diagnostic palette, load_config returns an arbitrary
severity for the palette's code, Project::update_config is a no-op, the rpc channel records notifications, to_lsp_diagnostic is the
abstract rendering (diagnostic, severity).  Obligation after every step of every history: for every file, the last notification sent
for it equals the rendering of its current diagnostics under the current severity map (or nothing was ever sent and that is empty).
"""
import json, os, subprocess, tempfile, time, shutil
import z3
from ..util import Panic, Unsupported
from ..values import *
from ..interp import Violation, Ctx
from ..models import HMap, HSet, py_str, ListIt
from .common import Check, Part, SymInputs, ConcInputs, run_check
from .. import build
from .c17 import choose

LS, L = 'vhdl_ls', 'vhdl_lang'
HANDLERS = ['edit', 'watched', 'create', 'rename', 'delete']
SEVS = ['Warning', 'Error', None]
FILES = ['/proj/a.vhd', '/proj/b.vhd']


class Env:
    def __init__(self): self.sev = 'Warning'; self.diags = []; self.sent = []


def install_stubs(I):
    """harness-level environment stubs (exact keys take precedence over crate code); listed in the evidence as stubs"""
    M = {}
    def model(*names):
        def deco(f):
            for n in names: M[n] = f
            return f
        return deco

    @model('vhdl_lang::Project::analyse', 'Project::analyse')
    def _(I, ctx, proj): return VecV([clone_diag(d) for d in ctx.env.diags])
    @model('SharedRpcChannel::send_notification')
    def _(I, ctx, rpc, method, params):
        ctx.env.sent.append(params); return UNIT
    @model('to_lsp_diagnostic')
    def _(I, ctx, diag, sevmap):
        sm = deref(sevmap)
        sev = sm.fields[0].fields[0][0]
        if sev.variant == 'None': return NONE()
        return SOME(Agg('LspDiagnostic', [deref(diag).fields[1], sev.fields[0]]))
    @model('file_name_to_uri')
    def _(I, ctx, path): return Agg('Url', [StrV(list(seq_items(deref(path)) if not isinstance(deref(path), StrV) else deref(path).b))])
    @model('uri_to_file_name')
    def _(I, ctx, uri): return deref(uri).fields[0]
    @model('VHDLServer::load_config')
    def _(I, ctx, srv): return Agg('Config', [sevmap_value(I, ctx.env.sev)])
    @model('vhdl_lang::Config::severities', 'Config::severities')
    def _(I, ctx, cfg): return FieldRef(deref(cfg), 0)
    @model('vhdl_lang::Config::preferred_case', 'Config::preferred_case')
    def _(I, ctx, cfg): return NONE()
    @model('vhdl_lang::Project::update_config', 'Project::update_config')
    def _(I, ctx, *a): return UNIT
    @model('VHDLServer::message', 'VHDLServer::message_filter')
    def _(I, ctx, *a): return UNIT
    @model('<vhdl_lang::SeverityMap as PartialEq>::ne', '<SeverityMap as PartialEq>::ne')
    def _(I, ctx, a, b):
        x, y = deref(a).fields[0].fields[0][0], deref(b).fields[0].fields[0][0]
        return not (x.variant == y.variant and (x.variant == 'None' or x.fields[0].variant == y.fields[0].variant))
    @model('<lsp_types::Url as Clone>::clone', '<Url as Clone>::clone')
    def _(I, ctx, u): return deref(u)
    I.add_models(M)
    return sorted(M)


def sevmap_value(I, sev):
    s = NONE() if sev is None else SOME(I.enum_value(L, 'Severity', sev))
    return Agg('SeverityMap', [Agg('EnumMap', [[s]])])


_DIAG = {}


def make_diag(I, f):
    """Diagnostic{pos, message, related, code} for file f of the palette (built once; the code is the one palette code)"""
    src = Agg('Source', [Agg('UniqueSource', [Agg('FileId', [Agg('FilePath', [py_str(FILES[f])]), BV(300 + f, 64)]), Agg('CellLike', [None])])])
    pos = Agg('SrcPos', [src, Agg('Range', [Agg('Position', [BV(1, 32), BV(2, 32)]), Agg('Position', [BV(1, 32), BV(5, 32)])])])
    return Agg('Diagnostic', [pos, py_str(f'unused in {FILES[f]}'), VecV([]), I.enum_value(L, 'ErrorCode', 'Unused')])


def clone_diag(d):
    return Agg('Diagnostic', [d.fields[0], StrV(list(d.fields[1].b)), VecV([]), d.fields[3]])


class History(Part):
    vcap = 6

    def __init__(self, name, steps, handlers=HANDLERS, required=()):
        self.name, self.steps, self.handlers = name, steps, handlers
        self.required_classes = required
        self.bounds = dict(steps=steps, handlers=handlers, files=FILES, diagnostics='any subset of {one diagnostic in a.vhd, one in b.vhd}', severities='Warning / Error / off for the diagnostic code, chosen per reload',
                           initial='server initialised with an arbitrary severity and diagnostic set (first publication)')

    def new_server(self, chk, ctx, sev):
        info = chk.I.crates[LS]
        F = info.structs['VHDLServer']
        srv = Agg('VHDLServer', [None] * len(F))
        S = info.structs['VHDLServerSettings']
        st = Agg('VHDLServerSettings', [None] * len(S))
        st.fields[S.index('no_lint')] = False; st.fields[S.index('silent')] = True
        srv.fields[F.index('rpc')] = Agg('SharedRpcChannel', [None])
        srv.fields[F.index('settings')] = st
        srv.fields[F.index('use_external_config')] = False
        srv.fields[F.index('project')] = Agg('Project', [])
        srv.fields[F.index('diagnostic_cache')] = HMap(); srv.fields[F.index('semantic_token_cache')] = HMap()
        srv.fields[F.index('init_params')] = NONE()
        srv.fields[F.index('config_file')] = SOME(py_str('/proj/vhdl_ls.toml'))
        srv.fields[F.index('severity_map')] = sevmap_value(chk.I, sev)
        srv.fields[F.index('case_transform')] = NONE()
        srv.fields[F.index('string_matcher')] = Agg('SkimMatcherV2', [])
        return srv

    def run(self, chk, ctx, inp, verify=True):
        I = chk.I
        env = ctx.env = Env()
        palette = [make_diag(I, 0), make_diag(I, 1)]
        def pick(tag):
            return [palette[f] for f in (0, 1) if ctx.branch(inp.bool(f'{tag}d{f}'))]
        env.sev = SEVS[choose(ctx, inp, 'sev0', len(SEVS))]
        env.diags = pick('s0')
        srv = self.new_server(chk, ctx, env.sev)
        trace = []
        try:
            I.call(ctx, LS, 'VHDLServer::publish_diagnostics', [ValRef(srv)])        # what initialized_notification does
            trace.append(self.observe(env))
            if verify: self.check(ctx, env, -1, 'init')
            for s in range(self.steps):
                h = self.handlers[choose(ctx, inp, f'h{s}', len(self.handlers))]
                env.diags = pick(f's{s + 1}')
                if h == 'edit':
                    I.call(ctx, LS, 'VHDLServer::publish_diagnostics', [ValRef(srv)])  # text_document_did_change -> update_source -> publish
                else:
                    env.sev = SEVS[choose(ctx, inp, f'sev{s + 1}', len(SEVS))]
                    if h == 'watched':
                        params = Agg('DidChangeWatchedFilesParams', [VecV([Agg('FileEvent', [Agg('Url', [py_str('/proj/vhdl_ls.toml')]), Agg('FileChangeType', [BV(2, 32)])])])])
                        I.call(ctx, LS, 'VHDLServer::workspace_did_change_watched_files', [ValRef(srv), ValRef(params)])
                    else:
                        params = Agg(h.capitalize() + 'FilesParams', [VecV([])])
                        I.call(ctx, LS, f'VHDLServer::workspace_did_{h}_files', [ValRef(srv), ValRef(params)])
                    ctx.cover('project reload')
                trace.append(self.observe(env))
                if verify: self.check(ctx, env, s, h)
        except Panic as p:
            raise Violation('panic: ' + str(p), 'panic')
        ctx.cover('compared')
        return trace

    def observe(self, env):
        """client view: file -> last published list [(file of diag, severity)]"""
        last = {}
        for p in env.sent:
            uri = bytes(b.e for b in p.fields[0].fields[0].b).decode()
            last[uri] = [(bytes(b.e for b in d.fields[0].b).decode(), d.fields[1].variant) for d in seq_items(p.fields[1])]
        return last

    def check(self, ctx, env, s, h):
        last = self.observe(env)
        for f, fname in enumerate(FILES):
            cur = [d for d in env.diags if bytes(b.e for b in d.fields[1].b).decode().endswith(fname)]
            want = [(f'unused in {fname}', env.sev)] * len(cur) if env.sev is not None else []
            got = last.get(fname)
            if got is None:
                if want: raise Violation(f'step {s} ({h}): {fname} has {want} but nothing was ever published for it', 'stale')
            elif got != want:
                raise Violation(f'step {s} ({h}): client shows {got} for {fname}, current analysis + severities give {want}', 'stale')
        if any(last.values()): ctx.cover('non-empty publication')

    def harness(self, chk):
        def h(ctx): self.run(chk, ctx, SymInputs(ctx))
        return h

    def case_of(self, w):
        steps = [{'handler': 'init', 'sev': SEVS[w.get('sev0', 0) % 3], 'diags': [bool(w.get('s0d0')), bool(w.get('s0d1'))]}]
        for s in range(self.steps):
            h = self.handlers[w.get(f'h{s}', 0) % len(self.handlers)]
            steps.append({'handler': h, 'sev': SEVS[w.get(f'sev{s + 1}', 0) % 3] if h != 'edit' else None, 'diags': [bool(w.get(f's{s + 1}d0')), bool(w.get(f's{s + 1}d1'))]})
        return {'steps': steps}

    def replay_case(self, chk, w, v):
        return lsp_replay(self.case_of(w))


# ---------------------------------------------------------------- end-to-end replay: the real vhdl_ls binary over stdio
CLEAN = 'entity ent_{n} is\nend entity;\n\narchitecture a of ent_{n} is\nbegin\nend architecture;\n'
UNUSED = 'entity ent_{n} is\nend entity;\n\narchitecture a of ent_{n} is\n  signal unused_sig : bit;\nbegin\nend architecture;\n'


class LspClient:
    def __init__(self, binary, root):
        self.p = subprocess.Popen([binary, '--silent', '--libraries', os.path.join(build.REPO, 'vhdl_libraries')], stdin=subprocess.PIPE, stdout=subprocess.PIPE,
                                  stderr=subprocess.DEVNULL, cwd=root, env=dict(os.environ, HOME=root))
        self.id = 0; self.last = {}
        self.request('initialize', {'processId': None, 'rootUri': 'file://' + root, 'capabilities': {}})
        self.notify('initialized', {})
        self.quiesce()

    def send(self, m):
        b = json.dumps(m).encode()
        self.p.stdin.write(b'Content-Length: %d\r\n\r\n' % len(b) + b); self.p.stdin.flush()

    def read(self):
        n = None
        while True:
            line = self.p.stdout.readline()
            if not line: raise RuntimeError('server closed its stdout')
            line = line.strip()
            if not line: break
            if line.lower().startswith(b'content-length:'): n = int(line.split(b':')[1])
        return json.loads(self.p.stdout.read(n))

    def notify(self, method, params): self.send({'jsonrpc': '2.0', 'method': method, 'params': params})

    def request(self, method, params):
        self.id += 1
        self.send({'jsonrpc': '2.0', 'id': self.id, 'method': method, 'params': params})
        while True:
            m = self.read()
            if 'method' not in m and m.get('id') == self.id: return m
            if m.get('method') == 'textDocument/publishDiagnostics':
                self.last[m['params']['uri']] = [(d['message'], d.get('severity')) for d in m['params']['diagnostics']]

    def quiesce(self): self.request('workspace/symbol', {'query': 'no_such_symbol_zzzz'})

    def shown(self): return {u: sorted(v) for u, v in self.last.items() if v}

    def stop(self):
        try:
            self.request('shutdown', None); self.notify('exit', None); self.p.wait(timeout=5)
        except Exception:
            self.p.kill()


def lsp_binary():
    tgt = os.path.join(build.BUILD, 'native-target')
    p = subprocess.run(['cargo', 'build', '--offline', '-p', 'vhdl_ls', '--bin', 'vhdl_ls'], cwd=build.REPO, env=dict(build.ENV, CARGO_TARGET_DIR=tgt),
                       stdout=subprocess.PIPE, stderr=subprocess.STDOUT)
    if p.returncode != 0: raise RuntimeError('vhdl_ls build failed: ' + p.stdout.decode()[-800:])
    return os.path.join(tgt, 'debug', 'vhdl_ls')


def lsp_replay(case):
    """True: after some step the client view of the incremental session differs from a freshly started server on the same files;
    False: never differs."""
    binary = lsp_binary()
    root = tempfile.mkdtemp(prefix='c14-', dir=os.path.join(build.BUILD, 'scratch') if os.path.isdir(os.path.join(build.BUILD, 'scratch')) else None)
    os.makedirs(root, exist_ok=True)
    names = ['a.vhd', 'b.vhd']
    def write_state(sev, diags):
        for n, (fn, d) in enumerate(zip(names, diags)):
            open(os.path.join(root, fn), 'w').write((UNUSED if d else CLEAN).format(n=n))
        if sev is not None or True:
            s = {'Warning': "'warning'", 'Error': "'error'", None: 'false'}[sev]
            open(os.path.join(root, 'vhdl_ls.toml'), 'w').write(f"[libraries]\nlib.files = ['a.vhd', 'b.vhd']\n[lint]\nunused = {s}\n")
    try:
        steps = case['steps']
        sev = steps[0]['sev']
        write_state(sev, steps[0]['diags'])
        c = LspClient(binary, root)
        differs = False
        for st in steps[1:]:
            if st['handler'] == 'edit':
                write_state(sev, st['diags'])
                for n, (fn, d) in enumerate(zip(names, st['diags'])):
                    c.notify('textDocument/didChange', {'textDocument': {'uri': 'file://' + os.path.join(root, fn), 'version': 2},
                                                         'contentChanges': [{'text': (UNUSED if d else CLEAN).format(n=n)}]})
            else:
                sev = st['sev']
                write_state(sev, st['diags'])
                if st['handler'] == 'watched':
                    c.notify('workspace/didChangeWatchedFiles', {'changes': [{'uri': 'file://' + os.path.join(root, 'vhdl_ls.toml'), 'type': 2}]})
                else:
                    meth = {'create': 'workspace/didCreateFiles', 'rename': 'workspace/didRenameFiles', 'delete': 'workspace/didDeleteFiles'}[st['handler']]
                    c.notify(meth, {'files': []})
            c.quiesce()
            fresh = LspClient(binary, root)
            a, b = c.shown(), fresh.shown()
            fresh.stop()
            if a != b: differs = True; break
        c.stop()
        return differs
    finally:
        shutil.rmtree(root, ignore_errors=True)


class C14(Check):
    prop = 'C14'
    crates = (LS, L)

    def parts(self):
        if hasattr(self, '_parts'): return self._parts
        self.stub_names = install_stubs(self.I)
        req = ('compared', 'project reload', 'non-empty publication')
        if self.tier == 'quick':
            ps = [History('histories of 2 steps', 2, required=req)]
        else:
            ps = [History('histories of 2 steps', 2, required=req), History('histories of 3 steps (edit / watched / create)', 3, handlers=['edit', 'watched', 'create'], required=req)]
        self._parts = ps
        return ps

    def extra_evidence(self):
        return {'environment_stubs': getattr(self, 'stub_names', [])}

    def assumptions(self):
        return ['analysis is a nondeterministic environment: Project::analyse returns any subset of a 2-diagnostic palette (one per file, one error code) at every step',
                'load_config returns any severity (warning/error/off) for that code; Project::update_config is a no-op; to_lsp_diagnostic is abstracted to (message, severity); URL <-> file name conversions are injective',
                'client capability relatedInformation absent (flatten_related runs); settings.no_lint false; update_config / file watching / did_open for non-project files are outside',
                'counterexamples are replayed end to end against the real vhdl_ls binary over stdio and compared with a freshly started server']


if __name__ == '__main__':
    run_check(C14)
