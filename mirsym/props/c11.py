"""C11  Token positions are exact UTF-16 coordinates of their lexemes (vhdl_lang front end).

Real code (MIR): Contents::from_str/split_lines, ContentReader::*, Position::*, char_to_latin1, Latin1String::*, every
lexing function of tokenizer.rs, Tokenizer::{new,pop,pop_raw,parse_token}, SymbolTable, Symbols::from_standard.
Oracle: independent position layout (lines at LF/CR/CRLF, UTF-16 columns) + re-lexing of the slice with the real tokenizer.
"""
import json
import z3
from ..util import Panic, Unsupported
from ..values import *
from ..interp import Violation, Ctx
from ..models import values_eq, utf8_encode, utf8_width, decode_all
from .common import Check, Part, SymInputs, ConcInputs, run_check
from .lang_lex import LangLex, Layout, pos_le, pos_lt, L
from .c10 import normalise
from .c17 import choose
from . import corpus


def kind_name(k):
    return k.variant


class Stream(Part):
    vcap = 8

    def __init__(self, name, N=None, skeletons=None, nholes=1, required=(), time_cap=None, relex=True):
        self.name, self.N, self.skeletons, self.nholes = name, N, skeletons, nholes
        self.required_classes = required; self.time_cap = time_cap; self.relex = relex
        if skeletons is None:
            self.bounds = dict(input_chars=N, alphabet='all Unicode scalar values', relex=relex)
        else:
            self.bounds = dict(skeletons=len(skeletons), max_len=max(len(x) for x in skeletons), symbolic_chars_per_run=nholes,
                               rule=f'every skeleton x every window of {nholes} adjacent position(s) replaced by fully symbolic Unicode scalar values',
                               first_skeletons=[x.decode('latin-1') for x in skeletons[:8]], relex=relex)

    def input(self, ctx, inp):
        if self.skeletons is None:
            return [inp.char(f'c{i}') for i in range(self.N)]
        k = choose(ctx, inp, 'sk', len(self.skeletons))
        sk = self.skeletons[k]
        h = choose(ctx, inp, 'hole', max(1, len(sk) - self.nholes + 1))
        holes = range(h, min(len(sk), h + self.nholes))
        return [inp.char(f'c{i}') if i in holes else BV(sk[i], 32) for i in range(len(sk))]

    def case_of(self, w):
        if self.skeletons is None: return {'text': [w.get(f'c{i}', 0) for i in range(self.N)]}
        sk = self.skeletons[w.get('sk', 0) % len(self.skeletons)]
        h = w.get('hole', 0) % max(1, len(sk) - self.nholes + 1)
        holes = range(h, min(len(sk), h + self.nholes))
        return {'text': [w.get(f'c{i}', 0) if i in holes else sk[i] for i in range(len(sk))]}

    # ------------------------------------------------------------------
    def run(self, chk, ctx, inp, verify=True):
        ll = chk.ll
        chars = self.input(ctx, inp)
        symbols = ll.fresh_symbols()
        source, contents = ll.make_source(ctx, chars)
        tk = ll.make_tokenizer(ctx, symbols, source, contents)
        lay = Layout(ctx, chars)
        n = len(chars)

        def byte_offset(i, ln):
            s = lay.lines[ln][0]
            return sum(utf8_width(ctx, chars[j]) for j in range(s, i))

        def on_pop(ev, state):
            if not verify: return
            line, col, idx = state
            ln = ctx.concretize(line)
            i = lay.index_of(ctx, line, col)
            if i is None or ln >= len(lay.lines) + 1:
                raise Violation('reader position is not the position of a character boundary', 'lockstep')
            if ln < len(lay.lines):
                want = byte_offset(i, ln)
                ctx.obligations += 1
                if ctx.feasible(b_not(bv_is(idx, want))):
                    raise Violation(f'ReaderState.idx out of step with pos: byte offset {want} expected', 'lockstep')

        events = ll.pop_all(ctx, tk, n, on_pop)
        toks = []
        prev_end = 0
        summary = []
        for kind, ev in events:
            if kind == 'err':
                ctx.cover('lexical error')
                s, e = ll.diag_range(ev)
                if verify:
                    si, ei = lay.index_of(ctx, s.fields[0], s.fields[1]), lay.index_of(ctx, e.fields[0], e.fields[1])
                    if si is None or ei is None: raise Violation('diagnostic range is not made of valid positions of the document', 'diag-range')
                    if si > ei: raise Violation('diagnostic range is not well ordered', 'diag-range')
                summary.append(('err',))
                continue
            t = ll.tok(ev)
            si, ei = lay.index_of(ctx, t['start'].fields[0], t['start'].fields[1]), lay.index_of(ctx, t['end'].fields[0], t['end'].fields[1])
            summary.append((kind_name(t['kind']), si, ei))
            if not verify: continue
            if si is None or ei is None:
                raise Violation(f'token {kind_name(t["kind"])}: start/end is not the position of a character boundary', 'position')
            if not si < ei: raise Violation(f'token {kind_name(t["kind"])}: empty or inverted range', 'position')
            if si < prev_end: raise Violation(f'token {kind_name(t["kind"])} overlaps its predecessor', 'order')
            leading, trailing = ll.comments_of(t)
            lo = prev_end
            for c in leading:
                cs, ce = self.comment_span(ctx, ll, lay, c, chars)
                if cs < lo or ce > si: raise Violation('leading comment is not between the neighbouring tokens', 'comment')
                lo = ce
                ctx.cover('comment attached')
            prev_end = ei
            if trailing is not None:
                cs, ce = self.comment_span(ctx, ll, lay, trailing, chars)
                if cs < ei: raise Violation('trailing comment starts before its token ends', 'comment')
                if any(ctx.branch(b_or(bv_is(chars[j], 10), bv_is(chars[j], 13))) for j in range(ei, cs)):
                    raise Violation('trailing comment is not on the line of its token', 'comment')
                prev_end = ce
                ctx.cover('comment attached')
            toks.append((t, si, ei))
            if t['value'].variant == 'BitString':
                ctx.cover('bit string literal')
                txt = seq_items(t['value'].fields[0].fields[0])
                if len(txt) != ei - si: raise Violation('bit string text length differs from its lexeme', 'bitstring')
                neq = False
                for a, c in zip(txt, chars[si:ei]):
                    neq = b_or(neq, b_not(bv_eq(BV(a.e, 32) if a.conc() else BV(z3.ZeroExt(24, a.e), 32), c)))
                ctx.obligations += 1
                if neq is not False and ctx.feasible(neq): raise Violation('bit string text differs from its lexeme', 'bitstring')
            if any(bv_is(c, 0x10000) is not False and (not c.conc()) for c in chars[:si]) or any(c.conc() and c.e > 0xFFFF for c in chars[:si]):
                pass
        if verify and self.relex:
            for t, si, ei in toks:
                self.relex_slice(chk, ctx, ll, symbols, chars[si:ei], t)
        if toks: ctx.cover('token produced')
        if len(lay.lines) > 1 and toks: ctx.cover('multi-line input with tokens')
        ctx.cover('compared')
        return summary

    def comment_span(self, ctx, ll, lay, c, chars):
        F = ll.S['Comment']
        rng = c.fields[F.index('range')]
        s, e = rng.fields
        si, ei = lay.index_of(ctx, s.fields[0], s.fields[1]), lay.index_of(ctx, e.fields[0], e.fields[1])
        if si is None or ei is None or si > ei: raise Violation('comment range is not made of valid positions', 'comment')
        ml = c.fields[F.index('multi_line')]
        val = decode_all(ctx, c.fields[F.index('value')])
        pre = [45, 45] if ml is False else [47, 42]
        post = [] if ml is False else [42, 47]
        want = [BV(x, 32) for x in pre] + val + [BV(x, 32) for x in post]
        got = normalise(ctx, chars[si:ei])          # the document stores CR / CRLF as LF; comment values hold the stored text
        if len(want) != len(got): raise Violation('comment text length differs from its range', 'comment')
        neq = False
        for a, b in zip(want, got): neq = b_or(neq, b_not(bv_eq(a, b)))
        ctx.obligations += 1
        if neq is not False and ctx.feasible(neq): raise Violation('comment text differs from the source between its range', 'comment')
        return si, ei

    def relex_slice(self, chk, ctx, ll, symbols, sl, t):
        source, contents = ll.make_source(ctx, sl)
        tk = ll.make_tokenizer(ctx, symbols, source, contents)
        evs = ll.pop_all(ctx, tk, len(sl))
        kn = kind_name(t['kind'])
        tks = [e for e in evs if e[0] == 'tok']
        if len(tks) != 1:
            raise Violation(f'slice of token {kn} re-lexes into {[e[0] if e[0] == "err" else kind_name(ll.tok(e[1])["kind"]) for e in evs]}', 'relex')
        t2 = ll.tok(tks[0][1])
        if kind_name(t2['kind']) != kn: raise Violation(f'slice of token {kn} re-lexes as {kind_name(t2["kind"])}', 'relex')
        lay2 = Layout(ctx, sl)
        s2, e2 = lay2.index_of(ctx, t2['start'].fields[0], t2['start'].fields[1]), lay2.index_of(ctx, t2['end'].fields[0], t2['end'].fields[1])
        if s2 != 0 or e2 != len(sl): raise Violation(f'slice of token {kn} is not consumed as a whole by re-lexing', 'relex')
        eq = values_eq(chk.I, ctx, t['value'], t2['value'])
        ctx.obligations += 1
        if eq is not True and ctx.feasible(b_not(eq)): raise Violation(f'value of token {kn} differs when its slice is re-lexed', 'relex')

    def harness(self, chk):
        def h(ctx): self.run(chk, ctx, SymInputs(ctx))
        return h

    # ---- native
    def replay_case(self, chk, w, v):
        return native_violates(chk, self.case_of(w))

    def translator_validation(self, chk):
        rng = chk.rng
        alpha = [ord(c) for c in 'ab1x_ \t\n\r"\'#:.-/*\\eE+'] + [0xE9, 0x20AC, 0x1F4A3, 0xA0]
        cases = []
        for _ in range(30 if chk.tier == 'quick' else 100):
            w = {f'c{i}': rng.choice(alpha) for i in range(self.N or 24)}
            if self.skeletons is not None:
                w['sk'] = rng.randrange(len(self.skeletons)); w['hole'] = rng.randrange(24)
                w['hole'] %= max(1, len(self.skeletons[w['sk']]) - self.nholes + 1)
            cases.append(w)
        outs = chk.native.run('lex', [self.case_of(w) for w in cases])
        bad = []
        for w, out in zip(cases, outs):
            ctx = Ctx()
            try:
                summ = self.run(chk, ctx, ConcInputs(ctx, w), verify=False)
                mine = [s[0] for s in summ if s[0] != 'err']
                nerr = sum(1 for s in summ if s[0] == 'err')
            except Violation as vv:
                bad.append({'case': self.case_of(w), 'interpreter': str(vv), 'native': out}); continue
            theirs = [t['kind'] for t in out.get('tokens', [])]
            if mine != theirs or nerr != len(out.get('diagnostics', [])):
                bad.append({'case': self.case_of(w), 'interpreter': {'kinds': mine, 'errors': nerr}, 'native': out})
        return len(cases), bad


class LatinFile(Part):
    """files on disk are decoded as ISO-8859-1, one column per byte: bytes (symbolic) -> real Contents::from_latin1_file with the
    file system as environment -> the stored text has exactly one char per byte, with the byte's value"""
    vcap = 6

    def __init__(self, name, N):
        self.name, self.N = name, N
        self.bounds = dict(file_bytes=N, alphabet='all 256 byte values')
        self.required_classes = ('compared', 'non-ASCII byte')

    def run(self, chk, ctx, inp, verify=True):
        data = [inp.byte(f'b{i}') for i in range(self.N)]
        ctx.env_file_bytes = data
        try:
            r = chk.I.call(ctx, L, 'Contents::from_latin1_file', [ValRef(StrV([]))])
        except Panic as p:
            raise Violation('panic: ' + str(p), 'panic')
        if r.variant != 'Ok': raise Violation('from_latin1_file failed on a readable file', 'io')
        cont = r.fields[0]
        lines = []
        i = 0
        while True:
            o = chk.I.call(ctx, L, 'Contents::get_line', [ValRef(cont), BV(i, 64)])
            if o.variant == 'None': break
            lines.append(decode_all(ctx, o.fields[0])); i += 1
        got = [c for l in lines for c in l]
        if not verify: return lines
        want = normalise(ctx, [BV(b.e, 32) if b.conc() else BV(z3.ZeroExt(24, b.e), 32) for b in data])
        if any(ctx.branch(z3.UGE(b.z(), 0x80)) for b in data): ctx.cover('non-ASCII byte')
        if len(got) != len(want): raise Violation(f'file of {self.N} bytes decoded to {len(got)} chars, expected {len(want)} (one per byte)', 'latin1')
        neq = False
        for a, b in zip(got, want): neq = b_or(neq, b_not(bv_eq(a, b)))
        ctx.obligations += 1
        if neq is not False and ctx.feasible(neq):
            ctx.solver.add(neq); raise Violation('decoded text is not the ISO-8859-1 reading of the file bytes', 'latin1')
        ctx.cover('compared')
        return lines

    def harness(self, chk):
        def h(ctx): self.run(chk, ctx, SymInputs(ctx))
        return h

    def case_of(self, w): return {'bytes': [w.get(f'b{i}', 0) for i in range(self.N)]}

    def replay_case(self, chk, w, v):
        case = self.case_of(w)
        txt = ''.join(chr(b) for b in case['bytes']).replace('\r\n', '\n').replace('\r', '\n')
        for rel in (False, True):
            out = chk.native.run('latin1file', [case], release=rel)[0]
            if 'lines' not in out: return True if 'panic' in out else f'native replay failed: {out}'
            if [c for l in out['lines'] for c in l] != [ord(c) for c in txt]: return True
        return False

    def translator_validation(self, chk):
        rng = chk.rng; cases = []
        for _ in range(20):
            cases.append({f'b{i}': rng.choice([97, 10, 13, 0xC3, 0xA4, 0xE9, 0xFF, 0x80, 32]) for i in range(self.N)})
        outs = chk.native.run('latin1file', [self.case_of(w) for w in cases])
        bad = []
        for w, out in zip(cases, outs):
            ctx = Ctx()
            lines = self.run(chk, ctx, ConcInputs(ctx, w), verify=False)
            mine = [[c.e for c in l] for l in lines]
            if mine != out.get('lines'): bad.append({'case': self.case_of(w), 'interpreter': mine, 'native': out})
        return len(cases), bad


def utf16_layout(text):
    """python reference of the position layout for native replay: (line, col) -> char index"""
    at = {}; ln = 0; u = 0; i = 0; n = len(text)
    while i < n:
        at[(ln, u)] = i
        c = text[i]
        if c == 10: ln += 1; u = 0; i += 1
        elif c == 13:
            i += 1
            if i < n and text[i] == 10:
                i += 1
            ln += 1; u = 0
        else:
            u += 2 if c > 0xFFFF else 1; i += 1
    at[(ln, u)] = n
    return at


def native_violates(chk, case):
    """replay through the native tokenizer: True if any C11 obligation fails"""
    text = case['text']
    at = utf16_layout(text)
    for rel in (False, True):
        out = chk.native.run('lex', [case], release=rel)[0]
        if 'panic' in out: return True
        if 'tokens' not in out: return f'native replay failed: {out}'
        prev = 0
        for t in out['tokens']:
            s, e = at.get(tuple(t['start'])), at.get(tuple(t['end']))
            if s is None or e is None or not s < e or s < prev: return True
            prev = e
            for c in t['leading'] + ([t['trailing']] if t['trailing'] else []):
                cs, ce = at.get(tuple(c['start'])), at.get(tuple(c['end']))
                if cs is None or ce is None or cs > ce: return True
                body = ''.join(chr(x) for x in text[cs:ce]).replace('\r\n', '\n').replace('\r', '\n')
                want = ('/*' + c['value'] + '*/') if c['multi_line'] else ('--' + c['value'])
                if body != want: return True
            if t['trailing']: prev = at[tuple(t['trailing']['end'])]
            sub = chk.native.run('lex', [{'text': text[s:e]}], release=rel)[0]
            if 'tokens' not in sub or len(sub['tokens']) != 1: return True
            t2 = sub['tokens'][0]
            norm = lambda v: __import__('re').sub(r'id: \d+', 'id: _', v)
            if t2['kind'] != t['kind'] or norm(t2['value']) != norm(t['value']): return True
            at2 = utf16_layout(text[s:e])
            if at2.get(tuple(t2['start'])) != 0 or at2.get(tuple(t2['end'])) != e - s: return True
        for d in out['diagnostics']:
            s, e = at.get(tuple(d['start'])), at.get(tuple(d['end']))
            if s is None or e is None or s > e: return True
    return False


class C11(Check):
    prop = 'C11'
    crates = (L,)

    def _main(self):
        return super()._main()

    def parts(self):
        if hasattr(self, '_parts'): return self._parts
        if not hasattr(self, 'll'): self.ll = LangLex(self)
        req = ('compared', 'token produced', 'lexical error', 'comment attached')
        if self.tier == 'quick':
            sk = corpus.skeletons('vhdl_lang', self.seed, count=60, max_len=12)
            ps = [Stream('chars N<=2', N=2, required=('compared', 'token produced', 'lexical error')),
                  Stream('chars N=1', N=1),
                  Stream('skeletons, 1 symbolic char', skeletons=sk, nholes=1, required=('compared', 'bit string literal', 'comment attached')),
                  LatinFile('latin-1 file N<=3 bytes', 3)]
        else:
            sk = corpus.skeletons('vhdl_lang', self.seed, count=225, max_len=24)
            ps = [Stream('chars N<=3', N=3, required=req),
                  Stream('chars N<=2', N=2, required=req),
                  Stream('skeletons, 1 symbolic char', skeletons=sk, nholes=1, required=('compared', 'bit string literal', 'comment attached')),
                  Stream('skeletons, 2 adjacent symbolic chars', skeletons=[x for x in sk if len(x) <= 10][:60], nholes=2),
                  LatinFile('latin-1 file N<=4 bytes', 4)]
        self._parts = ps
        return ps

    def assumptions(self):
        return ['input length bounded as listed per part; longer inputs only as skeletons with symbolic characters at the listed positions',
                'f64 parsing/arithmetic is an uninterpreted function of the digit text (equality of two lexings of the same text is still decided)',
                'symbol table: the real SymbolTable code over a modelled FnvHashMap; fresh copy of Symbols::from_standard(VHDL2008) per path',
                'the `vhdl_ls off/on` ignored regions are reachable only through skeletons that contain them']


if __name__ == '__main__':
    run_check(C11)
