"""C17  Concrete syntax trees are lossless and tree edits are local (vhdl_syntax).

Harness A (lexical losslessness): arbitrary bytes -> real Tokenizer<I>::next until None -> real
merge_bit_string_literals; obligations: sum of byte_len == input length, write_to output == input byte for byte,
exactly one Eof (last), lexer error indices in range.
Harness B (trees): green trees built by the real builder from those tokens; offsets tile; identity rewrites through
Rewriter and TokenRewriter return an identical tree; single token replacement is local.
"""
import json, os, re
import z3
from ..util import Panic, Unsupported
from ..values import *
from ..interp import Violation, Ctx
from ..models import ListIt, values_eq
from .common import Check, Part, SymInputs, ConcInputs, run_check
from . import corpus

CR = 'vhdl_syntax'


def token_fields(chk):
    info = chk.I.crates[CR]
    return info.structs['Token'], info.structs['LexErr']


def choose(ctx, inp, name, n):
    """symbolic choice among n alternatives (a chain of n-1 decisions; all alternatives are explored)"""
    v = inp.below(name, n, 16)
    if v.conc(): return v.e
    for k in range(n - 1):
        if ctx.branch(v.e == k): return k
    return n - 1


class Lex(Part):
    """bytes (symbolic, or a skeleton with symbolic holes) through tokenizer + bit-string merge"""
    vcap = 8

    def __init__(self, name, N=None, skeletons=None, nholes=1, required=(), time_cap=None):
        self.name = name
        self.skeletons = skeletons
        self.N = N
        self.nholes = nholes
        self.required_classes = required
        self.time_cap = time_cap
        if skeletons is None:
            self.bounds = dict(input_bytes=N, alphabet='all 256 byte values')
        else:
            self.bounds = dict(skeletons=len(skeletons), max_len=max(len(x) for x in skeletons), symbolic_bytes_per_run=nholes,
                               rule=f'every skeleton x every window of {nholes} adjacent position(s) replaced by fully symbolic bytes',
                               first_skeletons=[x.decode('latin-1') for x in skeletons[:8]])

    def input(self, ctx, inp):
        if self.skeletons is None:
            return [inp.byte(f'b{i}') for i in range(self.N)]
        k = choose(ctx, inp, 'sk', len(self.skeletons))
        sk = self.skeletons[k]
        h = choose(ctx, inp, 'hole', max(1, len(sk) - self.nholes + 1))
        holes = range(h, min(len(sk), h + self.nholes))
        return [inp.byte(f'b{i}') if i in holes else BV(sk[i], 8) for i in range(len(sk))]

    def lex(self, chk, ctx, data):
        I = chk.I
        tk = I.call(ctx, CR, 'Tokenizer::new', [ListIt(list(data))])
        tr = ValRef(tk)
        toks = []
        while True:
            r = I.call(ctx, CR, '<Tokenizer as Iterator>::next', [tr])
            if r.variant == 'None': break
            toks.append(r.fields[0])
            if len(toks) > len(data) + 2: raise Violation('more tokens than input bytes + 1', 'shape')
        return toks

    def render(self, chk, ctx, toks, what):
        """obligations on one token sequence; returns printed bytes"""
        I = chk.I
        sink = VecV([]); total = 0
        n = len(data_ := self._data)
        for k, pair in enumerate(toks):
            t, err = pair.fields
            bl = I.call(ctx, CR, 'Token::byte_len', [ValRef(t)])
            total += ctx.concretize(bl)
            before = len(sink.items)
            r = I.call(ctx, CR, 'Token::write_to', [ValRef(t), ValRef(sink)])
            if r.variant != 'Ok': raise Violation(f'{what}: write_to failed', 'shape')
            if len(sink.items) - before != ctx.concretize(bl):
                raise Violation(f'{what}: token {k} prints {len(sink.items) - before} bytes but byte_len says {ctx.concretize(bl)}', 'length')
            kind = I.call(ctx, CR, 'Token::kind', [ValRef(t)])
            is_eof = kind.variant == 'Eof'
            if is_eof != (k == len(toks) - 1): raise Violation(f'{what}: Eof token at position {k} of {len(toks)}', 'shape')
            if err.variant == 'Some':
                ctx.cover('lexical error reported')
                e = err.fields[0]
                ek = e.fields[self.lexerr_fields.index('err')]
                if ek.variant == 'Unterminated' and ek.fields[0].variant == 'BlockComment':
                    ctx.notes.append('region:unterminated-block-comment')
                pos = e.fields[self.lexerr_fields.index('pos')]
                if pos.variant == 'Trivia':
                    idx = ctx.concretize(pos.fields[0])
                    triv = t.fields[self.token_fields.index('leading_trivia')]
                    npieces = len(seq_items(I.call(ctx, CR, '<Trivia as Deref>::deref', [ValRef(triv)])))
                    if idx >= npieces: raise Violation(f'{what}: lexer error points at trivia piece {idx} of {npieces}', 'shape')
        if not toks: raise Violation(f'{what}: no Eof token', 'shape')
        out = sink.items
        in_region = 'region:unterminated-block-comment' in ctx.notes
        expect = list(data_) + ([BV(42, 8), BV(47, 8)] if in_region else [])
        if total != len(expect) or len(out) != len(expect):
            raise Violation(f'{what}: sum of byte_len {total} / printed {len(out)} bytes for {n} input bytes', 'length')
        neq = False
        for a, b in zip(out, expect): neq = b_or(neq, b_not(bv_eq(a, b)))
        ctx.obligations += 1
        if neq is not False and ctx.feasible(neq):
            ctx.solver.add(neq)
            raise Violation(f'{what}: printed bytes differ from the input', 'content')
        if in_region:
            ctx.model()
            raise Violation(f'{what}: unterminated block comment printed with an added */ ({len(out)} bytes for {n})', 'known-shape:added-comment-terminator')
        return out

    def run(self, chk, ctx, inp, verify=True):
        self.token_fields, self.lexerr_fields = token_fields(chk)
        data = self.input(ctx, inp)
        self._data = data
        I = chk.I
        try:
            toks = self.lex(chk, ctx, data)
            if verify: self.render(chk, ctx, toks, 'tokenizer')
            merged = I.call(ctx, CR, 'merge_bit_string_literals', [VecV(list(toks))])
            mt = seq_items(merged)
            if len(mt) != len(toks): ctx.cover('bit string literal merged')
            if verify: self.render(chk, ctx, mt, 'token stream')
        except Panic as p:
            raise Violation('panic: ' + str(p), 'panic')
        ctx.cover('compared')
        if len(toks) > 2: ctx.cover('three or more tokens')
        kinds = []
        for pair in mt:
            t = pair.fields[0]
            k = I.call(ctx, CR, 'Token::kind', [ValRef(t)])
            kinds.append(k.variant)
            triv = t.fields[self.token_fields.index('leading_trivia')]
            if seq_items(I.call(ctx, CR, '<Trivia as Deref>::deref', [ValRef(triv)])): ctx.cover('token with leading trivia')
        return mt, kinds

    def harness(self, chk):
        def h(ctx): self.run(chk, ctx, SymInputs(ctx))
        return h

    def case_of(self, w):
        if self.skeletons is None: return {'bytes': [w.get(f'b{i}', 0) for i in range(self.N)]}
        sk = self.skeletons[w.get('sk', 0) % len(self.skeletons)]
        h = w.get('hole', 0) % max(1, len(sk) - self.nholes + 1)
        holes = range(h, min(len(sk), h + self.nholes))
        return {'bytes': [w.get(f'b{i}', 0) if i in holes else sk[i] for i in range(len(sk))]}

    def replay_case(self, chk, w, v):
        return native_differs(chk, self.case_of(w))

    def attribute(self, chk, v, known):
        for k in known:
            if k['id'] == 'C17-unterminated-block-comment' and v['kind'] == 'known-shape:added-comment-terminator' \
                    and 'region:unterminated-block-comment' in v.get('notes', []):
                return k['id']
        return None

    def translator_validation(self, chk):
        rng = chk.rng
        alpha = list(b'ab1_ \t\n\r"\'#:.-/*\\x') + [0xA0, 0xE9, 0x0B]
        cases = []
        for _ in range(30 if chk.tier == 'quick' else 100):
            w = {f'b{i}': rng.choice(alpha) for i in range(self.N or 24)}
            if self.skeletons is not None:
                w['sk'] = rng.randrange(len(self.skeletons)); w['hole'] = rng.randrange(24)
                w['hole'] %= max(1, len(self.skeletons[w['sk']]) - self.nholes + 1)
            cases.append(w)
        outs = chk.native.run('c17lex', [self.case_of(w) for w in cases])
        bad = []
        for w, out in zip(cases, outs):
            ctx = Ctx()
            try:
                mt, kinds = self.run(chk, ctx, ConcInputs(ctx, w), verify=False)
                mine = {'kinds': kinds}
            except Violation as vv:
                mine = {'panic': str(vv)}
            if ('panic' in mine) != ('panic' in out) or ('kinds' in mine and mine['kinds'] != out.get('kinds')):
                bad.append({'case': self.case_of(w), 'interpreter': mine, 'native': out})
        return len(cases), bad


def native_differs(chk, case):
    for rel in (False, True):
        out = chk.native.run('c17lex', [case], release=rel)[0]
        if 'panic' in out: return True
        if 'printed' not in out: return f'native replay failed: {out}'
        if out['printed'] != case['bytes'] or out['byte_len'] != len(case['bytes']) or out['printed_stream'] != case['bytes'] \
                or out['byte_len_stream'] != len(case['bytes']) or not out.get('shape_ok', True):
            return True
    return False


class C17(Check):
    prop = 'C17'
    crates = (CR,)

    def parts(self):
        if hasattr(self, '_parts'): return self._parts
        req = ('compared', 'token with leading trivia', 'lexical error reported')
        ps = []
        if self.tier == 'quick':
            ps.append(Lex('bytes N<=2', N=2, required=req))
            ps.append(Lex('bytes N=1', N=1))
            sk = corpus.skeletons('vhdl_syntax', self.seed, count=60, max_len=12)
            ps.append(Lex('skeletons, 1 symbolic byte', skeletons=sk, nholes=1, required=('compared', 'bit string literal merged')))
        else:
            ps.append(Lex('bytes N<=3', N=3, required=req))
            ps.append(Lex('bytes N<=2', N=2, required=req))
            sk = corpus.skeletons('vhdl_syntax', self.seed, count=225, max_len=24)
            ps.append(Lex('skeletons, 1 symbolic byte', skeletons=sk, nholes=1, required=('compared', 'bit string literal merged')))
            ps.append(Lex('skeletons, 2 adjacent symbolic bytes', skeletons=[x for x in sk if len(x) <= 10][:80], nholes=2))
        self._parts = ps
        return ps

    def replay_known(self, k):
        return native_differs(self, k['case']) is True

    def assumptions(self):
        return ['input length bounded as listed per part; longer inputs only as skeletons (concrete text, symbolic bytes at the listed positions)',
                'token interning arena (GLOBAL_ARENA) starts empty on every path; RwLock/LazyLock are transparent (single thread)',
                'std models as listed under stubs (Vec, VecDeque, iterators, io::Write into a Vec)']


if __name__ == '__main__':
    run_check(C17)
