"""C17  Concrete syntax trees are lossless and tree edits are local (vhdl_syntax).

Harness A (lexical losslessness): arbitrary bytes -> real Tokenizer<I>::next until None -> real
merge_bit_string_literals; obligations: sum of byte_len == input length, write_to output == input byte for byte,
exactly one Eof (last), lexer error indices in range.
Harness B (trees): green trees built by the real builder from those tokens; offsets tile; identity rewrites through
Rewriter and TokenRewriter return an identical tree; single token replacement is local.
"""
import json, os, re
import z3
from ..util import Panic, Unsupported
from ..values import *
from ..interp import Violation, Ctx
from ..models import ListIt, values_eq
from .common import Check, Part, SymInputs, ConcInputs, run_check
from . import corpus

CR = 'vhdl_syntax'


def token_fields(chk):
    info = chk.I.crates[CR]
    return info.structs['Token'], info.structs['LexErr']


def choose(ctx, inp, name, n):
    """symbolic choice among n alternatives (a chain of n-1 decisions; all alternatives are explored)"""
    v = inp.below(name, n, 16)
    if v.conc(): return v.e
    for k in range(n - 1):
        if ctx.branch(v.e == k): return k
    return n - 1


class Lex(Part):
    """bytes (symbolic, or a skeleton with symbolic holes) through tokenizer + bit-string merge"""
    vcap = 8

    def __init__(self, name, N=None, skeletons=None, nholes=1, required=(), time_cap=None):
        self.name = name
        self.skeletons = skeletons
        self.N = N
        self.nholes = nholes
        self.required_classes = required
        self.time_cap = time_cap
        if skeletons is None:
            self.bounds = dict(input_bytes=N, alphabet='all 256 byte values')
        else:
            self.bounds = dict(skeletons=len(skeletons), max_len=max(len(x) for x in skeletons), symbolic_bytes_per_run=nholes,
                               rule=f'every skeleton x every window of {nholes} adjacent position(s) replaced by fully symbolic bytes',
                               first_skeletons=[x.decode('latin-1') for x in skeletons[:8]])

    def input(self, ctx, inp):
        if self.skeletons is None:
            return [inp.byte(f'b{i}') for i in range(self.N)]
        k = choose(ctx, inp, 'sk', len(self.skeletons))
        sk = self.skeletons[k]
        h = choose(ctx, inp, 'hole', max(1, len(sk) - self.nholes + 1))
        holes = range(h, min(len(sk), h + self.nholes))
        return [inp.byte(f'b{i}') if i in holes else BV(sk[i], 8) for i in range(len(sk))]

    def lex(self, chk, ctx, data):
        I = chk.I
        tk = I.call(ctx, CR, 'Tokenizer::new', [ListIt(list(data))])
        tr = ValRef(tk)
        toks = []
        while True:
            r = I.call(ctx, CR, '<Tokenizer as Iterator>::next', [tr])
            if r.variant == 'None': break
            toks.append(r.fields[0])
            if len(toks) > len(data) + 2: raise Violation('more tokens than input bytes + 1', 'shape')
        return toks

    def render(self, chk, ctx, toks, what):
        """obligations on one token sequence; returns printed bytes"""
        I = chk.I
        sink = VecV([]); total = 0
        n = len(data_ := self._data)
        for k, pair in enumerate(toks):
            t, err = pair.fields
            bl = I.call(ctx, CR, 'Token::byte_len', [ValRef(t)])
            total += ctx.concretize(bl)
            before = len(sink.items)
            r = I.call(ctx, CR, 'Token::write_to', [ValRef(t), ValRef(sink)])
            if r.variant != 'Ok': raise Violation(f'{what}: write_to failed', 'shape')
            if len(sink.items) - before != ctx.concretize(bl):
                raise Violation(f'{what}: token {k} prints {len(sink.items) - before} bytes but byte_len says {ctx.concretize(bl)}', 'length')
            kind = I.call(ctx, CR, 'Token::kind', [ValRef(t)])
            is_eof = kind.variant == 'Eof'
            if is_eof != (k == len(toks) - 1): raise Violation(f'{what}: Eof token at position {k} of {len(toks)}', 'shape')
            if err.variant == 'Some':
                ctx.cover('lexical error reported')
                e = err.fields[0]
                ek = e.fields[self.lexerr_fields.index('err')]
                if ek.variant == 'Unterminated' and ek.fields[0].variant == 'BlockComment':
                    ctx.notes.append('region:unterminated-block-comment')
                pos = e.fields[self.lexerr_fields.index('pos')]
                if pos.variant == 'Trivia':
                    idx = ctx.concretize(pos.fields[0])
                    triv = t.fields[self.token_fields.index('leading_trivia')]
                    npieces = len(seq_items(I.call(ctx, CR, '<Trivia as Deref>::deref', [ValRef(triv)])))
                    if idx >= npieces: raise Violation(f'{what}: lexer error points at trivia piece {idx} of {npieces}', 'shape')
        if not toks: raise Violation(f'{what}: no Eof token', 'shape')
        out = sink.items
        in_region = 'region:unterminated-block-comment' in ctx.notes
        expect = list(data_) + ([BV(42, 8), BV(47, 8)] if in_region else [])
        if total != len(expect) or len(out) != len(expect):
            raise Violation(f'{what}: sum of byte_len {total} / printed {len(out)} bytes for {n} input bytes', 'length')
        neq = False
        for a, b in zip(out, expect): neq = b_or(neq, b_not(bv_eq(a, b)))
        ctx.obligations += 1
        if neq is not False and ctx.feasible(neq):
            ctx.solver.add(neq)
            raise Violation(f'{what}: printed bytes differ from the input', 'content')
        if in_region:
            ctx.model()
            raise Violation(f'{what}: unterminated block comment printed with an added */ ({len(out)} bytes for {n})', 'known-shape:added-comment-terminator')
        return out

    def run(self, chk, ctx, inp, verify=True):
        self.token_fields, self.lexerr_fields = token_fields(chk)
        data = self.input(ctx, inp)
        self._data = data
        I = chk.I
        try:
            toks = self.lex(chk, ctx, data)
            if verify: self.render(chk, ctx, toks, 'tokenizer')
            merged = I.call(ctx, CR, 'merge_bit_string_literals', [VecV(list(toks))])
            mt = seq_items(merged)
            if len(mt) != len(toks): ctx.cover('bit string literal merged')
            if verify: self.render(chk, ctx, mt, 'token stream')
        except Panic as p:
            raise Violation('panic: ' + str(p), 'panic')
        ctx.cover('compared')
        if len(toks) > 2: ctx.cover('three or more tokens')
        kinds = []
        for pair in mt:
            t = pair.fields[0]
            k = I.call(ctx, CR, 'Token::kind', [ValRef(t)])
            kinds.append(k.variant)
            triv = t.fields[self.token_fields.index('leading_trivia')]
            if seq_items(I.call(ctx, CR, '<Trivia as Deref>::deref', [ValRef(triv)])): ctx.cover('token with leading trivia')
        return mt, kinds

    def harness(self, chk):
        def h(ctx): self.run(chk, ctx, SymInputs(ctx))
        return h

    def case_of(self, w):
        if self.skeletons is None: return {'bytes': [w.get(f'b{i}', 0) for i in range(self.N)]}
        sk = self.skeletons[w.get('sk', 0) % len(self.skeletons)]
        h = w.get('hole', 0) % max(1, len(sk) - self.nholes + 1)
        holes = range(h, min(len(sk), h + self.nholes))
        return {'bytes': [w.get(f'b{i}', 0) if i in holes else sk[i] for i in range(len(sk))]}

    def replay_case(self, chk, w, v):
        return native_differs(chk, self.case_of(w))

    def attribute(self, chk, v, known):
        for k in known:
            if k['id'] == 'C17-unterminated-block-comment' and v['kind'] == 'known-shape:added-comment-terminator' \
                    and 'region:unterminated-block-comment' in v.get('notes', []):
                return k['id']
        return None

    def translator_validation(self, chk):
        rng = chk.rng
        alpha = list(b'ab1_ \t\n\r"\'#:.-/*\\x') + [0xA0, 0xE9, 0x0B]
        cases = []
        for _ in range(30 if chk.tier == 'quick' else 100):
            w = {f'b{i}': rng.choice(alpha) for i in range(self.N or 24)}
            if self.skeletons is not None:
                w['sk'] = rng.randrange(len(self.skeletons)); w['hole'] = rng.randrange(24)
                w['hole'] %= max(1, len(self.skeletons[w['sk']]) - self.nholes + 1)
            cases.append(w)
        outs = chk.native.run('c17lex', [self.case_of(w) for w in cases])
        bad = []
        for w, out in zip(cases, outs):
            ctx = Ctx()
            try:
                mt, kinds = self.run(chk, ctx, ConcInputs(ctx, w), verify=False)
                mine = {'kinds': kinds}
            except Violation as vv:
                mine = {'panic': str(vv)}
            # the native side renders kinds with Debug (`Keyword(Abs)`), the interpreter reports the variant name
            theirs = [k.split('(')[0] for k in out.get('kinds', [])]
            if ('panic' in mine) != ('panic' in out) or ('kinds' in mine and mine['kinds'] != theirs):
                bad.append({'case': self.case_of(w), 'interpreter': mine, 'native': out})
        return len(cases), bad


PROGS = None


def install_tree_stubs(I):
    """the rewriting callbacks the harness hands to the real Rewriter / TokenRewriter (the only non-crate code on these paths)"""
    M = {}
    def leave(I, ctx, el): return I.enum_value(CR, 'RewriteAction', 'Leave')
    M['__c17_leave'] = leave
    def keep_token(I, ctx, slf, tok): return I.enum_value(CR, 'TokenRewriteAction', 'Keep')
    M['<C17Keep as TokenRewrite>::token'] = keep_token
    M['<C17Keep as TokenRewrite>::enter'] = lambda I, ctx, slf, n: UNIT
    M['<C17Keep as TokenRewrite>::exit'] = lambda I, ctx, slf, n: UNIT
    def replace_one(I, ctx, el):
        # replace the k-th token by a clone with other text
        env = ctx.c17
        e = deref(el)
        if e.variant == 'Token':
            k = env['seen']; env['seen'] += 1
            if k == env['target']:
                new = I.call(ctx, CR, 'SyntaxToken::clone_with_text', [ValRef(e.fields[0]), ValRef(list(env['text']))])
                return I.enum_value(CR, 'RewriteAction', 'Change', [I.enum_value(CR, 'SyntaxElement', 'Token', [new])])
        return I.enum_value(CR, 'RewriteAction', 'Leave')
    M['__c17_replace_one'] = replace_one
    I.add_models(M)


class Tree(Lex):
    """bytes -> real tokenizer -> real parser (error recovery included) -> real green/red tree: printing, offsets, error spans, rewriting"""

    def __init__(self, name, N=None, skeletons=None, nholes=1, required=(), time_cap=None, window=None, truncate=False):
        super().__init__(name, N=N, skeletons=skeletons, nholes=nholes, required=required, time_cap=time_cap)
        self.window, self.truncate = window, truncate
        self.bounds['checks'] = 'parse + print == input, token offsets tile the input, error spans inside, identity Rewriter / TokenRewriter, single token replacement local'
        if window is not None: self.bounds['hole_positions'] = f'window of {window[1]} positions starting at {window[0]} (mod length)'
        if truncate: self.bounds['truncation'] = 'the text is cut after the symbolic byte'

    def positions(self, sk):
        if self.window is None: return list(range(max(1, len(sk) - self.nholes + 1)))
        return [(self.window[0] + j) % len(sk) for j in range(min(self.window[1], len(sk)))]

    def input(self, ctx, inp):
        if self.skeletons is None: return [inp.byte(f'b{i}') for i in range(self.N)]
        k = choose(ctx, inp, 'sk', len(self.skeletons)); sk = self.skeletons[k]
        pos = self.positions(sk)
        h = pos[choose(ctx, inp, 'hole', len(pos))]
        data = [inp.byte(f'b{i}') if i == h else BV(sk[i], 8) for i in range(len(sk))]
        return data[:h + 1] if self.truncate else data

    def case_of(self, w):
        if self.skeletons is None: return {'bytes': [w.get(f'b{i}', 0) for i in range(self.N)]}
        sk = self.skeletons[w.get('sk', 0) % len(self.skeletons)]
        pos = self.positions(sk); h = pos[w.get('hole', 0) % len(pos)]
        d = [w.get(f'b{i}', 0) if i == h else sk[i] for i in range(len(sk))]
        return {'bytes': d[:h + 1] if self.truncate else d}

    def print_node(self, chk, ctx, node):
        sink = VecV([])
        r = chk.I.call(ctx, CR, 'SyntaxNode::write_to', [ValRef(node), ValRef(sink)])
        if r.variant != 'Ok': raise Violation('write_to failed', 'shape')
        return sink.items

    def same_bytes(self, ctx, a, b, what, kind='content'):
        if len(a) != len(b): raise Violation(f'{what}: {len(a)} bytes vs {len(b)}', 'length')
        neq = False
        for x, y in zip(a, b): neq = b_or(neq, b_not(bv_eq(x, y)))
        ctx.obligations += 1
        if neq is not False and ctx.feasible(neq):
            ctx.solver.add(neq); raise Violation(f'{what}: bytes differ', kind)

    def run(self, chk, ctx, inp, verify=True):
        I = chk.I
        self.token_fields, self.lexerr_fields = token_fields(chk)
        data = self.input(ctx, inp); self._data = data; n = len(data)
        try:
            toks = self.lex(chk, ctx, data)
            unterminated = False
            for pair in toks:
                e = pair.fields[1]
                if e.variant == 'Some':
                    ek = e.fields[0].fields[self.lexerr_fields.index('err')]
                    if ek.variant == 'Unterminated' and ek.fields[0].variant == 'BlockComment': unterminated = True
            if unterminated: ctx.notes.append('region:unterminated-block-comment')
            ts = I.call(ctx, CR, 'TokenStream::new', [VecV(list(toks))])
            parser = I.call(ctx, CR, 'Parser::new', [ts, I.enum_value(CR, 'VHDLStandard', 'VHDL2008')])
            I.call(ctx, CR, 'Parser::design_file', [ValRef(parser)])
            res = I.call(ctx, CR, 'Parser::into_root', [parser])
            node, diags = res.fields
            printed = self.print_node(chk, ctx, node)
            summary = {'printed_len': len(printed), 'ndiag': len(seq_items(diags))}
            if not verify: return summary
            expect = list(data) + ([BV(42, 8), BV(47, 8)] if unterminated else [])
            self.same_bytes(ctx, printed, expect, 'parse + print')
            if unterminated:
                ctx.model()
                raise Violation(f'unterminated block comment printed with an added */ ({len(printed)} bytes for {n})', 'known-shape:added-comment-terminator')
            # offsets tile the input
            blen = ctx.concretize(I.call(ctx, CR, 'SyntaxNode::byte_len', [ValRef(node)]))
            if blen != n: raise Violation(f'root byte_len {blen} != input length {n}', 'offsets')
            from ..models import it_next
            spans = []; tokvals = []
            def walk(nd, at):
                # every node starts where the previous sibling ended; its length is the sum of its children
                noff = ctx.concretize(I.call(ctx, CR, 'SyntaxNode::offset', [ValRef(nd)]))
                if noff != at: raise Violation(f'node {I.call(ctx, CR, "SyntaxNode::kind", [ValRef(nd)]).variant} starts at offset {noff}, expected {at}', 'offsets')
                start = at
                it = I.call(ctx, CR, 'SyntaxNode::children_with_tokens', [ValRef(nd)])
                while True:
                    o = it_next(I, ctx, it)
                    if o.variant == 'None': break
                    e = o.fields[0]
                    if e.variant == 'Node': at = walk(e.fields[0], at)
                    else:
                        st = e.fields[0]
                        off = ctx.concretize(I.call(ctx, CR, 'SyntaxToken::offset', [ValRef(st)]))
                        ln = ctx.concretize(I.call(ctx, CR, 'SyntaxToken::byte_len', [ValRef(st)]))
                        if off != at: raise Violation(f'token {len(spans)} starts at offset {off}, previous token ended at {at}', 'offsets')
                        spans.append((off, ln)); tokvals.append(st); at = off + ln
                nlen = ctx.concretize(I.call(ctx, CR, 'SyntaxNode::byte_len', [ValRef(nd)]))
                if nlen != at - start: raise Violation(f'node byte_len {nlen} but its children cover {at - start} bytes', 'offsets')
                return at
            at = walk(node, 0); ntok = len(spans)
            if at != n: raise Violation(f'tokens cover {at} of {n} bytes', 'offsets')
            for d in seq_items(diags):
                sp = deref(I.call(ctx, CR, 'SyntaxErr::span', [ValRef(d)]))
                a, b = ctx.concretize(sp.fields[0]), ctx.concretize(sp.fields[1])
                if not (a <= b <= n): raise Violation(f'error span {a}..{b} outside the input of {n} bytes', 'error-span')
                ctx.cover('syntax error reported')
            # identity rewrites
            r1 = I.call(ctx, CR, 'SyntaxNode::rewrite', [ValRef(node), Agg('fnitem:__c17_leave', [])])
            self.same_bytes(ctx, self.print_node(chk, ctx, r1), printed, 'Rewriter with Leave everywhere', 'rewrite')
            self.same_tree(chk, ctx, node, r1, 'Rewriter with Leave everywhere')
            tr = I.call(ctx, CR, 'TokenRewriter::new', [Agg('C17Keep', [])])
            r2 = I.call(ctx, CR, 'TokenRewriter::rewrite', [ValRef(tr), node_clone(I, ctx, node)])
            self.same_bytes(ctx, self.print_node(chk, ctx, r2), printed, 'TokenRewriter with Keep everywhere', 'rewrite')
            self.same_tree(chk, ctx, node, r2, 'TokenRewriter with Keep everywhere')
            # single token replacement is local: every token but Eof in turn, same path (the new text has a symbolic byte)
            if ntok > 1:
                newtext = [BV(0x51, 8), inp.byte('newbyte')]
                targets = range(ntok - 1) if ntok <= 6 else sorted(set([0, 1, (ntok - 1) // 2, ntok - 3, ntok - 2]))
                for k in targets:
                    ctx.c17 = {'seen': 0, 'target': k, 'text': newtext}
                    r3 = I.call(ctx, CR, 'SyntaxNode::rewrite', [ValRef(node), Agg('fnitem:__c17_replace_one', [])])
                    off, ln = spans[k]
                    tok_text_len = ctx.concretize(I.call(ctx, CR, 'Token::text_len', [I.call(ctx, CR, 'SyntaxToken::token', [ValRef(tokvals[k])])]))
                    lead = ln - tok_text_len
                    want = list(printed[:off + lead]) + newtext + list(printed[off + ln:])
                    ctx.notes.append(f'target:{k}')
                    self.same_bytes(ctx, self.print_node(chk, ctx, r3), want, f'replacing the text of token {k}', 'replace')
                ctx.cover('token replaced')
        except Panic as p:
            raise Violation('panic: ' + str(p), 'panic')
        ctx.cover('compared')
        if ntok > 2: ctx.cover('three or more tokens')
        return summary

    def text_len_of(self, chk, ctx, node, k):
        I = chk.I
        from ..models import it_next
        it = I.call(ctx, CR, 'SyntaxNode::tokens', [ValRef(node)])
        for _ in range(k + 1): o = it_next(I, ctx, it)
        t = I.call(ctx, CR, 'SyntaxToken::token', [ValRef(o.fields[0])])
        return I.call(ctx, CR, 'Token::text_len', [t])

    def same_tree(self, chk, ctx, a, b, what):
        """structural identity of two red trees: same node kinds, same tokens (kind + printed bytes), same nesting"""
        I = chk.I
        def shape(n):
            out = [('node', I.call(ctx, CR, 'SyntaxNode::kind', [ValRef(n)]).variant)]
            from ..models import it_next
            it = I.call(ctx, CR, 'SyntaxNode::children_with_tokens', [ValRef(n)])
            while True:
                o = it_next(I, ctx, it)
                if o.variant == 'None': break
                e = o.fields[0]
                if e.variant == 'Node': out.append(shape(e.fields[0]))
                else:
                    k = I.call(ctx, CR, 'SyntaxToken::kind', [ValRef(e.fields[0])])
                    out.append(('tok', k.variant if k.variant != 'Keyword' else 'Keyword:' + k.fields[0].variant, ctx.concretize(I.call(ctx, CR, 'SyntaxToken::byte_len', [ValRef(e.fields[0])]))))
            return out
        if shape(a) != shape(b): raise Violation(f'{what}: the rewritten tree has another shape', 'rewrite')

    def replay_case(self, chk, w, v):
        tg = [int(n.split(':')[1]) for n in v.get('notes', []) if n.startswith('target:')]
        return native_tree_differs(chk, self.case_of(w), tg[-1] if tg else 0, w.get('newbyte', 0))

    def translator_validation(self, chk):
        rng = chk.rng
        alpha = list(b'ab1_ \n"\'#:.-/*;()') + [0xE9]
        cases = []
        for _ in range(15 if chk.tier == 'quick' else 40):
            w = {f'b{i}': rng.choice(alpha) for i in range(self.N or 200)}
            if self.skeletons is not None:
                w['sk'] = rng.randrange(len(self.skeletons)); w['hole'] = rng.randrange(200)
                sk = self.skeletons[w['sk']]; h = self.positions(sk)[w['hole'] % len(self.positions(sk))]
                if rng.random() < 0.6: w[f'b{h}'] = sk[h]
            cases.append(w)
        outs = chk.native.run('c17tree', [dict(self.case_of(w), target=0, newbyte=0) for w in cases])
        bad = []
        for w, out in zip(cases, outs):
            ctx = Ctx()
            try:
                mine = self.run(chk, ctx, ConcInputs(ctx, w), verify=False)
            except Violation as vv:
                mine = {'panic': str(vv)}
            if ('panic' in mine) != ('panic' in out) or ('ndiag' in mine and (mine['ndiag'] != out.get('ndiag') or mine['printed_len'] != len(out.get('printed', [])))):
                bad.append({'case': self.case_of(w), 'interpreter': mine, 'native': {k: out.get(k) for k in ('ndiag', 'panic')}})
        return len(cases), bad


def node_clone(I, ctx, node):
    return I.call(ctx, CR, '<SyntaxNode as Clone>::clone', [ValRef(node)])


def native_tree_differs(chk, case, target, newbyte):
    data = case['bytes']
    for rel in (False, True):
        out = chk.native.run('c17tree', [dict(case, target=target, newbyte=newbyte)], release=rel)[0]
        if 'panic' in out: return True
        if 'printed' not in out: return f'native replay failed: {out}'
        if out['printed'] != data or out['byte_len'] != len(data) or not out['tiles'] or not out['spans_ok']: return True
        if out['leave'] != out['printed'] or out['keep'] != out['printed'] or not out['leave_same_shape'] or not out['keep_same_shape']: return True
        if out.get('replaced') is not None and out['replaced'] != out['replaced_expected']: return True
    return False


def native_differs(chk, case):
    for rel in (False, True):
        out = chk.native.run('c17lex', [case], release=rel)[0]
        if 'panic' in out: return True
        if 'printed' not in out: return f'native replay failed: {out}'
        if out['printed'] != case['bytes'] or out['byte_len'] != len(case['bytes']) or out['printed_stream'] != case['bytes'] \
                or out['byte_len_stream'] != len(case['bytes']) or not out.get('shape_ok', True):
            return True
    return False


class C17(Check):
    prop = 'C17'
    crates = (CR,)

    def parts(self):
        if hasattr(self, '_parts'): return self._parts
        install_tree_stubs(self.I)
        req = ('compared', 'token with leading trivia', 'lexical error reported')
        ps = []
        if self.tier == 'quick':
            ps.append(Lex('bytes N<=2', N=2, required=req))
            ps.append(Lex('bytes N=1', N=1))
            sk = corpus.skeletons('vhdl_syntax', self.seed, count=60, max_len=12)
            ps.append(Lex('skeletons, 1 symbolic byte', skeletons=sk, nholes=1, required=('compared', 'bit string literal merged')))
            progs = [p.encode('latin-1') for p in json.load(open(os.path.join(os.path.dirname(__file__), 'programs.json')))]
            w0 = (self.seed * 7) % 40
            treq = ('compared', 'token replaced', 'syntax error reported')
            ps.append(Tree('trees: bytes N<=2', N=2, required=('compared',)))
            ps.append(Tree('trees: lexeme skeletons, 1 symbolic byte', skeletons=sk[:40], required=treq))
            ps.append(Tree('trees: programs, 1 symbolic byte in a window', skeletons=progs, window=(w0, 2), required=treq))
            ps.append(Tree('trees: programs cut after 1 symbolic byte (last 4 positions)', skeletons=progs, window=(-4, 4), truncate=True, required=treq))
        else:
            ps.append(Lex('bytes N<=3', N=3, required=req))
            ps.append(Lex('bytes N<=2', N=2, required=req))
            sk = corpus.skeletons('vhdl_syntax', self.seed, count=225, max_len=24)
            ps.append(Lex('skeletons, 1 symbolic byte', skeletons=sk, nholes=1, required=('compared', 'bit string literal merged')))
            ps.append(Lex('skeletons, 2 adjacent symbolic bytes', skeletons=[x for x in sk if len(x) <= 10][:80], nholes=2))
            progs = [p.encode('latin-1') for p in json.load(open(os.path.join(os.path.dirname(__file__), 'programs.json')))]
            treq = ('compared', 'token replaced', 'syntax error reported')
            ps.append(Tree('trees: bytes N<=2', N=2, required=('compared',)))
            ps.append(Tree('trees: lexeme skeletons, 1 symbolic byte', skeletons=sk, required=treq))
            ps.append(Tree('trees: programs, 1 symbolic byte anywhere', skeletons=progs, required=treq))
            ps.append(Tree('trees: programs cut after 1 symbolic byte', skeletons=progs, truncate=True, required=treq))
        self._parts = ps
        return ps

    def replay_known(self, k):
        return native_differs(self, k['case']) is True

    def assumptions(self):
        return ['input length bounded as listed per part; longer inputs only as skeletons (concrete text, symbolic bytes at the listed positions)',
                'token interning arena (GLOBAL_ARENA) starts empty on every path; RwLock/LazyLock are transparent (single thread)',
                'std models as listed under stubs (Vec, VecDeque, iterators, io::Write into a Vec)']


if __name__ == '__main__':
    run_check(C17)
