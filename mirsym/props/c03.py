"""C03  Analysis and every editor query are total on any project state.

Part 1 (queries): the real query code of vhdl_lang::Project on analysed designs (valid, semantically broken, syntactically broken) with a
fully symbolic cursor (any line/character, inside or outside the text): no panic, and every location the queries return lies inside the text.
Part 2 (analysis of mutated programs): see MutatedAnalysis.
"""
from .queries import *


class C03(Check):
    prop = 'C03'
    crates = (L,)

    def parts(self):
        if hasattr(self, '_parts'): return self._parts
        if not hasattr(self, 'll'): self.ll = LangLex(self)
        if not hasattr(self, 'pkit'): self.pkit = ProjectKit(self, log=self.log)
        req = ('compared', 'cursor on an entity', 'cursor on nothing', 'implementation found', 'type definition found', 'definition differs from declaration')
        ds = DS.DESIGNS if self.tier != 'quick' else [[DS.D_GENERIC, DS.D_SEM, DS.D_SYN, DS.D_EMPTYLIB], [DS.D_ZOO, DS.D_SYN, DS.D_EMPTYLIB], [DS.D_TREE, DS.D_RECORDS, DS.D_SEM, DS.D_EMPTYLIB]][self.seed % 3]
        ps = [CursorQueries('queries at a symbolic cursor', ds, 'C03', required=req if self.tier != 'quick' else req[:3], window=30 if self.tier == 'quick' else None, window_at=self.seed // 3)]
        mreq = ('compared', 'semantic diagnostics', 'syntax diagnostics', 'line structure changed')
        if self.tier == 'quick': ps.append(MutatedAnalysis('analysis and queries on a damaged design (every 32nd token)', DS.MUT_DESIGN, stride=32, offset=self.seed % 32, required=mreq))
        else: ps.append(MutatedAnalysis('analysis and queries on a damaged design (every token)', DS.MUT_DESIGN, required=mreq))
        self._parts = ps
        return ps

    def assumptions(self):
        return ['designs: the listed files, loaded as Project::from_config loads them, with the bundled std library; ieee is not loaded',
                'the LSP layer of vhdl_ls (position conversion, rename, symbols, semantic tokens) is outside this part',
                'FnvHashMap/FnvHashSet are modelled insertion ordered; rayon runs sequentially']


if __name__ == '__main__':
    run_check(C03)
