"""C02  Parsing is total and yields in-bounds, consistent syntax (vhdl_lang front end).

Real code (MIR): VHDLParser::parse_design_source -> TokenStream::new (incl. tool directives, vhdl_ls off/on regions),
parse_design_file and the whole recursive-descent parser with its error recovery, slice_tokens, TokenId/TokenSpan arithmetic.
Obligations per path: no panic; returns within the step budget (a budget overrun is a non-termination candidate that is
decided by a native run under a watchdog); every diagnostic range is made of valid positions (or the EOF marker); unit token
lists are ordered, disjoint, in file order; every TokenId / TokenSpan stored in a unit's AST indexes into that unit's token list.
"""
import json, os
import z3
from ..util import Panic, Unsupported, StepLimit
from ..values import *
from ..interp import Violation, Ctx
from .common import Check, Part, SymInputs, ConcInputs, run_check
from .lang_lex import LangLex, Layout, L
from .c17 import choose
from .c11 import utf16_layout

PROGS = json.load(open(os.path.join(os.path.dirname(__file__), 'programs.json')))


class Parse(Part):
    vcap = 6

    def __init__(self, name, N=None, skeletons=None, window=None, required=(), time_cap=None, step_limit=3000000, truncate=False):
        self.name, self.N, self.skeletons, self.window = name, N, skeletons, window
        self.required_classes = required; self.time_cap = time_cap; self.step_limit = step_limit; self.truncate = truncate
        if skeletons is None:
            self.bounds = dict(input_chars=N, alphabet='all Unicode scalar values', step_budget=step_limit)
        else:
            self.bounds = dict(skeleton_programs=len(skeletons), max_len=max(len(x) for x in skeletons), symbolic_chars_per_run=1,
                               hole_positions=('all' if window is None else f'window of {window[1]} positions starting at {window[0]} (mod length)'),
                               truncation=('the text is also cut after the hole (every prefix ending in a symbolic char)' if truncate else 'none'),
                               step_budget=step_limit, first=[x[:50] for x in skeletons[:4]])

    def input(self, ctx, inp):
        if self.skeletons is None:
            return [inp.char(f'c{i}') for i in range(self.N)]
        k = choose(ctx, inp, 'sk', len(self.skeletons))
        sk = self.skeletons[k]
        if self.window is None: positions = list(range(len(sk)))
        else: positions = [(self.window[0] + j) % len(sk) for j in range(min(self.window[1], len(sk)))]
        h = positions[choose(ctx, inp, 'hole', len(positions))]
        chars = [inp.char(f'c{i}') if i == h else BV(ord(sk[i]), 32) for i in range(len(sk))]
        if self.truncate: chars = chars[:h + 1]
        return chars

    def case_of(self, w):
        if self.skeletons is None: return {'text': [w.get(f'c{i}', 0) for i in range(self.N)]}
        sk = self.skeletons[w.get('sk', 0) % len(self.skeletons)]
        if self.window is None: positions = list(range(len(sk)))
        else: positions = [(self.window[0] + j) % len(sk) for j in range(min(self.window[1], len(sk)))]
        h = positions[w.get('hole', 0) % len(positions)]
        t = [w.get(f'c{i}', 0) if i == h else ord(sk[i]) for i in range(len(sk))]
        return {'text': t[:h + 1] if self.truncate else t}

    def run(self, chk, ctx, inp, verify=True):
        ll = chk.ll; I = chk.I
        chars = self.input(ctx, inp)
        ctx.step_limit = self.step_limit
        source, contents = ll.make_source(ctx, chars)
        parser = Agg('VHDLParser', [None] * len(ll.S['VHDLParser']))
        parser.fields[ll.fidx('VHDLParser', 'symbols')] = ll.fresh_symbols()
        parser.fields[ll.fidx('VHDLParser', 'standard')] = I.enum_value(L, 'VHDLStandard', 'VHDL2008')
        diags = VecV([])
        try:
            df = I.call(ctx, L, 'VHDLParser::parse_design_source', [ValRef(parser), ValRef(source), ValRef(diags)])
        except Panic as p:
            raise Violation('panic: ' + str(p), 'panic')
        except StepLimit:
            ctx.model()
            raise Violation(f'parser still running after {self.step_limit} interpreter steps (non-termination candidate)', 'termination')
        units = seq_items(df.fields[ll.fidx('DesignFile', 'design_units')])
        summary = {'units': [len(seq_items(u.fields[0])) for u in units], 'ndiag': len(diags.items)}
        if not verify: return summary
        lay = Layout(ctx, chars)
        n = len(chars)
        for d in diags.items:
            s, e = ll.diag_range(d)
            si = lay.index_of(ctx, s.fields[0], s.fields[1])
            ei = lay.index_of(ctx, e.fields[0], e.fields[1])
            if ei is None:
                # the end-of-file marker: one column past the end of the text
                endl, endc = len(lay.lines) - 1, lay.eol[len(lay.lines) - 1][0]
                if ctx.concretize(e.fields[0]) == endl and ctx.concretize(e.fields[1]) == endc + 1: ei = n + 1
            if si is None or ei is None or si > ei:
                raise Violation('syntax diagnostic range is not inside the document / on its end-of-file marker', 'diag-range')
            ctx.cover('syntax diagnostic')
        prev_end = 0
        for u in units:
            toks = seq_items(u.fields[0])
            ctx.cover('design unit returned')
            for t in toks:
                tt = ll.tok(t)
                si = lay.index_of(ctx, tt['start'].fields[0], tt['start'].fields[1]); ei = lay.index_of(ctx, tt['end'].fields[0], tt['end'].fields[1])
                if si is None or ei is None or not si < ei: raise Violation('token range of a design unit is not well ordered / inside the document', 'token-range')
                if si < prev_end: raise Violation('token lists of the design units are not disjoint in-order slices of the file', 'unit-slices')
                prev_end = ei
            self.check_ids(ctx, u.fields[1], len(toks))
        ctx.cover('compared')
        return summary

    def check_ids(self, ctx, ast, ntok):
        seen = set()
        stack = [ast]
        while stack:
            v = stack.pop()
            if isinstance(v, Ref):
                try: v = v.get()
                except Exception: continue
            if id(v) in seen: continue
            seen.add(id(v))
            if isinstance(v, Agg):
                if v.name == 'TokenId' and len(v.fields) == 1 and isinstance(v.fields[0], BV):
                    k = ctx.concretize(v.fields[0])
                    if k >= ntok: raise Violation(f'AST holds TokenId {k} but the unit has {ntok} tokens', 'token-id')
                    continue
                if v.name == 'TokenSpan' and len(v.fields) == 2:
                    a, b = v.fields
                    if isinstance(a, Agg) and isinstance(b, Agg) and a.name == 'TokenId' and b.name == 'TokenId':
                        ka, kb = ctx.concretize(a.fields[0]), ctx.concretize(b.fields[0])
                        if ka > kb: raise Violation(f'TokenSpan {ka}..{kb} is not well ordered', 'token-id')
                if v.name in ('Source', 'Symbol', 'CellLike'): continue
                stack.extend(v.fields)
            elif isinstance(v, VecV): stack.extend(v.items)
            elif isinstance(v, list): stack.extend(v)

    def harness(self, chk):
        def h(ctx): self.run(chk, ctx, SymInputs(ctx))
        return h

    def replay_case(self, chk, w, v):
        return native_violates(chk, self.case_of(w))

    def translator_validation(self, chk):
        rng = chk.rng
        alpha = [ord(c) for c in 'ab1x_ \n;()":=<-`\''] + [0xE9, 0x20AC]
        cases = []
        for _ in range(12 if chk.tier == 'quick' else 40):
            w = {f'c{i}': rng.choice(alpha) for i in range(self.N or 200)}
            if self.skeletons is not None:
                w['sk'] = rng.randrange(len(self.skeletons)); w['hole'] = rng.randrange(200)
            cases.append(w)
        outs = chk.native.run('parse', [self.case_of(w) for w in cases])
        bad = []
        for w, out in zip(cases, outs):
            ctx = Ctx()
            try:
                mine = self.run(chk, ctx, ConcInputs(ctx, w), verify=False)
            except Violation as vv:
                if not (out.get('timeout') or 'panic' in out or 'crash' in out):
                    bad.append({'case': self.case_of(w), 'interpreter': str(vv), 'native': out})
                continue
            theirs = {'units': [len(u['tokens']) for u in out.get('units', [])], 'ndiag': len(out.get('diagnostics', []))}
            if mine != theirs: bad.append({'case': self.case_of(w), 'interpreter': mine, 'native': theirs})
        return len(cases), bad


def native_violates(chk, case):
    text = case['text']
    at = utf16_layout(text)
    last = max(at) if at else (0, 0)
    for rel in (False, True):
        out = chk.native.run('parse', [dict(case, timeout_s=20)], release=rel)[0]
        if out.get('timeout') or 'panic' in out: return True
        if 'units' not in out: return True if 'crash' in out and out.get('exit') not in (0, None) else f'native replay failed: {out}'
        prev = 0
        for u in out['units']:
            for s, e in u['tokens']:
                si, ei = at.get(tuple(s)), at.get(tuple(e))
                if si is None or ei is None or not si < ei or si < prev: return True
                prev = ei
        for d in out['diagnostics']:
            si, ei = at.get(tuple(d['start'])), at.get(tuple(d['end']))
            if ei is None and tuple(d['end']) == (last[0], last[1] + 1): ei = len(text) + 1
            if si is None or ei is None or si > ei: return True
    return False


class C02(Check):
    prop = 'C02'
    crates = (L,)

    def parts(self):
        if hasattr(self, '_parts'): return self._parts
        if not hasattr(self, 'll'): self.ll = LangLex(self)
        req = ('compared', 'syntax diagnostic')
        if self.tier == 'quick':
            short = [p for p in PROGS if len(p) <= 64]
            w0 = (self.seed * 7) % 40
            from . import corpus
            lex = [x.decode('latin-1') for x in corpus.skeletons('vhdl_lang', self.seed, count=70, max_len=12)]
            ps = [Parse('chars N<=2 through the whole parser', N=2, required=req),
                  Parse('lexeme corpus, 1 symbolic char anywhere', skeletons=lex, required=req),
                  Parse('short programs, 1 symbolic char in a window', skeletons=short, window=(w0, 12), required=req + ('design unit returned',)),
                  Parse('short programs cut after 1 symbolic char (last 16 positions)', skeletons=short, window=(-16, 16), truncate=True, required=req),
                  Parse('programs, 1 symbolic char in a window', skeletons=[p for p in PROGS if len(p) > 64], window=(w0, 4), required=req)]
        else:
            from . import corpus
            lex = [x.decode('latin-1') for x in corpus.skeletons('vhdl_lang', self.seed, count=225, max_len=24)]
            ps = [Parse('chars N<=2 through the whole parser', N=2, required=req),
                  Parse('chars N=3 through the whole parser', N=3, required=req),
                  Parse('lexeme corpus, 1 symbolic char anywhere', skeletons=lex, required=req),
                  Parse('programs, 1 symbolic char anywhere', skeletons=PROGS, required=req + ('design unit returned',)),
                  Parse('programs cut after 1 symbolic char', skeletons=PROGS, truncate=True, required=req)]
        self._parts = ps
        return ps

    def assumptions(self):
        return ['inputs: all texts up to the exhaustive length; beyond that only the listed skeleton programs with one symbolic character (and their prefixes)',
                'termination is claimed as "returns within the step budget"; an overrun is reported only if the native parser also fails to return within 20 s',
                'walking the AST with ast::search::Search is replaced by a generic walk over the returned AST value that checks every TokenId / TokenSpan it contains',
                'f64 parsing is an uninterpreted function of the digit text; hash containers are modelled; single thread']


if __name__ == '__main__':
    run_check(C02)
