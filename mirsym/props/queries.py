"""Editor queries of vhdl_lang::Project on analysed designs, with a symbolic cursor.

Real code (MIR): Project::{item_at_cursor, find_declaration, find_definition, find_type_definition, find_implementation,
find_all_references, format_declaration, list_completion_options} and everything below them (ast/search.rs, completion.rs, ...),
on designs parsed and analysed by the real parser/analyser together with the bundled std library.
"""
import os, json, re
import z3
from ..util import Panic, Unsupported, Infeasible
from ..values import *
from ..interp import Violation, Ctx
from ..models import HMap, HSet, py_str
from .common import Check, Part, SymInputs, ConcInputs, run_check
from .lang_lex import LangLex, L
from .c17 import choose
from .analysis_kit import ProjectKit, Proj, obs_key, obs_diff, obs_show
from . import designs as DS
from .. import build


def load_design(kit, ctx, D, texts=None):
    """a project as Project::from_config builds it (+ analysis)"""
    pr = kit.new_project(ctx, copy=True)
    for lib, fn, text in D['files']:
        chars = texts[fn] if texts and fn in texts else [BV(ord(c), 32) for c in text]
        pr.set_text(ctx, '/p/' + fn, chars); pr.map_file(ctx, '/p/' + fn, lib); pr.update(ctx, '/p/' + fn)
    pr.diagnostics = pr.analyse(ctx)
    pr.statics = ctx.statics
    return pr


class FileTexts:
    """line tables of the files a location may point into (user files of the design, std files from the checkout under test)"""
    def __init__(self):
        self.lines = {}
        for fn in ProjectKit.STD:
            self.lines['/std/' + fn] = open(os.path.join(build.REPO, 'vhdl_libraries', 'std', fn), encoding='latin-1').read().split('\n')

    def add(self, name, text): self.lines[name] = text.split('\n')

    def inside(self, pos):
        """pos = (file, sl, sc, el, ec) concrete"""
        fn, sl, sc, el, ec = pos
        ls = self.lines.get(fn)
        if ls is None: return f'unknown file {fn}'
        if (sl, sc) > (el, ec): return 'start after end'
        # the end-of-file marker: one position wide, right after the last character of the text (excepted by the property)
        if (sl, sc) == (len(ls) - 1, len(ls[-1])) and (el, ec) == (sl, sc + 1): return None
        for (l, c) in ((sl, sc), (el, ec)):
            if l >= len(ls): return f'line {l} beyond the last line {len(ls) - 1}'
            if c > len(ls[l]): return f'character {c} beyond the end of line {l} (length {len(ls[l])})'
        return None

    def text_at(self, pos):
        fn, sl, sc, el, ec = pos
        ls = self.lines[fn]
        if sl == el: return ls[sl][sc:ec]
        return '\n'.join([ls[sl][sc:]] + ls[sl + 1:el] + [ls[el][:ec]])


def conc_pos(kit, pos):
    t = kit.pos_tuple(pos)
    if not all(isinstance(x, str) or x.conc() for x in t): raise Unsupported('symbolic location in a query result')
    return tuple(x if isinstance(x, str) else x.e for x in t)


def ent_info(kit, ent):
    e = deref(ent); ll = kit.ll
    idf = e.fields[ll.fidx('AnyEnt', 'id')]
    rel = deref(e.fields[ll.fidx('AnyEnt', 'related')])
    dp = deref(e.fields[ll.fidx('AnyEnt', 'decl_pos')])
    des = deref(e.fields[ll.fidx('AnyEnt', 'designator')])
    name = None
    if des.variant == 'Identifier':
        sym = deref(des.fields[0])
        bs = seq_items(deref(deref(sym.fields[1]).fields[0]))
        name = bytes(b.e for b in bs).decode('latin-1') if all(b.conc() for b in bs) else None
    return dict(id=idf.fields[0].e, related=(rel.variant, deref(rel.fields[0]).fields[ll.fidx('AnyEnt', 'id')].fields[0].e if rel.fields else 0),
                decl=None if dp.variant == 'None' else conc_pos(kit, dp.fields[0]), name=name, kind=e.fields[ll.fidx('AnyEnt', 'kind')].variant, designator=des.variant)


def related(a, b):
    """the relation of the property: same declaration, or declaration/definition counterparts, or instance counterparts"""
    if a['id'] == b['id']: return True
    for x, y in ((a, b), (b, a)):
        if x['related'][0] in ('DeclaredBy', 'InstanceOf') and x['related'][1] == y['id']: return True
    return False


class DesignPart(Part):
    isolate = True
    vcap = 6
    thorough_cap = 2400          # analyser-level paths cost seconds each: a thorough part stops after 40 min and reports exhaustive=false for the rest

    def bases(self, chk):
        if not hasattr(chk, '_design_bases'):
            chk._design_bases = {}
            chk.texts = FileTexts()
        for di, D in enumerate(self.designs):
            key = D['name']
            if key not in chk._design_bases:
                ctx = Ctx(); ctx.step_limit = 10 ** 9
                for lib, fn, text in D['files']: chk.texts.add('/p/' + fn, text)
                try: chk._design_bases[key] = load_design(chk.pkit, ctx, D)
                except Panic as p:
                    # loading = parsing + analysis of the design: a panic here is a finding of every path over this design
                    chk._design_bases[key] = ('panic', str(p))
        return chk._design_bases

    def project(self, chk, ctx, inp, D):
        base = self.bases(chk)[D['name']]
        if isinstance(base, tuple): raise Violation('parsing or analysis of the design panics: ' + base[1], 'panic')
        if inp.symbolic: ctx.statics = base.statics; return base
        return base.clone(ctx)

    def native_case(self, D, extra):
        libs = {}
        for lib, fn, _ in D['files']: libs.setdefault(lib, []).append(fn)
        c = {'dir': os.path.join(build.BUILD, 'scratch', f'q-{os.getpid()}'), 'std': os.path.join(build.REPO, 'vhdl_libraries', 'std'),
             'libs': [[k, v] for k, v in libs.items()], 'texts': {fn: t for _, fn, t in D['files']}, 'names': [fn for _, fn, _ in D['files']], 'design': D['name']}
        if 'ieee' in libs: c['third_party'] = ['ieee']
        c.update(extra)
        return c


def cursor_of(ctx, inp):
    return Agg('Position', [inp.bv('line', 32), inp.bv('character', 32)])


class CursorQueries(DesignPart):
    """every query at every cursor position (also outside the text): no panic, locations inside the text (C03); the cursor lies in
    find-all-references of what it resolves to, and every returned position spells the entity's identifier (C08)"""

    def __init__(self, name, designs, mode, required=(), time_cap=None, window=None, window_at=0):
        self.name, self.designs, self.mode = name, designs, mode
        self.window, self.window_at = window, window_at
        self.required_classes = required; self.time_cap = time_cap
        self.bounds = dict(designs=[d['name'] for d in designs], cursor='line and character unconstrained u32 (inside and outside the text), any file of the design' + (f'; files longer than {window} lines: lines of one {window}-line window (rotating with VERIF_SEED) or beyond the text' if window else ''),
                           queries='item_at_cursor, find_declaration, find_definition, find_type_definition, find_implementation, list_completion_options; find_all_references and format_declaration of the declaration found',
                           std='bundled std library, parsed and analysed by the real code')

    def run(self, chk, ctx, inp, verify=True):
        kit = chk.pkit; I = chk.I
        D = self.designs[choose(ctx, inp, 'design', len(self.designs))]
        pr = self.project(chk, ctx, inp, D)
        fi = choose(ctx, inp, 'file', len(D['files'])); fname = '/p/' + D['files'][fi][1]
        src = pr.sources[fname]
        cur = cursor_of(ctx, inp)
        nl = D['files'][fi][2].count('\n') + 1
        if self.window and nl > self.window and inp.symbolic:
            lo = (self.window_at * self.window) % nl
            ctx.assume(z3.Or(z3.And(z3.UGE(cur.fields[0].e, lo), z3.ULT(cur.fields[0].e, lo + self.window)), z3.UGE(cur.fields[0].e, nl)))
        P = ValRef(pr.agg); S = ValRef(src)
        out = {}
        try:
            item = I.call(ctx, L, 'Project::item_at_cursor', [P, S, copy_value(cur)])
            decl = I.call(ctx, L, 'Project::find_declaration', [P, S, copy_value(cur)])
            defn = I.call(ctx, L, 'Project::find_definition', [P, S, copy_value(cur)])
            tdef = I.call(ctx, L, 'Project::find_type_definition', [P, S, copy_value(cur)])
            impl = seq_items(I.call(ctx, L, 'Project::find_implementation', [P, S, copy_value(cur)]))
            comp = seq_items(I.call(ctx, L, 'Project::list_completion_options', [P, S, copy_value(cur)]))
            refs = []; hover = None
            if decl.variant == 'Some':
                refs = seq_items(I.call(ctx, L, 'Project::find_all_references', [P, decl.fields[0]]))
                hover = I.call(ctx, L, 'Project::format_declaration', [P, decl.fields[0]])
        except Panic as p:
            ctx.model()
            raise Violation('a query panics: ' + str(p), 'panic')
        out['item'] = None if item.variant == 'None' else (conc_pos(kit, item.fields[0].fields[0]), ent_info(kit, item.fields[0].fields[1]))
        for k, v in (('declaration', decl), ('definition', defn), ('type_definition', tdef)):
            out[k] = None if v.variant == 'None' else ent_info(kit, v.fields[0])
        out['implementation'] = [ent_info(kit, e) for e in impl]
        out['completions'] = len(comp)
        out['references'] = [conc_pos(kit, r) for r in refs]
        if not verify: return out
        if out['item']: ctx.cover('cursor on an entity')
        else: ctx.cover('cursor on nothing')
        if out['implementation']: ctx.cover('implementation found')
        if out['type_definition']: ctx.cover('type definition found')
        if out['definition'] and out['declaration'] and out['definition']['id'] != out['declaration']['id']: ctx.cover('definition differs from declaration')
        if self.mode == 'C03':
            locs = [out['item'][0]] if out['item'] else []
            locs += [e['decl'] for e in [out['declaration'], out['definition'], out['type_definition']] + out['implementation'] if e and e['decl']]
            locs += out['references']
            for p in locs:
                r = chk.texts.inside(p)
                if r:
                    ctx.model(); raise Violation(f'a query reports the location {p} which is not inside the text: {r}', 'location')
            ctx.obligations += 1
            ctx.cover('compared')
            return None
        # C08
        if out['declaration'] is None: ctx.cover('compared'); return None
        E = out['declaration']
        # (A) the cursor lies in one of the returned positions
        hit = None
        for r in out['references']:
            if r[0] != fname: continue
            c = z3.And(z3.Or(z3.UGT(cur.fields[0].e, r[1]), z3.And(cur.fields[0].e == r[1], z3.UGE(cur.fields[1].e, r[2]))),
                       z3.Or(z3.ULT(cur.fields[0].e, r[3]), z3.And(cur.fields[0].e == r[3], z3.ULE(cur.fields[1].e, r[4]))))
            hit = c if hit is None else z3.Or(hit, c)
        ctx.obligations += 1
        if hit is None or ctx.feasible(z3.Not(hit)):
            raise Violation(f'the cursor resolves to {E["name"] or E["designator"]} (declared at {E["decl"]}) but find-all-references of it does not contain the cursor position; references={out["references"]}', 'refs-miss-cursor')
        # (C) every position spells the identifier
        if E['name'] is not None:
            for r in out['references']:
                t = chk.texts.text_at(r)
                if t.lower() != E['name'].lower() and not (E['kind'] == 'Library' and t.lower() == 'work'):
                    raise Violation(f'find-all-references of {E["name"]} returns {r} which spells {t!r}', 'refs-spelling')
            ctx.cover('spelling compared')
        ctx.cover('compared')
        return None

    def harness(self, chk):
        self.bases(chk)
        def h(ctx):
            ctx.step_limit = max(ctx.step_limit, 60_000_000)
            self.run(chk, ctx, SymInputs(ctx))
        return h

    def case_of(self, w):
        D = self.designs[w.get('design', 0) % len(self.designs)]
        return self.native_case(D, {'file': D['files'][w.get('file', 0) % len(D['files'])][1], 'line': w.get('line', 0), 'character': w.get('character', 0)})

    @staticmethod
    def norm_native(o):
        def pos(p): return None if p is None else tuple(['/p/' + p[0].rsplit('/', 1)[-1] if '/scratch/' in p[0] else '/std/' + p[0].rsplit('/', 1)[-1]] + p[1:])
        def ent(e): return None if e is None else dict(id=e['id'], related=tuple(e['related']) if e['related'][0] != 'None' else ('None', 0), decl=pos(e['decl']), name=e['name'])
        return dict(item=None if o['item'] is None else (pos(o['item'][0]), ent(o['item'][1])), declaration=ent(o['declaration']), definition=ent(o['definition']),
                    type_definition=ent(o['type_definition']), implementation=[ent(e) for e in o['implementation']], completions=o['completions'],
                    references=[pos(p) for p in o['references']])

    @staticmethod
    def norm_mine(o):
        def ent(e): return None if e is None else dict(id=e['id'], related=e['related'], decl=e['decl'], name=e['name'] if e['name'] is not None else None)
        return dict(item=None if o['item'] is None else (o['item'][0], ent(o['item'][1])), declaration=ent(o['declaration']), definition=ent(o['definition']),
                    type_definition=ent(o['type_definition']), implementation=[ent(e) for e in o['implementation']], completions=o['completions'], references=o['references'])

    def oracle_native(self, chk, w, out):
        """the property evaluated on what the native build answers -> True if violated"""
        n = self.norm_native(out)
        if self.mode == 'C03':
            locs = [n['item'][0]] if n['item'] else []
            locs += [e['decl'] for e in [n['declaration'], n['definition'], n['type_definition']] + n['implementation'] if e and e['decl']]
            locs += n['references']
            return any(chk.texts.inside(p) for p in locs)
        E = n['declaration']
        if E is None: return False
        c = self.case_of(w); cur = (c['line'], c['character']); fname = '/p/' + c['file']
        if not any(r[0] == fname and (r[1], r[2]) <= cur <= (r[3], r[4]) for r in n['references']): return True
        # names: the native side renders the designator; identifiers only
        if re.fullmatch(r'[A-Za-z][A-Za-z0-9_]*', E['name'] or ''):
            for r in n['references']:
                t = chk.texts.text_at(r)
                if t.lower() != E['name'].lower() and t.lower() != 'work': return True
        return False

    def replay_case(self, chk, w, v):
        self.bases(chk)
        for rel in (False, True):
            out = chk.native.run('query', [self.case_of(w)], release=rel)[0]
            if 'panic' in out: return True
            if 'references' not in out: return f'native replay failed: {out}'
            if self.oracle_native(chk, w, out): return True
        return False

    def translator_validation(self, chk):
        self.bases(chk)
        rng = chk.rng; cases = []
        for di, D in enumerate(self.designs):
            for _ in range(5):
                fi = rng.randrange(len(D['files'])); lines = D['files'][fi][2].split('\n')
                ln = rng.randrange(len(lines) + 1)
                ch = rng.randrange(len(lines[ln]) + 2) if ln < len(lines) else rng.randrange(4)
                cases.append({'design': di, 'file': fi, 'line': ln, 'character': ch})
        outs = chk.native.run('query', [self.case_of(w) for w in cases])
        bad = []
        for w, out in zip(cases, outs):
            ctx = Ctx(); ctx.step_limit = 10 ** 9
            try: mine = self.norm_mine(self.run(chk, ctx, ConcInputs(ctx, w), verify=False))
            except Violation as vv: mine = {'panic': str(vv)}
            theirs = self.norm_native(out) if 'references' in out else out
            # entity ids are arena numbers: they depend on the order units are analysed in; compare them through the positions
            def strip(o):
                if not isinstance(o, dict) or 'references' not in o: return o
                def e(x): return None if x is None else (x['decl'], x['name'] if x['name'] and re.fullmatch(r'[A-Za-z][A-Za-z0-9_]*', x['name']) else None, x['related'][0])
                def e2(x):
                    if x is None: return None
                    nm = x['name'] if x['name'] and re.fullmatch(r'[A-Za-z][A-Za-z0-9_]*', x['name']) else None
                    return (x['decl'], nm.lower() if nm else None, x['related'][0])
                return dict(item=None if o['item'] is None else (o['item'][0], e2(o['item'][1])), declaration=e2(o['declaration']), definition=e2(o['definition']),
                            type_definition=e2(o['type_definition']), implementation=sorted(map(repr, map(e2, o['implementation']))), completions=o['completions'],
                            references=sorted(o['references']))
            if isinstance(mine, dict) and 'panic' in mine and isinstance(theirs, dict) and 'panic' in theirs: continue
            if strip(mine) != strip(theirs): bad.append({'case': {k: w[k] for k in w}, 'design': self.designs[w['design']]['name'], 'interpreter': json.loads(json.dumps(strip(mine), default=str)), 'native': json.loads(json.dumps(strip(theirs), default=str))})
        return len(cases), bad


class RefsBack(DesignPart):
    """a cursor strictly inside any position returned by find-all-references resolves to the same declaration or its counterpart"""

    def __init__(self, name, designs, required=(), time_cap=None, stride=1, offset=0):
        self.name, self.designs = name, designs
        self.stride, self.offset = stride, offset
        self.required_classes = required; self.time_cap = time_cap
        self.bounds = dict(designs=[d['name'] for d in designs], entity='every entity some reference in a design file resolves to (find_all_entity_references)' + (f'; every {stride}. of them, rotating with VERIF_SEED' if stride > 1 else ''),
                           position='every position find_all_references returns for it that lies in a design file and is at least 2 characters wide',
                           cursor='character symbolic, strictly inside the position')

    def run(self, chk, ctx, inp, verify=True):
        kit = chk.pkit; I = chk.I
        di = choose(ctx, inp, 'design', len(self.designs)); D = self.designs[di]
        pr = self.project(chk, ctx, inp, D)
        fi = choose(ctx, inp, 'file', len(D['files'])); fname = '/p/' + D['files'][fi][1]
        P = ValRef(pr.agg)
        ers = pr.references(ctx, fname)
        # distinct entities in order of first appearance
        ents = []; seen = set()
        for rng_, dcl, ent in ers:
            eid = ent_info(kit, ent)['id']
            if eid not in seen: seen.add(eid); ents.append(ent)
        ents = ents[self.offset % max(1, min(self.stride, len(ents)))::self.stride]
        if not ents: raise Infeasible()
        ent = ents[choose(ctx, inp, 'entity', len(ents))]
        E = ent_info(kit, ent)
        try:
            refs = [conc_pos(kit, r) for r in seq_items(I.call(ctx, L, 'Project::find_all_references', [P, ent]))]
        except Panic as p:
            raise Violation('find_all_references panics: ' + str(p), 'panic')
        cand = [r for r in refs if r[0] in pr.sources and r[1] == r[3] and r[4] - r[2] >= 2]
        if not cand: ctx.cover('no wide position'); return None
        r = cand[choose(ctx, inp, 'position', len(cand))]
        ch = inp.bv('character', 32)
        if inp.symbolic: ctx.assume(z3.And(z3.UGT(ch.e, r[2]), z3.ULT(ch.e, r[4])))
        cur = Agg('Position', [BV(r[1], 32), ch])
        try:
            got = I.call(ctx, L, 'Project::find_declaration', [P, ValRef(pr.sources[r[0]]), cur])
        except Panic as p:
            ctx.model(); raise Violation('find_declaration panics: ' + str(p), 'panic')
        if not verify: return dict(entity=E, position=r, got=None if got.variant == 'None' else ent_info(kit, got.fields[0]))
        ctx.obligations += 1
        if got.variant == 'None':
            ctx.model(); raise Violation(f'find-all-references of {E["name"] or E["designator"]} returns {r}, but a cursor inside it resolves to nothing', 'back-none')
        G = ent_info(kit, got.fields[0])
        if not related(E, G):
            ctx.model(); raise Violation(f'find-all-references of {E["name"] or E["designator"]} (declared at {E["decl"]}) returns {r}, but a cursor inside it resolves to {G["name"] or G["designator"]} declared at {G["decl"]}', 'back-other')
        ctx.cover('compared')
        if G['id'] != E['id']: ctx.cover('counterpart (declaration/definition or instance)')
        return None

    def harness(self, chk):
        self.bases(chk)
        def h(ctx):
            ctx.step_limit = max(ctx.step_limit, 60_000_000)
            self.run(chk, ctx, SymInputs(ctx))
        return h

    def replay_case(self, chk, w, v):
        # recompute the concrete entity and position in the interpreter, then ask the native build the same two questions
        self.bases(chk)
        ctx = Ctx(); ctx.step_limit = 10 ** 9
        try: o = self.run(chk, ctx, ConcInputs(ctx, w), verify=False)
        except Violation: return 'the counterexample does not replay in the interpreter'
        if o is None: return 'nothing to replay'
        D = self.designs[w.get('design', 0) % len(self.designs)]
        E, r = o['entity'], o['position']
        if E['decl'] is None or E['decl'][0] not in chk.texts.lines or not E['decl'][0].startswith('/p/'): return 'entity without a declaration in the design files'
        case = self.native_case(D, {'file': E['decl'][0][3:], 'line': E['decl'][1], 'character': E['decl'][2], 'second': [r[0][3:], r[1], w.get('character', 0)]})
        for rel in (False, True):
            out = chk.native.run('query', [case], release=rel)[0]
            if 'panic' in out: return True
            if 'references' not in out: return f'native replay failed: {out}'
            n = CursorQueries.norm_native(out)
            if r not in n['references']: continue
            sec = out['second']
            if sec is None: return True
            a = dict(id=out['declaration']['id'], related=tuple(out['declaration']['related']))
            b = dict(id=sec['id'], related=tuple(sec['related']))
            if not related(a, b): return True
        return False

    def translator_validation(self, chk): return 0, []


def token_starts(text):
    return [m.start() for m in re.finditer(r"[A-Za-z_][A-Za-z0-9_]*|\d+|\S", text)]


class MutatedAnalysis(DesignPart):
    """one token of a design is damaged (first character replaced by an arbitrary Latin-1 character, token deleted, or the file cut there):
    parsing, analysis (lints included) and the queries at the damaged spot do not panic, and every reported location lies inside the text"""

    def __init__(self, name, design, stride=1, offset=0, required=(), time_cap=None):
        self.name, self.design, self.stride, self.offset = name, design, stride, offset
        self.designs = [design]
        self.required_classes = required; self.time_cap = time_cap
        text = design['files'][0][2]
        self.starts = token_starts(text)[offset::stride]
        self.bounds = dict(design=design['name'], positions=f'{len(self.starts)} token starts (every {stride}. token of the file)',
                           damage='first character of the token replaced by any character 0..255 (symbolic) | token deleted | file cut before the token',
                           then='Project::update_source + analyse (all lints), then item_at_cursor / find_declaration / find_all_references / format_declaration / list_completion_options at the damaged spot',
                           std='bundled std library, parsed and analysed by the real code')

    def bases(self, chk):
        if not hasattr(chk, 'texts'): chk.texts = FileTexts()
        return None

    def mutate(self, ctx, inp):
        text = self.design['files'][0][2]
        k = self.starts[choose(ctx, inp, 'position', len(self.starts))]
        kind = choose(ctx, inp, 'damage', 3)
        m = re.match(r"[A-Za-z_][A-Za-z0-9_]*|\d+|\S", text[k:]); tok_len = len(m.group(0))
        if kind == 0:
            c = inp.bv('char', 32)
            if inp.symbolic: ctx.assume(z3.ULE(c.e, 255))
            chars = [BV(ord(x), 32) for x in text[:k]] + [c] + [BV(ord(x), 32) for x in text[k + 1:]]
        elif kind == 1: chars = [BV(ord(x), 32) for x in text[:k] + text[k + tok_len:]]; c = None
        else: chars = [BV(ord(x), 32) for x in text[:k]]; c = None
        line = text.count('\n', 0, k); col = k - (text.rfind('\n', 0, k) + 1)
        return chars, c, k, kind, line, col

    def run(self, chk, ctx, inp, verify=True):
        kit = chk.pkit; I = chk.I
        D = self.design; lib, fn, text = D['files'][0]
        chars, c, k, kind, line, col = self.mutate(ctx, inp)
        pr = kit.new_project(ctx, copy=not inp.symbolic)
        fname = '/p/' + fn
        try:
            pr.set_text(ctx, fname, chars); pr.map_file(ctx, fname, lib); pr.update(ctx, fname)
            diags = pr.analyse(ctx)
        except Panic as p:
            ctx.model(); raise Violation('parsing or analysis panics: ' + str(p), 'panic')
        dobs = [kit.diag_obs(d) for d in diags]
        # the text as it is now (needed for the location oracle): concrete once the class of the character is decided
        newline = False
        if c is not None:
            newline = ctx.branch(z3.Or(c.e == 10, c.e == 13)) if not c.conc() else c.e in (10, 13)
        P = ValRef(pr.agg); S = ValRef(pr.sources[fname])
        res = []
        try:
            for dc in (0, 1):
                cur = Agg('Position', [BV(line, 32), BV(col + dc, 32)])
                decl = I.call(ctx, L, 'Project::find_declaration', [P, S, copy_value(cur)])
                comp = I.call(ctx, L, 'Project::list_completion_options', [P, S, copy_value(cur)])
                refs = []
                if decl.variant == 'Some':
                    refs = seq_items(I.call(ctx, L, 'Project::find_all_references', [P, decl.fields[0]]))
                    I.call(ctx, L, 'Project::format_declaration', [P, decl.fields[0]])
                res.append((decl, refs, len(seq_items(comp))))
            ers = pr.references(ctx, fname)
        except Panic as p:
            ctx.model(); raise Violation('a query on the damaged design panics: ' + str(p), 'panic')
        if not verify: return [obs_show(d) for d in dobs], [len(r[1]) for r in res], len(ers)
        ctx.cover('analysed')
        if any(d[1] != 'SyntaxError' and d[1] != 'Unused' for d in dobs): ctx.cover('semantic diagnostics')
        if any(d[1] == 'SyntaxError' for d in dobs): ctx.cover('syntax diagnostics')
        if not dobs: ctx.cover('no diagnostics')
        if newline: ctx.cover('line structure changed'); return None
        cur_text = text[:k] + ('\x00' if kind == 0 else '') + (text[k + 1:] if kind == 0 else (text[k + len(re.match(r"[A-Za-z_][A-Za-z0-9_]*|\d+|\S", text[k:]).group(0)):] if kind == 1 else ''))
        chk.texts.add(fname, cur_text)
        locs = [d[0] for d in dobs] + [r[0] for d in dobs for r in d[3]]
        for decl, refs, _ in res:
            if decl.variant == 'Some':
                e = ent_info(kit, decl.fields[0])
                if e['decl']: locs.append(e['decl'])
                locs += [conc_pos(kit, r) for r in refs]
        locs += [(fname,) + tuple(x.e for x in r) for r, _, _ in ers]
        for p in locs:
            p = tuple(x.e if isinstance(x, BV) else x for x in p)
            r = chk.texts.inside(p)
            if r:
                ctx.model(); raise Violation(f'a location outside the text is reported: {p}: {r}', 'location')
        ctx.obligations += 1
        ctx.cover('compared')
        return None

    def harness(self, chk):
        self.bases(chk)
        def h(ctx):
            ctx.step_limit = max(ctx.step_limit, 60_000_000)
            self.run(chk, ctx, SymInputs(ctx))
        return h

    def text_of(self, w):
        text = self.design['files'][0][2]
        k = self.starts[w.get('position', 0) % len(self.starts)]; kind = w.get('damage', 0) % 3
        tl = len(re.match(r"[A-Za-z_][A-Za-z0-9_]*|\d+|\S", text[k:]).group(0))
        if kind == 0: return text[:k] + chr(w.get('char', 0)) + text[k + 1:], k
        if kind == 1: return text[:k] + text[k + tl:], k
        return text[:k], k

    def case_of(self, w):
        text, k = self.text_of(w)
        orig = self.design['files'][0][2]
        line = orig.count('\n', 0, k); col = k - (orig.rfind('\n', 0, k) + 1)
        D = dict(self.design); D['files'] = [(self.design['files'][0][0], self.design['files'][0][1], text)]
        return self.native_case(D, {'file': self.design['files'][0][1], 'line': line, 'character': col})

    def replay_case(self, chk, w, v):
        self.bases(chk)
        case = self.case_of(w)
        text = case['texts'][self.design['files'][0][1]]
        ft = FileTexts(); ft.add('/p/' + self.design['files'][0][1], text)
        for rel in (False, True):
            out = chk.native.run('analyse', [case], release=rel)[0]
            if 'panic' in out: return True
            if 'diagnostics' not in out: return f'native replay failed: {out}'
            if '\n' not in chr(w.get('char', 0)) and '\r' not in chr(w.get('char', 0)) or w.get('damage', 0) % 3 != 0:
                for d in out['diagnostics']:
                    for p in [d[0]] + [r[0] for r in d[3]]:
                        if ft.inside(tuple(['/p/' + p[0].rsplit('/', 1)[-1]] + p[1:])): return True
            for dc in (0, 1):
                c2 = dict(case); c2['character'] = case['character'] + dc
                o2 = chk.native.run('query', [c2], release=rel)[0]
                if 'panic' in o2: return True
        return False

    def translator_validation(self, chk):
        self.bases(chk)
        rng = chk.rng; cases = []
        for _ in range(10):
            cases.append({'position': rng.randrange(len(self.starts)), 'damage': rng.randrange(3), 'char': ord(rng.choice('x;(9 "\'=:z_'))})
        outs = chk.native.run('analyse', [self.case_of(w) for w in cases])
        bad = []
        for w, out in zip(cases, outs):
            ctx = Ctx(); ctx.step_limit = 10 ** 9
            try: mine = self.run(chk, ctx, ConcInputs(ctx, w), verify=False)
            except Violation as vv: mine = ('panic', str(vv))
            if 'diagnostics' not in out: theirs = out
            else: theirs = sorted([['/p/' + d[0][0].rsplit('/', 1)[-1]] + d[0][1:], d[1], d[2]] for d in out['diagnostics'])
            m2 = sorted([list(d[0]), d[1], d[2]] for d in mine[0]) if mine[0] != 'panic' else mine
            if json.loads(json.dumps(m2)) != json.loads(json.dumps(theirs)): bad.append({'case': w, 'interpreter': m2, 'native': theirs})
        return len(cases), bad
