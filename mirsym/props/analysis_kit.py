"""Building blocks for checks that need the analyser: a design root with the bundled `std` library parsed and analysed by the
real code (once per process), graph-preserving copies of it per path, adding user files, running the real DesignRoot::analyze."""
import os, time, zlib
from ..util import Panic, Unsupported
from ..values import *
from ..interp import Ctx, Violation
from ..models import HMap, HSet, py_str, ListIt
from .lang_lex import LangLex, L, clone_deep
from .. import build


def clone_graph(v, memo=None):
    """deep copy preserving sharing and cycles (entity references point into arenas; Arc'd sources are shared)"""
    if memo is None: memo = {}
    def cp(x):
        if isinstance(x, (BV, bool, int, str, Unit)) or x is None: return x
        k = id(x)
        if k in memo: return memo[k]
        if isinstance(x, Agg):
            n = Agg(x.name, [], x.variant, x.vidx); memo[k] = n
            n.fields = [cp(f) for f in x.fields]; return n
        if isinstance(x, list):
            n = []; memo[k] = n; n.extend(cp(y) for y in x); return n
        if isinstance(x, VecV):
            n = VecV([]); memo[k] = n; n.items = cp(x.items); return n
        if isinstance(x, StrV):
            n = StrV(list(x.b)); memo[k] = n; return n
        if isinstance(x, HMap):
            n = HMap(); memo[k] = n; n.keys = cp(x.keys); n.vals = cp(x.vals); return n
        if isinstance(x, HSet):
            n = HSet(); memo[k] = n; n.items = cp(x.items); return n
        if isinstance(x, ElemRef):
            n = ElemRef(cp(x.lst), x.idx); memo[k] = n; return n
        if isinstance(x, FieldRef):
            n = FieldRef(None, x.idx); memo[k] = n; n.obj = cp(x.obj); return n
        if isinstance(x, ValRef):
            n = ValRef(None); memo[k] = n; n.v = cp(x.v); return n
        if isinstance(x, SliceV):
            n = SliceV(cp(x.base), x.lo, x.hi, x.is_str); memo[k] = n; return n
        if isinstance(x, tuple): return tuple(cp(y) for y in x)
        if isinstance(x, LocalRef): raise Unsupported('a reference to a dead stack frame escaped into the heap')
        return x
    return cp(v)


class AnalysisKit:
    STD = ['standard.vhd', 'textio.vhd', 'env.vhd']

    def __init__(self, chk, log=print):
        self.chk = chk; self.I = chk.I; self.ll = chk.ll
        ll = self.ll; I = self.I
        t = time.time()
        ctx = Ctx(); ctx.step_limit = 10 ** 10
        self.symbols = ll.fresh_symbols()
        self.parser = Agg('VHDLParser', [None] * len(ll.S['VHDLParser']))
        self.parser.fields[ll.fidx('VHDLParser', 'symbols')] = self.symbols
        self.parser.fields[ll.fidx('VHDLParser', 'standard')] = I.enum_value(L, 'VHDLStandard', 'VHDL2008')
        F = ll.S['DesignRoot']
        root = Agg('DesignRoot', [None] * len(F))
        root.fields[F.index('symbols')] = self.symbols
        for n in ('standard_pkg_id', 'standard_arena', 'universal', 'standard_types', 'std_ulogic'): root.fields[F.index(n)] = NONE()
        root.fields[F.index('libraries')] = HMap()
        root.fields[F.index('arenas')] = Agg('FinalArena', [HMap()])
        for n in ('users_of', 'missing_unit', 'users_of_library_all'): root.fields[F.index(n)] = Agg('CellLike', [HMap()])
        self.nsrc = 0
        std = self.intern(ctx, 'std')
        for fn in self.STD:
            text = open(os.path.join(build.REPO, 'vhdl_libraries', 'std', fn), encoding='latin-1').read()
            src = self.new_source(ctx, '/std/' + fn)
            df, d = self.parse(ctx, src, [BV(ord(c), 32) for c in text])
            assert not d, 'std does not parse'
            I.call(ctx, L, 'DesignRoot::add_design_file', [ValRef(root), clone_deep(std), df])
        diags = VecV([])
        I.call(ctx, L, 'DesignRoot::analyze', [ValRef(root), ValRef(diags)])
        assert not diags.items, 'std has diagnostics'
        self.base = (root, ctx.statics)
        log(f'[kit] std parsed and analysed by the real code in {time.time() - t:.1f}s ({ctx.steps} MIR steps)')

    def intern(self, ctx, name, symbols=None):
        tab = (symbols or self.symbols).fields[self.ll.fidx('Symbols', 'symtab')]
        return self.I.call(ctx, L, 'SymbolTable::insert_utf8', [ValRef(tab), ValRef(py_str(name))])

    def new_source(self, ctx, name):
        src, _ = self.ll.make_source(ctx, [])
        self.nsrc += 1
        src.fields[0].fields[self.ll.fidx('UniqueSource', 'file_id')] = Agg('FileId', [Agg('FilePath', [py_str(name)]), BV(zlib.crc32(name.encode()), 64)])   # FileId equality is (hash, name)
        return src

    def parse(self, ctx, src, chars, parser=None):
        from ..models import utf8_encode
        b = []
        for c in chars: b.extend(utf8_encode(ctx, c))
        cont = self.I.call(ctx, L, 'Contents::from_str', [ValRef(StrV(b))])
        src.fields[0].fields[self.ll.fidx('UniqueSource', 'contents')] = Agg('CellLike', [cont])
        d = VecV([])
        df = self.I.call(ctx, L, 'VHDLParser::parse_design_source', [ValRef(parser or self.parser), ValRef(src), ValRef(d)])
        return df, d.items

    def fresh(self, ctx):
        """a private copy of the analysed base state for this path: (root, parser)"""
        memo = {}
        root = clone_graph(self.base[0], memo)
        ctx.statics = clone_graph(self.base[1], memo)
        parser = clone_graph(self.parser, memo)
        return root, parser

    def analyze(self, ctx, root):
        diags = VecV([])
        self.I.call(ctx, L, 'DesignRoot::analyze', [ValRef(root), ValRef(diags)])
        return diags.items

    def diag_tuple(self, d):
        ll = self.ll
        pos = d.fields[ll.fidx('Diagnostic', 'pos')]
        us = pos.fields[ll.fidx('SrcPos', 'source')].fields[0]
        fn = bytes(b.e for b in us.fields[ll.fidx('UniqueSource', 'file_id')].fields[0].fields[0].b).decode()
        r = pos.fields[ll.fidx('SrcPos', 'range')]
        msg = d.fields[ll.fidx('Diagnostic', 'message')]
        msg = bytes(b.e for b in msg.b).decode('latin-1') if isinstance(msg, StrV) and all(b.conc() for b in msg.b) else '<symbolic>'
        return (fn, tuple(x.e if x.conc() else None for p in r.fields for x in p.fields), msg, d.fields[ll.fidx('Diagnostic', 'code')].variant)


# ------------------------------------------------------------------------------------------------ whole projects
class Proj:
    """a vhdl_lang::Project living in the interpreter: real update_source / analyse / queries"""

    def __init__(self, kit, ctx, agg, parser):
        self.kit, self.agg, self.parser = kit, agg, parser
        self.sources = {}            # file name -> Source
        self.statics = None

    def _files(self): return self.agg.fields[self.kit.ll.fidx('Project', 'files')]

    def clone(self, ctx):
        """an independent copy (project, sources, statics) for runs that are not isolated in their own process"""
        memo = {}
        agg = clone_graph(self.agg, memo)
        pr = Proj(self.kit, ctx, agg, agg.fields[self.kit.ll.fidx('Project', 'parser')])
        pr.sources = {k: clone_graph(v, memo) for k, v in self.sources.items()}
        ctx.statics = clone_graph(self.statics, memo)
        pr.statics = ctx.statics
        if hasattr(self, 'diagnostics'): pr.diagnostics = clone_graph(self.diagnostics, memo)
        return pr

    def set_text(self, ctx, name, chars):
        """Source::change(None, text) on the file's source (created on first use)"""
        kit = self.kit
        b = []
        from ..models import utf8_encode
        for c in chars: b.extend(utf8_encode(ctx, c))
        if name not in self.sources:
            self.sources[name] = kit.new_source(ctx, name)
            cont = kit.I.call(ctx, L, 'Contents::from_str', [ValRef(StrV(b))])
            self.sources[name].fields[0].fields[kit.ll.fidx('UniqueSource', 'contents')] = Agg('CellLike', [cont])
        else:
            kit.I.call(ctx, L, 'Source::change', [ValRef(self.sources[name]), NONE(), ValRef(StrV(b))])
        return self.sources[name]

    def map_file(self, ctx, name, lib):
        """what Project::from_config does for a file of the configuration: a SourceFile entry with its library name"""
        kit = self.kit
        src = self.sources[name]
        libs = HSet(); libs.items.append(kit.intern(ctx, lib, self.parser.fields[0]))
        sf = Agg('SourceFile', [None] * 4); S = kit.ll.S['SourceFile']
        sf.fields[S.index('library_names')] = libs; sf.fields[S.index('source')] = src
        sf.fields[S.index('design_file')] = kit.I.call(ctx, L, '<DesignFile as Default>::default', [])
        sf.fields[S.index('parser_diagnostics')] = VecV([])
        fp = src.fields[0].fields[kit.ll.fidx('UniqueSource', 'file_id')].fields[0]
        f = self._files(); f.keys.append(fp); f.vals.append(sf)

    def update(self, ctx, name):
        self.kit.I.call(ctx, L, 'Project::update_source', [ValRef(self.agg), ValRef(self.sources[name])])

    def analyse(self, ctx):
        return seq_items(self.kit.I.call(ctx, L, 'Project::analyse', [ValRef(self.agg)]))

    def references(self, ctx, name):
        """[(range of the reference, declaration position of the entity or None, entity)]"""
        kit = self.kit
        out = []
        for t in seq_items(kit.I.call(ctx, L, 'Project::find_all_entity_references', [ValRef(self.agg), ValRef(self.sources[name])])):
            pos, ent = t.fields
            out.append((kit.range_tuple(pos.fields[kit.ll.fidx('SrcPos', 'range')]), kit.ent_decl(ent), ent))
        return out


class ProjectKit(AnalysisKit):
    def __init__(self, chk, libs=('lib0', 'lib1', 'lib2'), third_party=(), log=print):
        super().__init__(chk, log)
        ll, I = self.ll, self.I
        ctx = Ctx(); ctx.step_limit = 10 ** 9; ctx.statics = self.base[1]
        FC = ll.S['Config']; cfg = Agg('Config', [None] * len(FC))
        cfg.fields[FC.index('libraries')] = HMap(); cfg.fields[FC.index('standard')] = I.enum_value(L, 'VHDLStandard', 'VHDL2008')
        cfg.fields[FC.index('preferred_case')] = NONE()
        for lib in libs:
            cfg.fields[FC.index('libraries')].keys.append(py_str(lib))
            cfg.fields[FC.index('libraries')].vals.append(Agg('LibraryConfig', [py_str(lib), VecV([]), VecV([]), BV(1 if lib in third_party else 0, 8)]))
        F = ll.S['Project']; proj = Agg('Project', [None] * len(F))
        proj.fields[F.index('parser')] = self.parser; proj.fields[F.index('config')] = cfg; proj.fields[F.index('root')] = self.base[0]
        proj.fields[F.index('files')] = HMap(); proj.fields[F.index('empty_libraries')] = HSet()
        proj.fields[F.index('lint')] = I.call(ctx, L, '<Linters as Default>::default', [])
        I.call(ctx, L, 'Project::enable_all_linters', [ValRef(proj)])
        self.base_project = proj

    def new_project(self, ctx, copy=True):
        """a project with std loaded and analysed; copy=False hands out the shared base (only for isolated, single-project paths)"""
        if copy:
            memo = {}
            proj = clone_graph(self.base_project, memo)
            ctx.statics = clone_graph(self.base[1], memo)
        else:
            proj = self.base_project; ctx.statics = self.base[1]
        return Proj(self, ctx, proj, proj.fields[self.ll.fidx('Project', 'parser')])

    # -- observations
    def range_tuple(self, r): return tuple(x for p in r.fields for x in p.fields)

    def pos_tuple(self, pos):
        ll = self.ll
        us = pos.fields[ll.fidx('SrcPos', 'source')].fields[0]
        fn = bytes(b.e for b in us.fields[ll.fidx('UniqueSource', 'file_id')].fields[0].fields[0].b).decode()
        return (fn,) + self.range_tuple(pos.fields[ll.fidx('SrcPos', 'range')])

    def ent_decl(self, ent):
        e = deref(ent)
        dp = e.fields[self.ll.fidx('AnyEnt', 'decl_pos')]
        return None if dp.variant == 'None' else self.pos_tuple(dp.fields[0])

    def diag_obs(self, d):
        ll = self.ll
        m = deref(d.fields[ll.fidx('Diagnostic', 'message')])
        if isinstance(m, StrV): msg = tuple(m.b)
        elif type(m).__name__ == 'Opaque': msg = (('message with a symbolic number', m.why),)      # e.g. "Index {idx} out of range" with a symbolic digit
        else: raise Unsupported(f'diagnostic message not modelled: {m!r} code={d.fields[ll.fidx("Diagnostic", "code")].variant} at {obs_show(self.pos_tuple(d.fields[ll.fidx("Diagnostic", "pos")]))}')
        rel = tuple((self.pos_tuple(r.fields[0]), tuple(deref(r.fields[1]).b)) for r in seq_items(d.fields[ll.fidx('Diagnostic', 'related')]))
        return (self.pos_tuple(d.fields[ll.fidx('Diagnostic', 'pos')]), d.fields[ll.fidx('Diagnostic', 'code')].variant, msg, rel)


def obs_key(o):
    """sort key using only the concrete parts of an observation"""
    if isinstance(o, BV): return (0, o.e) if o.conc() else (1, 0)
    if isinstance(o, tuple): return (2, tuple(obs_key(x) for x in o))
    if o is None: return (3, 0)
    return (4, o)


def obs_diff(ctx, a, b):
    """None if the two observations are equal for every value of the symbolic inputs on this path, else a description"""
    conds = []
    def walk(x, y, path):
        if isinstance(x, BV) and isinstance(y, BV):
            if x.conc() and y.conc():
                return None if x.e == y.e else f'{path}: {x.e} != {y.e}'
            conds.append(bv_eq(x, y)); return None
        if isinstance(x, tuple) and isinstance(y, tuple):
            if len(x) != len(y): return f'{path}: {len(x)} != {len(y)} elements'
            for i, (p, q) in enumerate(zip(x, y)):
                r = walk(p, q, f'{path}.{i}')
                if r: return r
            return None
        if isinstance(x, (BV, tuple)) or isinstance(y, (BV, tuple)): return f'{path}: shapes differ'
        return None if x == y else f'{path}: {x!r} != {y!r}'
    r = walk(a, b, '')
    if r: return r
    if conds:
        c = conds[0]
        for d in conds[1:]: c = b_and(c, d)
        ctx.obligations += 1
        if ctx.feasible(b_not(c)): return 'symbolic parts differ'
    return None


def obs_show(o):
    if isinstance(o, BV): return o.e if o.conc() else '?'
    if isinstance(o, tuple):
        if o and all(isinstance(x, BV) for x in o) and len(o) > 4: return ''.join(chr(x.e) if x.conc() else '?' for x in o)
        return tuple(obs_show(x) for x in o)
    return o
