"""Building blocks for checks that need the analyser: a design root with the bundled `std` library parsed and analysed by the
real code (once per process), graph-preserving copies of it per path, adding user files, running the real DesignRoot::analyze."""
import os, time
from ..util import Panic, Unsupported
from ..values import *
from ..interp import Ctx, Violation
from ..models import HMap, HSet, py_str, ListIt
from .lang_lex import LangLex, L, clone_deep
from .. import build


def clone_graph(v, memo=None):
    """deep copy preserving sharing and cycles (entity references point into arenas; Arc'd sources are shared)"""
    if memo is None: memo = {}
    def cp(x):
        if isinstance(x, (BV, bool, int, str, Unit)) or x is None: return x
        k = id(x)
        if k in memo: return memo[k]
        if isinstance(x, Agg):
            n = Agg(x.name, [], x.variant, x.vidx); memo[k] = n
            n.fields = [cp(f) for f in x.fields]; return n
        if isinstance(x, list):
            n = []; memo[k] = n; n.extend(cp(y) for y in x); return n
        if isinstance(x, VecV):
            n = VecV([]); memo[k] = n; n.items = cp(x.items); return n
        if isinstance(x, StrV):
            n = StrV(list(x.b)); memo[k] = n; return n
        if isinstance(x, HMap):
            n = HMap(); memo[k] = n; n.keys = cp(x.keys); n.vals = cp(x.vals); return n
        if isinstance(x, HSet):
            n = HSet(); memo[k] = n; n.items = cp(x.items); return n
        if isinstance(x, ElemRef):
            n = ElemRef(cp(x.lst), x.idx); memo[k] = n; return n
        if isinstance(x, FieldRef):
            n = FieldRef(None, x.idx); memo[k] = n; n.obj = cp(x.obj); return n
        if isinstance(x, ValRef):
            n = ValRef(None); memo[k] = n; n.v = cp(x.v); return n
        if isinstance(x, SliceV):
            n = SliceV(cp(x.base), x.lo, x.hi, x.is_str); memo[k] = n; return n
        if isinstance(x, tuple): return tuple(cp(y) for y in x)
        if isinstance(x, LocalRef): raise Unsupported('a reference to a dead stack frame escaped into the heap')
        return x
    return cp(v)


class AnalysisKit:
    STD = ['standard.vhd', 'textio.vhd', 'env.vhd']

    def __init__(self, chk, log=print):
        self.chk = chk; self.I = chk.I; self.ll = chk.ll
        ll = self.ll; I = self.I
        t = time.time()
        ctx = Ctx(); ctx.step_limit = 10 ** 10
        self.symbols = ll.fresh_symbols()
        self.parser = Agg('VHDLParser', [None] * len(ll.S['VHDLParser']))
        self.parser.fields[ll.fidx('VHDLParser', 'symbols')] = self.symbols
        self.parser.fields[ll.fidx('VHDLParser', 'standard')] = I.enum_value(L, 'VHDLStandard', 'VHDL2008')
        F = ll.S['DesignRoot']
        root = Agg('DesignRoot', [None] * len(F))
        root.fields[F.index('symbols')] = self.symbols
        for n in ('standard_pkg_id', 'standard_arena', 'universal', 'standard_types', 'std_ulogic'): root.fields[F.index(n)] = NONE()
        root.fields[F.index('libraries')] = HMap()
        root.fields[F.index('arenas')] = Agg('FinalArena', [HMap()])
        for n in ('users_of', 'missing_unit', 'users_of_library_all'): root.fields[F.index(n)] = Agg('CellLike', [HMap()])
        self.nsrc = 0
        std = self.intern(ctx, 'std')
        for fn in self.STD:
            text = open(os.path.join(build.REPO, 'vhdl_libraries', 'std', fn), encoding='latin-1').read()
            src = self.new_source(ctx, '/std/' + fn)
            df, d = self.parse(ctx, src, [BV(ord(c), 32) for c in text])
            assert not d, 'std does not parse'
            I.call(ctx, L, 'DesignRoot::add_design_file', [ValRef(root), clone_deep(std), df])
        diags = VecV([])
        I.call(ctx, L, 'DesignRoot::analyze', [ValRef(root), ValRef(diags)])
        assert not diags.items, 'std has diagnostics'
        self.base = (root, ctx.statics)
        log(f'[kit] std parsed and analysed by the real code in {time.time() - t:.1f}s ({ctx.steps} MIR steps)')

    def intern(self, ctx, name, symbols=None):
        tab = (symbols or self.symbols).fields[self.ll.fidx('Symbols', 'symtab')]
        return self.I.call(ctx, L, 'SymbolTable::insert_utf8', [ValRef(tab), ValRef(py_str(name))])

    def new_source(self, ctx, name):
        src, _ = self.ll.make_source(ctx, [])
        self.nsrc += 1
        src.fields[0].fields[self.ll.fidx('UniqueSource', 'file_id')] = Agg('FileId', [Agg('FilePath', [py_str(name)]), BV(1000 + self.nsrc, 64)])
        return src

    def parse(self, ctx, src, chars, parser=None):
        from ..models import utf8_encode
        b = []
        for c in chars: b.extend(utf8_encode(ctx, c))
        cont = self.I.call(ctx, L, 'Contents::from_str', [ValRef(StrV(b))])
        src.fields[0].fields[self.ll.fidx('UniqueSource', 'contents')] = Agg('CellLike', [cont])
        d = VecV([])
        df = self.I.call(ctx, L, 'VHDLParser::parse_design_source', [ValRef(parser or self.parser), ValRef(src), ValRef(d)])
        return df, d.items

    def fresh(self, ctx):
        """a private copy of the analysed base state for this path: (root, parser)"""
        memo = {}
        root = clone_graph(self.base[0], memo)
        ctx.statics = clone_graph(self.base[1], memo)
        parser = clone_graph(self.parser, memo)
        return root, parser

    def analyze(self, ctx, root):
        diags = VecV([])
        self.I.call(ctx, L, 'DesignRoot::analyze', [ValRef(root), ValRef(diags)])
        return diags.items

    def diag_tuple(self, d):
        ll = self.ll
        pos = d.fields[ll.fidx('Diagnostic', 'pos')]
        us = pos.fields[ll.fidx('SrcPos', 'source')].fields[0]
        fn = bytes(b.e for b in us.fields[ll.fidx('UniqueSource', 'file_id')].fields[0].fields[0].b).decode()
        r = pos.fields[ll.fidx('SrcPos', 'range')]
        msg = d.fields[ll.fidx('Diagnostic', 'message')]
        msg = bytes(b.e for b in msg.b).decode('latin-1') if isinstance(msg, StrV) and all(b.conc() for b in msg.b) else '<symbolic>'
        return (fn, tuple(x.e if x.conc() else None for p in r.fields for x in p.fields), msg, d.fields[ll.fidx('Diagnostic', 'code')].variant)
