"""C08  Definition and reference queries are mutually consistent.

Real code (MIR): Project::find_declaration / item_at_cursor (ItemAtCursor with span pruning) against Project::find_all_references
(FindAllReferences, exhaustive) and find_all_entity_references, on designs analysed by the real analyser.
 forward : for every cursor position (symbolic line/character) that resolves to an entity, find-all-references of that entity contains a
           position that contains the cursor; every returned position spells the entity's identifier (case-insensitively; `work` excepted)
 back    : for every entity referenced in a design file and every position find-all-references returns for it, a cursor strictly inside
           that position (symbolic character) resolves to the same declaration or its definition / instance counterpart
"""
from .queries import *


class C08(Check):
    prop = 'C08'
    crates = (L,)

    def parts(self):
        if hasattr(self, '_parts'): return self._parts
        if not hasattr(self, 'll'): self.ll = LangLex(self)
        if not hasattr(self, 'pkit'): self.pkit = ProjectKit(self, log=self.log)
        ds = DS.DESIGNS if self.tier != 'quick' else [[DS.D_TREE, DS.D_SEM], [DS.D_ZOO], [DS.D_GENERIC, DS.D_RECORDS]][self.seed % 3]
        ps = [CursorQueries('forward: cursor -> entity -> references contain the cursor', ds, 'C08', required=('compared', 'spelling compared', 'cursor on an entity', 'cursor on nothing'),
                            window=30 if self.tier == 'quick' else None, window_at=self.seed // 3),
              RefsBack('back: reference position -> cursor inside -> same entity or counterpart', ds, stride=3 if self.tier == 'quick' else 1, offset=self.seed // 3, required=('compared',) + (('counterpart (declaration/definition or instance)',) if self.tier != 'quick' else ()))]
        self._parts = ps
        return ps

    def assumptions(self):
        return ['designs: the listed files, loaded as Project::from_config loads them, with the bundled std library',
                'back direction: positions at least two characters wide on one line (a cursor strictly inside exists only there)',
                'FnvHashMap/FnvHashSet are modelled insertion ordered; rayon runs sequentially']


if __name__ == '__main__':
    run_check(C08)
