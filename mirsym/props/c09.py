"""C09  Rename is meaning-preserving.

Real code (MIR): vhdl_ls `VHDLServer::prepare_rename` and `VHDLServer::rename` (rename.rs, srcpos_to_location, to_lsp_range) on a server whose
project is a valid design analysed by the real parser/analyser; then the edits are applied to the texts and the edited project is loaded
and analysed from scratch by the real code.  The new identifier has the length of the old one (so coordinates are comparable) and ends
in a symbolic letter/digit: any value for which it occurs nowhere in the project or in std.
Obligations: prepare_rename answers the range of the occurrence under the cursor for identifiers and refuses operator symbols and
character literals; every edit replaces text that spells the old identifier (case-insensitively) - nothing else is touched; after the
edits the diagnostics are the same (position, code, message length) and the reference map (reference range -> declaration position) is
identical, i.e. no occurrence was missed and nothing else was captured.
"""
from .queries import *
from .c06 import known_identifiers

from ..models import str_bytes
LS = 'vhdl_ls'


def install_stubs(I):
    M = {}
    def model(*names):
        def deco(f):
            for n in names: M[n] = f
            return f
        return deco
    @model('file_name_to_uri')
    def _(I, ctx, path):
        p = deref(path)
        return Agg('Url', [StrV(list(p.b if isinstance(p, StrV) else seq_items(p)))])
    @model('uri_to_file_name')
    def _(I, ctx, uri):
        # a Url is its path here; `/./` stands for any spelling difference that URL decoding removes (percent-encoding, dot segments)
        b = bytes(x.e for x in deref(uri).fields[0].b).replace(b'/./', b'/')
        return StrV([BV(x, 8) for x in b])
    @model('std::path::absolute', 'absolute')
    def _(I, ctx, p): return OK(StrV(list(str_bytes(p))))
    @model('dunce::simplified', 'simplified')
    def _(I, ctx, p): return p
    @model('<lsp_types::Url as Clone>::clone', '<Url as Clone>::clone')
    def _(I, ctx, u): return Agg('Url', [StrV(list(deref(u).fields[0].b))])
    @model('<lsp_types::WorkspaceEdit as Default>::default', '<WorkspaceEdit as Default>::default', '<WorkspaceEdit as std::default::Default>::default')
    def _(I, ctx): return Agg('WorkspaceEdit', [NONE(), NONE(), NONE()])
    I.add_models(M)
    return sorted(M)


def url_of(name): return Agg('Url', [py_str(name)])


def lsp_rename(D, fn, line, ch, new_name):
    """the real vhdl_ls binary over stdio on a scratch copy of the design: (prepareRename result, {file: sorted edit ranges})"""
    import tempfile, shutil
    from .c14 import LspClient, lsp_binary
    os.makedirs(os.path.join(build.BUILD, 'scratch'), exist_ok=True)
    root = tempfile.mkdtemp(prefix='c09-', dir=os.path.join(build.BUILD, 'scratch'))
    try:
        libs = {}
        for lib, f, t in D['files']:
            libs.setdefault(lib, []).append(f)
            with open(os.path.join(root, f), 'w', encoding='latin-1') as fh: fh.write(t)
        with open(os.path.join(root, 'vhdl_ls.toml'), 'w') as fh:
            fh.write('[libraries]\n' + ''.join(f'{k}.files = [{", ".join(repr(x) for x in v)}]\n' for k, v in libs.items()))
        c = LspClient(lsp_binary(), root)
        try:
            doc = {'textDocument': {'uri': 'file://' + os.path.join(root, fn)}, 'position': {'line': line, 'character': ch}}
            prep = c.request('textDocument/prepareRename', doc).get('result')
            res = c.request('textDocument/rename', dict(doc, newName=new_name)).get('result')
        finally: c.stop()
        edits = {}
        for uri, tes in ((res or {}).get('changes') or {}).items():
            edits['/p/' + uri.rsplit('/', 1)[-1] if uri.startswith('file://' + root) else uri] = sorted((e['range']['start']['line'], e['range']['start']['character'], e['range']['end']['line'], e['range']['end']['character']) for e in tes)
        return prep, edits
    finally:
        shutil.rmtree(root, ignore_errors=True)


class Rename(DesignPart):
    def __init__(self, name, designs, stride=1, offset=0, required=(), time_cap=None):
        self.name, self.designs, self.stride, self.offset = name, designs, stride, offset
        self.required_classes = required; self.time_cap = time_cap
        self.words = known_identifiers()
        for d in designs:
            for _, _, t in d['files']: self.words |= {w.lower() for w in re.findall(r'[A-Za-z][A-Za-z0-9_]*', t)}
        self.bounds = dict(designs=[d['name'] for d in designs], occurrence=f'every {stride}. reference (find_all_entity_references) of every file, cursor character symbolic within the occurrence',
                           new_name='same length as the old identifier, last character a symbolic letter/digit, assumed to occur nowhere in the project or std',
                           compared='diagnostics (position, code, message length) and the reference map of every file, against a fresh load of the edited texts')

    def new_server(self, chk, pr):
        info = chk.I.crates[LS]
        F = info.structs['VHDLServer']; srv = Agg('VHDLServer', [None] * len(F))
        S = info.structs['VHDLServerSettings']; st = Agg('VHDLServerSettings', [None] * len(S))
        st.fields[S.index('no_lint')] = False; st.fields[S.index('silent')] = True
        srv.fields[F.index('rpc')] = Agg('SharedRpcChannel', [None]); srv.fields[F.index('settings')] = st
        srv.fields[F.index('use_external_config')] = False; srv.fields[F.index('project')] = pr.agg
        srv.fields[F.index('diagnostic_cache')] = HMap(); srv.fields[F.index('semantic_token_cache')] = HMap()
        srv.fields[F.index('init_params')] = NONE(); srv.fields[F.index('config_file')] = NONE()
        srv.fields[F.index('severity_map')] = None; srv.fields[F.index('case_transform')] = NONE()
        srv.fields[F.index('string_matcher')] = Agg('SkimMatcherV2', [])
        return srv

    def refmap(self, kit, ctx, pr, D):
        out = []
        for _, fn, _ in D['files']:
            for rng_, dcl, ent in pr.references(ctx, '/p/' + fn):
                out.append((fn, obs_show(rng_), obs_show(dcl) if dcl else None))
        return sorted(out, key=repr)

    def run(self, chk, ctx, inp, verify=True):
        kit = chk.pkit; I = chk.I
        di = choose(ctx, inp, 'design', len(self.designs)); D = self.designs[di]
        pr = self.project(chk, ctx, inp, D)
        fi = choose(ctx, inp, 'file', len(D['files'])); fname = '/p/' + D['files'][fi][1]
        ers = pr.references(ctx, fname)[self.offset % self.stride::self.stride]
        if not ers: raise Infeasible()
        rng_, dcl, ent = ers[choose(ctx, inp, 'occurrence', len(ers))]
        r = obs_show(rng_)
        E = ent_info(kit, ent)
        if E['kind'] == 'Library': raise Infeasible()                # the property is about non-library entities
        if E['decl'] is None or not E['decl'][0].startswith('/p/'): raise Infeasible()     # declared in std (or implicit): not a declaration of the design
        if E['related'][0] == 'ImplicitOf' or (E['name'] is not None and chk.texts.text_at(E['decl']).lower() != E['name'].lower()):
            # an implicit declaration (endfile of a file type, ...) borrows the position of the declaration that implies it: it has no text of its
            # own to rename and is not among the renameable declarations the property lists
            ctx.cover('implicit declaration skipped'); return None
        before_diags = sorted((obs_show(kit.diag_obs(d)[0]), kit.diag_obs(d)[1], len(kit.diag_obs(d)[2])) for d in pr.diagnostics)
        before_refs = self.refmap(kit, ctx, pr, D)
        srv = self.new_server(chk, pr)
        ch = inp.bv('character', 32)
        if inp.symbolic: ctx.assume(z3.And(z3.UGE(ch.e, r[1]), z3.ULE(ch.e, r[3]))) if r[0] == r[2] else ctx.assume(ch.e == r[1])
        elif not (r[1] <= ch.e <= (r[3] if r[0] == r[2] else r[1])): ch = BV(r[1], 32)
        tdp = Agg('TextDocumentPositionParams', [Agg('TextDocumentIdentifier', [url_of(fname)]), Agg('Position', [BV(r[0], 32), ch])])
        try:
            prep = I.call(ctx, LS, 'VHDLServer::prepare_rename', [ValRef(srv), ValRef(tdp)])
        except Panic as p:
            ctx.model(); raise Violation('prepare_rename panics: ' + str(p), 'panic')
        if E['designator'] != 'Identifier':
            ctx.obligations += 1
            if prep.variant != 'None':
                ctx.model(); raise Violation(f'prepare_rename does not refuse the {E["designator"]} at {r} of {fname}', 'not-refused')
            ctx.cover('operator symbol or character literal refused'); return None
        old = E['name']
        if prep.variant == 'None':
            ctx.model(); raise Violation(f'prepare_rename refuses the identifier {old} at {r} of {fname}', 'refused')
        pr_rng = tuple(x.e for p in prep.fields[0].fields[0].fields for x in p.fields)
        if pr_rng != tuple(r):
            ctx.model(); raise Violation(f'prepare_rename answers {pr_rng} for the occurrence {r} of {old}', 'prepare-range')
        # the new name: same length, unknown to the project
        c = inp.bv('new_last', 32)
        stem = ('z' + 'q' * (len(old) - 2)) if len(old) >= 2 else ''
        if inp.symbolic:
            ctx.assume(z3.Or(z3.And(z3.UGE(c.e, 97), z3.ULE(c.e, 122)), z3.And(z3.UGE(c.e, 48), z3.ULE(c.e, 57))) if stem else z3.And(z3.UGE(c.e, 97), z3.ULE(c.e, 122)))
            for w in self.words:
                if len(w) == len(old) and w[:len(stem)] == stem: ctx.assume(c.e != ord(w[-1]))
        new_name = [BV(ord(x), 8) for x in stem] + [BV(c.e if c.conc() else z3.Extract(7, 0, c.e), 8)]
        rp = Agg('RenameParams', [tdp, StrV(list(new_name)), Agg('WorkDoneProgressParams', [NONE()])])
        try:
            we = I.call(ctx, LS, 'VHDLServer::rename', [ValRef(srv), ValRef(rp)])
        except Panic as p:
            ctx.model(); raise Violation('rename panics: ' + str(p), 'panic')
        if we.variant == 'None':
            ctx.model(); raise Violation(f'rename of {old} at {r} answers nothing', 'no-edit')
        changes = deref(we.fields[0]).fields[0]
        edits = {}
        for url, tes in deref(changes.fields[0]).entries():
            path = bytes(b.e for b in deref(url).fields[0].b).decode()
            for te in seq_items(tes):
                te = deref(te)
                rg = tuple(x.e for p in te.fields[0].fields for x in p.fields)
                edits.setdefault(path, []).append((rg, te.fields[1]))
        if not verify: return old, {k: sorted(e[0] for e in v) for k, v in edits.items()}
        # nothing but occurrences of the old identifier is touched
        texts = {'/p/' + fn: t for _, fn, t in D['files']}
        new_texts = {}
        for path, t in texts.items():
            lines = [[BV(ord(ch_), 32) for ch_ in ln] for ln in t.split('\n')]
            for rg, nt in sorted(edits.get(path, []), key=lambda e: e[0], reverse=True):
                if rg[0] != rg[2]: raise Violation(f'an edit spans lines: {rg}', 'edit-shape')
                was = ''.join(chr(x.e) for x in lines[rg[0]][rg[1]:rg[3]])
                ctx.obligations += 1
                if was.lower() != old.lower():
                    raise Violation(f'renaming {old}: the edit at {path} {rg} replaces {was!r}, which is not an occurrence of that identifier', 'foreign-text')
                lines[rg[0]][rg[1]:rg[3]] = [BV(b.e, 32) if b.conc() else BV(z3.ZeroExt(24, b.e), 32) for b in nt.b]
            out = []
            for k, ln in enumerate(lines):
                out.extend(ln)
                if k + 1 < len(lines): out.append(BV(10, 32))
            new_texts[path[3:]] = out
        for path in edits:
            if path not in texts: raise Violation(f'an edit goes to {path}, which is not a file of the project', 'foreign-file')
        # the edited project, loaded from scratch
        try:
            fresh = load_design(kit, ctx, D, new_texts)
        except Panic as p:
            ctx.model(); raise Violation('analysis of the renamed project panics: ' + str(p), 'panic')
        after_diags = sorted((obs_show(kit.diag_obs(d)[0]), kit.diag_obs(d)[1], len(kit.diag_obs(d)[2])) for d in fresh.diagnostics)
        ctx.obligations += 1
        if after_diags != before_diags:
            ctx.model()
            raise Violation(f'renaming {old} (occurrence {r} of {fname}) changes the diagnostics: only before={[d for d in before_diags if d not in after_diags][:3]} only after={[d for d in after_diags if d not in before_diags][:3]}', 'diagnostics')
        after_refs = self.refmap(kit, ctx, fresh, D)
        if after_refs != before_refs:
            ctx.model()
            raise Violation(f'renaming {old} (occurrence {r} of {fname}) changes the reference map: only before={[d for d in before_refs if d not in after_refs][:3]} only after={[d for d in after_refs if d not in before_refs][:3]}', 'references')
        ctx.cover('compared')
        if sum(len(v) for v in edits.values()) >= 3: ctx.cover('three or more occurrences')
        if len(edits) >= 2: ctx.cover('occurrences in two files')
        return None

    def harness(self, chk):
        self.bases(chk)
        def h(ctx):
            ctx.step_limit = max(ctx.step_limit, 60_000_000)
            self.run(chk, ctx, SymInputs(ctx))
        return h

    def replay_case(self, chk, w, v):
        # end to end: the real vhdl_ls binary answers the rename; its edits are applied and both projects analysed natively
        self.bases(chk)
        D = self.designs[w.get('design', 0) % len(self.designs)]
        fn = D['files'][w.get('file', 0) % len(D['files'])][1]
        msg = str(v.get('msg', '') if isinstance(v, dict) else v)
        m = re.search(r'occurrence \((\d+), (\d+), (\d+), (\d+)\)', msg) or re.search(r'at \((\d+), (\d+), (\d+), (\d+)\)', msg) or re.search(r'\((\d+), (\d+), (\d+), (\d+)\)', msg)
        if not m: return 'no occurrence in the message: ' + msg[:700]
        line, c0, c1 = int(m.group(1)), int(m.group(2)), int(m.group(4))
        ch = w.get('character', c0); ch = ch if c0 <= ch <= c1 else c0
        old_len = c1 - c0
        new = ('z' + 'q' * (old_len - 2) + chr(w.get('new_last', 122))) if old_len >= 2 else chr(w.get('new_last', 122))
        prep, edits = lsp_rename(D, fn, line, ch, new)
        kind = v.get('kind') if isinstance(v, dict) else getattr(v, 'kind', None)
        if kind == 'not-refused': return prep is not None
        if kind == 'refused': return prep is None
        texts = {'/p/' + f: t.split('\n') for _, f, t in D['files']}
        olds = set()
        for path, rs in edits.items():
            if path not in texts: return True
            for r in sorted(rs, reverse=True):
                ln = texts[path][r[0]]; olds.add(ln[r[1]:r[3]].lower())
                texts[path][r[0]] = ln[:r[1]] + new + ln[r[3]:]
        if len(olds) > 1: return True                      # text other than one identifier was replaced
        D2 = dict(name='renamed', files=[(lib, f, '\n'.join(texts['/p/' + f])) for lib, f, _ in D['files']])
        a, b = chk.native.run('analyse', [self.native_case(D, {}), self.native_case(D2, {})])
        if 'panic' in b: return True
        if 'diagnostics' not in a or 'diagnostics' not in b: return f'native replay failed: {b}'
        da = sorted((d[0][1:], d[1], len(d[2])) for d in a['diagnostics']); db = sorted((d[0][1:], d[1], len(d[2])) for d in b['diagnostics'])
        return da != db or self._refs(a) != self._refs(b)

    @staticmethod
    def _refs(o):
        out = []
        for name, rs in o['references']:
            for pos, dcl in rs: out.append((name, pos[1:], None if dcl is None else [dcl[0].rsplit('/', 1)[-1]] + dcl[1:]))
        return sorted(out, key=repr)

    def translator_validation(self, chk):
        # the edits of a rename against the native find_all_references at the same occurrence
        self.bases(chk)
        rng = chk.rng; bad = []; n = 0
        for di, D in enumerate(self.designs):
            for _ in range(2):
                w = {'design': di, 'file': rng.randrange(len(D['files'])), 'occurrence': rng.randrange(200), 'new_last': ord('x')}
                ctx = Ctx(); ctx.step_limit = 10 ** 9
                try: r = self.run(chk, ctx, ConcInputs(ctx, w), verify=False)
                except Infeasible: continue
                if r is None: continue
                old, mine = r
                pr = self.project(chk, ctx, ConcInputs(ctx, w), D)
                fi = w['file'] % len(D['files']); fname = '/p/' + D['files'][fi][1]
                ers = pr.references(ctx, fname)[self.offset % self.stride::self.stride]
                rr = obs_show(ers[w['occurrence'] % len(ers)][0])
                prep, theirs = lsp_rename(D, D['files'][fi][1], rr[0], rr[1], ('z' + 'q' * (len(old) - 2) + 'x') if len(old) >= 2 else 'x')
                n += 1
                if {k: [tuple(x) for x in v] for k, v in mine.items()} != {k: [tuple(x) for x in v] for k, v in theirs.items()}:
                    bad.append({'case': w, 'interpreter': {k: list(v) for k, v in mine.items()}, 'vhdl_ls over stdio': {k: list(v) for k, v in theirs.items()}})
        return n, bad


class C09(Check):
    prop = 'C09'
    crates = (LS, L)

    def parts(self):
        if hasattr(self, '_parts'): return self._parts
        if not hasattr(self, 'll'): self.ll = LangLex(self)
        self.stubs = install_stubs(self.I)
        if not hasattr(self, 'pkit'): self.pkit = ProjectKit(self, log=self.log)
        q = self.tier == 'quick'
        ds = [DS.D_RECORDS, DS.D_TREE, DS.D_GENERIC, DS.D_COMB, DS.D_ZOO, DS.MUT_DESIGN]
        if q: ds = [ds[self.seed % 6], ds[(self.seed + 2) % 6]]
        ds = ds + [DS.D_MULTI]
        ps = [Rename('rename at an occurrence, edits applied, project re-analysed', ds, stride=9 if q else 1, offset=self.seed // 6 if q else 0,
                     required=('compared', 'three or more occurrences') + (() if q else ('occurrences in two files', 'operator symbol or character literal refused')))]
        self._parts = ps
        return ps

    def assumptions(self):
        return ['environment stubs: file_name_to_uri / uri_to_file_name (a Url is its path), std::path::absolute and dunce::simplified (identity on absolute unix paths), Url::clone, WorkspaceEdit::default',
                'valid designs only (the property is about projects without error diagnostics); new identifier of the same length as the old one so that coordinates are comparable; library entities, entities declared in std and implicit declarations (e.g. endfile of a file type: no declaration text of their own) are skipped',
                'messages are compared by length only (they quote the renamed identifier)',
                'bundled std library; FnvHashMap modelled insertion ordered; rayon sequential']


if __name__ == '__main__':
    run_check(C09)
