"""Shared harness pieces for the vhdl_lang front end: real Symbols/SymbolTable, Source/Contents, Tokenizer::pop loop,
and the independent position oracle (lines split at LF/CR/CRLF, UTF-16 columns)."""
import z3
from ..util import Panic, Unsupported
from ..values import *
from ..interp import Violation, Ctx
from ..models import utf8_encode, decode_all, str_bytes, HMap, HSet
from .c10 import line_table, width16, is_, CR, LF

L = 'vhdl_lang'


class LangLex:
    def __init__(self, chk):
        self.chk = chk; self.I = chk.I
        info = self.I.crates[L]
        self.S = info.structs
        self.symbols0 = self._build_symbols()

    # ---- static tokenizer data through the real constructor (concrete, once per process)
    def _build_symbols(self):
        ctx = Ctx()
        std = self.I.enum_value(L, 'VHDLStandard', 'VHDL2008')
        syms = self.I.call(ctx, L, 'Symbols::from_standard', [std])
        return syms

    def fresh_symbols(self):
        return clone_deep(self.symbols0)

    def fidx(self, struct, field): return self.S[struct].index(field)

    def make_source(self, ctx, chars):
        b = []
        for c in chars: b.extend(utf8_encode(ctx, c))
        contents = self.I.call(ctx, L, 'Contents::from_str', [ValRef(StrV(b))])
        us = Agg('UniqueSource', [None] * len(self.S['UniqueSource']))
        us.fields[self.fidx('UniqueSource', 'contents')] = Agg('CellLike', [contents])
        from ..models import py_str
        us.fields[self.fidx('UniqueSource', 'file_id')] = Agg('FileId', [Agg('FilePath', [py_str('/verif.vhd')]), BV(7, 64)])
        return Agg('Source', [us]), contents

    def make_tokenizer(self, ctx, symbols, source, contents, last_kind=None):
        reader = self.I.call(ctx, L, 'ContentReader::new', [ValRef(contents)])
        tk = self.I.call(ctx, L, 'Tokenizer::new', [ValRef(symbols), ValRef(source), reader])
        if last_kind is not None:
            st = tk.fields[self.fidx('Tokenizer', 'state')]
            st.fields[self.fidx('TokenState', 'last_token_kind')] = last_kind
        return tk

    def reader_state(self, tk):
        rd = tk.fields[self.fidx('Tokenizer', 'reader')]
        st = rd.fields[self.fidx('ContentReader', 'state')]
        pos = st.fields[self.fidx('ReaderState', 'pos')]
        return pos.fields[0], pos.fields[1], st.fields[self.fidx('ReaderState', 'idx')]

    def pop_all(self, ctx, tk, max_pops, on_pop=None):
        """-> list of ('tok', Token) / ('err', Diagnostic); checks progress (termination) of every pop"""
        out = []
        for n in range(max_pops + 1):
            before = self.reader_state(tk)
            try:
                r = self.I.call(ctx, L, 'Tokenizer::pop', [ValRef(tk)])
            except Panic as p:
                raise Violation('panic in Tokenizer::pop: ' + str(p), 'panic')
            after = self.reader_state(tk)
            if r.variant == 'Err':
                out.append(('err', r.fields[0]))
            else:
                o = r.fields[0]
                if o.variant == 'None':
                    extra = self.I.call(ctx, L, 'Tokenizer::take_diagnostics', [ValRef(tk)])
                    out.extend(('err', d) for d in seq_items(extra))
                    return out
                out.append(('tok', o.fields[0]))
            # progress: a pop that yields a token or an error must have consumed input
            same = b_and(bv_eq(before[0], after[0]), b_and(bv_eq(before[1], after[1]), bv_eq(before[2], after[2])))
            ctx.obligations += 1
            if ctx.feasible(same):
                raise Violation('Tokenizer::pop returned without consuming input (the token stream would never end)', 'termination')
            if on_pop: on_pop(out[-1], after)
        raise Violation(f'tokenizer still producing after {max_pops + 1} pops on {max_pops} characters', 'termination')

    # ---- token accessors
    def tok(self, t):
        F = self.S['Token']
        pos = t.fields[F.index('pos')]
        rng = pos.fields[self.fidx('SrcPos', 'range')]
        return dict(kind=t.fields[F.index('kind')], value=t.fields[F.index('value')], start=rng.fields[0], end=rng.fields[1],
                    comments=t.fields[F.index('comments')])

    def diag_range(self, d):
        pos = d.fields[self.fidx('Diagnostic', 'pos')]
        rng = pos.fields[self.fidx('SrcPos', 'range')]
        return rng.fields[0], rng.fields[1]

    def comments_of(self, t):
        c = t['comments']
        if c.variant == 'None': return [], None
        tc = c.fields[0]
        leading = seq_items(tc.fields[self.fidx('TokenComments', 'leading')])
        tr = tc.fields[self.fidx('TokenComments', 'trailing')]
        return leading, (tr.fields[0] if tr.variant == 'Some' else None)


def clone_deep(v, memo=None):
    """deep copy of interpreter data including hash containers (used to give every path its own symbol table)"""
    if isinstance(v, Agg):
        if v.name in ARC_ONLY: return v
        return Agg(v.name, [clone_deep(f) for f in v.fields], v.variant, v.vidx)
    if isinstance(v, list): return [clone_deep(x) for x in v]
    if isinstance(v, VecV): return VecV([clone_deep(x) for x in v.items])
    if isinstance(v, StrV): return StrV(list(v.b))
    if isinstance(v, HMap):
        m = HMap(); m.keys = [clone_deep(k) for k in v.keys]; m.vals = [clone_deep(x) for x in v.vals]; return m
    if isinstance(v, HSet):
        s = HSet(); s.items = [clone_deep(k) for k in v.items]; return s
    return v                    # references (&T / EntRef) are copied as references: the target is shared


# ---------------------------------------------------------------- independent position oracle
class Layout:
    """positions of the characters of a text: lines split at LF, CR or CRLF; columns in UTF-16 code units"""

    def __init__(self, ctx, chars):
        self.chars = chars
        self.lines = line_table(ctx, chars)          # [(start, end_before_terminator)]
        self.col = {}                                # char index -> (line, utf16 column)
        self.at = {}                                 # (line, column) -> char index (also the position just after the last char of a line)
        for ln, (s, e) in enumerate(self.lines):
            u = 0
            for i in range(s, e):
                self.col[i] = (ln, u); self.at[(ln, u)] = i
                u += width16(ctx, chars[i])
            self.at.setdefault((ln, u), e)           # end of line (position of the terminator / end of text)
            self.eol = getattr(self, 'eol', {}); self.eol[ln] = (u, e)
        self.end = len(chars)

    def index_of(self, ctx, line, col):
        """Position(line, col) -> char index | None if it is not the position of a character boundary"""
        ln = ctx.concretize(line); c = ctx.concretize(col)
        if (ln, c) in self.at: return self.at[(ln, c)]
        return None

    def next_line_start(self, ln):
        return self.lines[ln + 1][0] if ln + 1 < len(self.lines) else self.end


def pos_le(a, b):
    return b_or(bv_ult(a.fields[0], b.fields[0]), b_and(bv_eq(a.fields[0], b.fields[0]), b_not(bv_ult(b.fields[1], a.fields[1]))))


def pos_lt(a, b):
    return b_or(bv_ult(a.fields[0], b.fields[0]), b_and(bv_eq(a.fields[0], b.fields[0]), bv_ult(a.fields[1], b.fields[1])))
