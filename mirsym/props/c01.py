"""C01  Incremental re-analysis equals from-scratch analysis  --  kernel: the bookkeeping that makes it so.

LIB    real Library::{remove_source, add_design_file, add_design_unit} (units built by the real parser + LockedUnit::new) over
       symbolic histories of file updates: after every step the library holds exactly the units the current file contents define
       (units + parked duplicates == definitions, nothing lost or invented), units_by_source is the inverse of units, and every
       unit whose presence or defining file changed since the last reset is recorded in added/removed.
RESET  real DesignRoot::reset (+ reset_affected, get_all_affected, AnalysisLock::reset, clear_references) from symbolic dependency
       state: every present unit that (transitively) depends on a changed unit - through users_of, `use lib.all`, a recorded
       missing unit name that was added, or the package/body rule - has lost its analysis result; the maps are cleaned up.
What analysis computes from a unit and its recorded dependencies is the analyser itself and outside this check.
"""
import json, itertools, re
import z3
from ..util import Panic, Unsupported, Infeasible
from ..values import *
from ..interp import Violation, Ctx
from ..models import HMap, HSet, py_str
from .common import Check, Part, SymInputs, ConcInputs, run_check
from .lang_lex import LangLex, L, clone_deep
from .c17 import choose

CONTENTS = ['',
            'package p is end;',
            'package p is end; package q is end;',
            'package body p is end;',
            'entity e is end; architecture a of e is begin end;',
            'architecture a of e is begin end;',
            'package q is end; package body p is end;']
FILES = ['/f0.vhd', '/f1.vhd', '/f2.vhd']


def sym_name(s):
    """name bytes of a Symbol value"""
    return bytes(b.e for b in seq_items(s.fields[1].fields[0])).decode('latin-1')


class RootKit:
    """concrete building blocks, created once per process: parsed design files per (file, content)"""

    def __init__(self, chk):
        self.chk = chk; self.ll = chk.ll; I = chk.I
        ll = self.ll
        ctx = Ctx()
        self.symbols = ll.fresh_symbols()
        self.parser = Agg('VHDLParser', [None] * len(ll.S['VHDLParser']))
        self.parser.fields[ll.fidx('VHDLParser', 'symbols')] = self.symbols
        self.parser.fields[ll.fidx('VHDLParser', 'standard')] = I.enum_value(L, 'VHDLStandard', 'VHDL2008')
        self.sources = []
        for k, fn in enumerate(FILES):
            src, _ = ll.make_source(ctx, [])
            us = src.fields[0]
            us.fields[ll.fidx('UniqueSource', 'file_id')] = Agg('FileId', [Agg('FilePath', [py_str(fn)]), BV(100 + k, 64)])
            self.sources.append(src)
        self.libname = self.intern(ctx, 'lib')
        self.parsed = {}
        for f in range(len(FILES)):
            for c, text in enumerate(CONTENTS):
                self.parsed[(f, c)] = self.parse(ctx, f, text)
        # the unit keys each content defines
        self.defs = {c: self.keys_of(ctx, self.parsed[(0, c)]) for c in range(len(CONTENTS))}

    def intern(self, ctx, name):
        tab = self.symbols.fields[self.ll.fidx('Symbols', 'symtab')]
        return self.chk.I.call(ctx, L, 'SymbolTable::insert_utf8', [ValRef(tab), ValRef(py_str(name))])

    def parse(self, ctx, f, text):
        ll = self.ll; I = self.chk.I
        src = self.sources[f]
        cont = I.call(ctx, L, 'Contents::from_str', [ValRef(py_str(text))])
        # the same Source object with new contents, as Source::change does
        src.fields[0].fields[ll.fidx('UniqueSource', 'contents')] = Agg('CellLike', [cont])
        diags = VecV([])
        df = I.call(ctx, L, 'VHDLParser::parse_design_source', [ValRef(self.parser), ValRef(src), ValRef(diags)])
        assert not diags.items, (text, diags.items)
        return df

    def keys_of(self, ctx, df):
        out = []
        for u in seq_items(df.fields[self.ll.fidx('DesignFile', 'design_units')]):
            lu = self.chk.I.call(ctx, L, 'LockedUnit::new', [ValRef(self.libname), clone_deep(u.fields[1]), VecV([])])
            out.append(self.key_str(lu.fields[self.ll.fidx('LockedUnit', 'unit_id')]))
        return out

    def key_str(self, unit_id):
        key = unit_id.fields[self.ll.fidx('UnitId', 'key')]
        return key.variant + ':' + '/'.join(sym_name(s) for s in key.fields)

    def new_library(self, ctx):
        # Library::new also allocates the library's named entity in an arena; that part is irrelevant here and skipped
        F = self.ll.S['Library']
        lib = Agg('Library', [None] * len(F))
        lib.fields[F.index('name')] = clone_deep(self.libname)
        lib.fields[F.index('id')] = Agg('EntityId', [BV(0, 64)])
        lib.fields[F.index('units')] = HMap(); lib.fields[F.index('units_by_source')] = HMap()
        lib.fields[F.index('removed')] = HSet(); lib.fields[F.index('added')] = HSet()
        lib.fields[F.index('duplicates')] = VecV([])
        return lib

    def file_of(self, src_val):
        """index of a Source value (by file id hash)"""
        us = deref(src_val).fields[0]
        h = us.fields[self.ll.fidx('UniqueSource', 'file_id')].fields[1].e
        return h - 100

    def design_file(self, f, c):
        df = self.parsed[(f, c)]
        # units are consumed by add_design_file: give it a copy (tokens / AST), sharing the Source objects
        return clone_shared_sources(df, self.sources)


def clone_shared_sources(v, sources):
    """deep copy that keeps Source aggregates shared (they are Arcs in the real program)"""
    ids = {id(s.fields[0]): s for s in sources}          # the Arc'd UniqueSource is what is shared
    def cp(x):
        if isinstance(x, Agg):
            if id(x) in ids: return x
            return Agg(x.name, [cp(f) for f in x.fields], x.variant, x.vidx)
        if isinstance(x, list): return [cp(y) for y in x]
        if isinstance(x, VecV): return VecV([cp(y) for y in x.items])
        if isinstance(x, StrV): return StrV(list(x.b))
        if isinstance(x, HMap):
            m = HMap(); m.keys = [cp(k) for k in x.keys]; m.vals = [cp(y) for y in x.vals]; return m
        if isinstance(x, HSet):
            s = HSet(); s.items = [cp(k) for k in x.items]; return s
        if isinstance(x, Ref): return ValRef(cp(x.get()))
        return x
    return cp(v)


class LibHistory(Part):
    vcap = 6

    def __init__(self, name, steps, nfiles=3, required=(), contents=None, init=False):
        self.name, self.steps, self.nfiles = name, steps, nfiles
        self.cset = list(contents) if contents is not None else list(range(len(CONTENTS)))
        self.init = init
        self.required_classes = required
        self.bounds = dict(files=nfiles, contents=[CONTENTS[c] for c in self.cset], steps=steps,
                           initial_state=('every file first loaded with a symbolic choice of content, in file order, followed by a reset point' if init else 'empty library'),
                           step='choose a file and its new content: remove_source(file) then add_design_file(parse(content)); optionally a reset point (added/removed drained) after the step')

    def snapshot(self, chk, ctx, lib):
        """observable state of the library as python data"""
        kit = chk.kit; ll = chk.ll
        F = ll.S['Library']
        units = lib.fields[F.index('units')]
        st = {'units': {}, 'by_source': {}, 'dups': [], 'added': set(), 'removed': set()}
        for k, lu in units.entries():
            uid = lu.fields[ll.fidx('LockedUnit', 'unit_id')]
            src = self.source_of(chk, ctx, lu)
            st['units'][kit.key_str(uid)] = src
        for s, ids in lib.fields[F.index('units_by_source')].entries():
            st['by_source'][kit.file_of(s)] = sorted(kit.key_str(u) for u in ids.items)
        for pair in seq_items(lib.fields[F.index('duplicates')]):
            prev, lu = pair.fields
            st['dups'].append((kit.key_str(lu.fields[ll.fidx('LockedUnit', 'unit_id')]), self.source_of(chk, ctx, lu), kit.file_of(prev.fields[ll.fidx('SrcPos', 'source')])))
        st['added'] = set(kit.key_str(u) for u in lib.fields[F.index('added')].items)
        st['removed'] = set(kit.key_str(u) for u in lib.fields[F.index('removed')].items)
        return st

    def source_of(self, chk, ctx, lu):
        pos = chk.I.call(ctx, L, '<LockedUnit as HasSrcPos>::pos', [ValRef(lu)])
        return chk.kit.file_of(deref(pos).fields[chk.ll.fidx('SrcPos', 'source')])

    def run(self, chk, ctx, inp, verify=True):
        kit = chk.kit; I = chk.I
        lib = kit.new_library(ctx)
        content = [0] * self.nfiles
        baseline = {}            # key -> file at the last reset point
        trace = []
        if self.init:
            for f in range(self.nfiles):
                c = self.cset[choose(ctx, inp, f'init{f}', len(self.cset))]
                I.call(ctx, L, 'Library::add_design_file', [ValRef(lib), kit.design_file(f, c)])
                content[f] = c
            st = self.snapshot(chk, ctx, lib)
            if verify: self.check_state(chk, ctx, st, content, baseline, -1)
            F = chk.ll.S['Library']
            lib.fields[F.index('added')].items.clear(); lib.fields[F.index('removed')].items.clear()
            baseline = dict(st['units'])
        for s in range(self.steps):
            f = choose(ctx, inp, f's{s}file', self.nfiles)
            c = self.cset[choose(ctx, inp, f's{s}content', len(self.cset))]
            try:
                I.call(ctx, L, 'Library::remove_source', [ValRef(lib), ValRef(kit.sources[f])])
                I.call(ctx, L, 'Library::add_design_file', [ValRef(lib), kit.design_file(f, c)])
            except Panic as p:
                raise Violation(f'panic in step {s}: {p}', 'panic')
            content[f] = c
            st = self.snapshot(chk, ctx, lib)
            trace.append(st)
            if verify: self.check_state(chk, ctx, st, content, baseline, s)
            if ctx.branch(inp.bool(f's{s}reset')):
                # what DesignRoot::reset does to the library's change sets
                F = chk.ll.S['Library']
                lib.fields[F.index('added')].items.clear(); lib.fields[F.index('removed')].items.clear()
                baseline = dict(st['units'])
                ctx.cover('reset point')
        ctx.cover('compared')
        return trace

    def check_state(self, chk, ctx, st, content, baseline, s):
        kit = chk.kit
        defs = [(k, f) for f, c in enumerate(content) for k in kit.defs[c]]
        have = sorted([(k, f) for k, f in st['units'].items()] + [(k, f) for k, f, _ in st['dups']])
        if have != sorted(defs):
            raise Violation(f'step {s}: library holds {have} but the files define {sorted(defs)} (a unit was lost or invented)', 'units')
        keys = [k for k, _ in defs]
        dup_keys = set(k for k in keys if keys.count(k) > 1)
        if dup_keys: ctx.cover('a unit name defined in two files')
        for k, f, prev in st['dups']:
            if k not in dup_keys: raise Violation(f'step {s}: {k} is parked as a duplicate although only one file defines it', 'units')
            if k not in st['units']: raise Violation(f'step {s}: {k} parked as duplicate but no unit of that name is live', 'units')
        # units_by_source is the inverse of units
        inv = {}
        for k, f in st['units'].items(): inv.setdefault(f, []).append(k)
        inv = {f: sorted(v) for f, v in inv.items()}
        if {f: v for f, v in st['by_source'].items() if v} != inv:
            raise Violation(f'step {s}: units_by_source {st["by_source"]} is not the inverse of units {inv}', 'by-source')
        # change sets cover every difference to the last reset point
        for k in set(baseline) | set(st['units']):
            if baseline.get(k) != st['units'].get(k) and k not in st['added'] and k not in st['removed']:
                raise Violation(f'step {s}: {k} changed ({baseline.get(k)} -> {st["units"].get(k)}) but is in neither added nor removed', 'change-sets')

    def harness(self, chk):
        def h(ctx): self.run(chk, ctx, SymInputs(ctx))
        return h

    def case_of(self, w):
        return {'init': [self.cset[w.get(f'init{f}', 0) % len(self.cset)] for f in range(self.nfiles)] if self.init else None,
                'steps': [[w.get(f's{s}file', 0) % self.nfiles, self.cset[w.get(f's{s}content', 0) % len(self.cset)], bool(w.get(f's{s}reset', False))] for s in range(self.steps)],
                'files': FILES[:self.nfiles], 'contents': CONTENTS}

    def replay_case(self, chk, w, v):
        out = chk.native.run('libhist', [self.case_of(w)])[0]
        if 'panic' in out: return True
        if 'states' not in out: return f'native replay failed: {out}'
        # recompute the obligations on the native states
        content = [0] * self.nfiles; baseline = {}
        case = self.case_of(w)
        if case['init']:
            content = list(case['init'])
            baseline = {k: f for k, f in out['init_state']['units']}
        for s, (st, step) in enumerate(zip(out['states'], case['steps'])):
            content[step[0]] = step[1]
            st2 = {'units': {k: f for k, f in st['units']}, 'by_source': {int(f): sorted(v) for f, v in st['by_source']},
                   'dups': [tuple(d) for d in st['dups']], 'added': set(st['added']), 'removed': set(st['removed'])}
            try:
                self.check_state(chk, Ctx(), st2, content, baseline, s)
            except Violation:
                return True
            if step[2]: baseline = dict(st2['units'])
        return False

    def translator_validation(self, chk):
        rng = chk.rng; cases = []
        for _ in range(10):
            w = {}
            for s in range(self.steps):
                w[f's{s}file'] = rng.randrange(self.nfiles); w[f's{s}content'] = rng.randrange(len(self.cset)); w[f's{s}reset'] = rng.random() < 0.3
            for f in range(self.nfiles): w[f'init{f}'] = rng.randrange(len(self.cset))
            cases.append(w)
        outs = chk.native.run('libhist', [self.case_of(w) for w in cases])
        bad = []
        for w, out in zip(cases, outs):
            ctx = Ctx()
            trace = self.run(chk, ctx, ConcInputs(ctx, w), verify=False)
            mine = [{'units': sorted([k, f] for k, f in st['units'].items()), 'dups': sorted([list(d) for d in st['dups']]),
                     'added': sorted(st['added']), 'removed': sorted(st['removed'])} for st in trace]
            theirs = [{'units': sorted(st['units']), 'dups': sorted(st['dups']), 'added': sorted(st['added']), 'removed': sorted(st['removed'])} for st in out.get('states', [])]
            if mine != theirs: bad.append({'case': self.case_of(w)['steps'], 'interpreter': mine, 'native': theirs or out})
        return len(cases), bad


BASE = ['package p is end;', 'package body p is end;', 'entity e is end;', 'architecture a of e is begin end;', 'package q is end;', '']
BFILES = ['/b0.vhd', '/b1.vhd', '/b2.vhd', '/b3.vhd', '/b4.vhd', '/b5.vhd']
NEWTEXT = ['', None, 'architecture b of e is begin end;', 'package r is end;']      # None = the file's own base text (re-added unchanged)
MISSING_KEYS = [('e', 'b'), ('e', None), ('r', None), ('zz', None)]


class ResetStep(Part):
    """DesignRoot::reset from a symbolic dependency state"""
    vcap = 6

    def __init__(self, name, nedges, with_missing, with_all, required=()):
        self.name, self.nedges, self.with_missing, self.with_all = name, nedges, with_missing, with_all
        self.required_classes = required
        self.bounds = dict(library_files=dict(zip(BFILES, BASE)), symbolic_users_of_edges=nedges, missing_unit_entry=with_missing, use_library_all_entry=with_all,
                           change='one file replaced by one of ' + repr(NEWTEXT) + ' (None = its own text again)', analysed='every unit has an analysis result before the change')

    def setup(self, chk):
        """the analysed base state, built once per process with real code"""
        if hasattr(chk, '_reset_base'): return
        kit = chk.kit; ll = chk.ll; I = chk.I
        ctx = Ctx()
        srcs = []
        for k, fn in enumerate(BFILES):
            src, _ = ll.make_source(ctx, [])
            src.fields[0].fields[ll.fidx('UniqueSource', 'file_id')] = Agg('FileId', [Agg('FilePath', [py_str(fn)]), BV(200 + k, 64)])
            srcs.append(src)
        def parse(f, text):
            cont = I.call(ctx, L, 'Contents::from_str', [ValRef(py_str(text))])
            srcs[f].fields[0].fields[ll.fidx('UniqueSource', 'contents')] = Agg('CellLike', [cont])
            d = VecV([])
            df = I.call(ctx, L, 'VHDLParser::parse_design_source', [ValRef(kit.parser), ValRef(srcs[f]), ValRef(d)])
            assert not d.items
            return df
        chk._reset_srcs = srcs
        chk._reset_parsed = {}
        for f in range(len(BFILES)):
            for t in set([BASE[f]] + [x for x in NEWTEXT if x is not None]):
                chk._reset_parsed[(f, t)] = parse(f, t)
        chk._reset_base = True

    def new_root(self, chk, ctx):
        kit = chk.kit; ll = chk.ll
        F = ll.S['DesignRoot']
        root = Agg('DesignRoot', [None] * len(F))
        root.fields[F.index('symbols')] = kit.symbols
        for n in ('standard_pkg_id', 'standard_arena', 'universal', 'standard_types', 'std_ulogic'): root.fields[F.index(n)] = NONE()
        libs = HMap(); lib = kit.new_library(ctx)
        libs.keys.append(clone_deep(kit.libname)); libs.vals.append(lib)
        root.fields[F.index('libraries')] = libs
        root.fields[F.index('arenas')] = Agg('FinalArena', [])
        for n in ('users_of', 'missing_unit', 'users_of_library_all'): root.fields[F.index(n)] = Agg('CellLike', [HMap()])
        return root, lib

    def unit_ids(self, chk, lib):
        ll = chk.ll
        out = {}
        for k, lu in lib.fields[ll.S['Library'].index('units')].entries():
            uid = lu.fields[ll.fidx('LockedUnit', 'unit_id')]
            out[chk.kit.key_str(uid)] = (uid, lu)
        return out

    def run(self, chk, ctx, inp, verify=True):
        self.setup(chk)
        kit = chk.kit; ll = chk.ll; I = chk.I
        root, lib = self.new_root(chk, ctx)
        libsym = lambda: clone_deep(kit.libname)
        try:
            for f in range(len(BFILES)):
                I.call(ctx, L, 'DesignRoot::add_design_file', [ValRef(root), libsym(), clone_shared_sources(chk._reset_parsed[(f, BASE[f])], chk._reset_srcs)])
            I.call(ctx, L, 'DesignRoot::reset', [ValRef(root)])
            units = self.unit_ids(chk, lib)
            names = sorted(units)
            for k in names:
                lock = units[k][1].fields[ll.fidx('LockedUnit', 'unit')]
                e = I.call(ctx, L, 'AnalysisLock::entry', [ValRef(lock)])
                if e.variant != 'Vacant': raise Violation('a freshly loaded unit is not vacant', 'setup')
                I.call(ctx, L, 'WriteGuard::finish', [ValRef(e.fields[0]), Agg('AnalysisData', [VecV([]), False, Agg('FinalArena', [])])])
            # symbolic dependency state recorded by the previous analysis
            edges = []
            for j in range(self.nedges):
                u = choose(ctx, inp, f'e{j}user', len(names) + 1)
                if u == len(names): continue
                v = choose(ctx, inp, f'e{j}unit', len(names))
                edges.append((names[u], names[v]))
                I.call(ctx, L, 'DesignRoot::make_use_of', [ValRef(root), NONE(), ValRef(units[names[u]][0]), ValRef(units[names[v]][0])])
            missing = None
            if self.with_missing:
                u = choose(ctx, inp, 'muser', len(names) + 1)
                if u < len(names):
                    prim, sec = MISSING_KEYS[choose(ctx, inp, 'mkey', len(MISSING_KEYS))]
                    missing = (names[u], prim, sec)
                    I.call(ctx, L, 'DesignRoot::make_use_of_missing_unit', [ValRef(root), ValRef(units[names[u]][0]), ValRef(libsym()), ValRef(kit.intern(ctx, prim)),
                                                                           SOME(ValRef(kit.intern(ctx, sec))) if sec else NONE()])
            alluser = None
            if self.with_all:
                u = choose(ctx, inp, 'alluser', len(names) + 1)
                if u < len(names):
                    alluser = names[u]
                    I.call(ctx, L, 'DesignRoot::make_use_of_library_all', [ValRef(root), ValRef(units[names[u]][0]), ValRef(libsym())])
            # the change
            f = choose(ctx, inp, 'cfile', len(BFILES))
            t = NEWTEXT[choose(ctx, inp, 'ctext', len(NEWTEXT))]
            t = BASE[f] if t is None else t
            I.call(ctx, L, 'DesignRoot::remove_source', [ValRef(root), libsym(), ValRef(chk._reset_srcs[f])])
            I.call(ctx, L, 'DesignRoot::add_design_file', [ValRef(root), libsym(), clone_shared_sources(chk._reset_parsed[(f, t)], chk._reset_srcs)])
            I.call(ctx, L, 'DesignRoot::reset', [ValRef(root)])
        except Panic as p:
            raise Violation('panic: ' + str(p), 'panic')
        after = self.unit_ids(chk, lib)
        analysed = {}
        for k, (uid, lu) in after.items():
            lock = lu.fields[ll.fidx('LockedUnit', 'unit')]
            analysed[k] = bool(I.call(ctx, L, 'AnalysisLock::is_analyzed', [ValRef(lock)]))
        F = ll.S['DesignRoot']
        uo = {kit.key_str(k): sorted(kit.key_str(x) for x in v.items) for k, v in root.fields[F.index('users_of')].fields[0].entries()}
        la = [kit.key_str(x) for _, v in root.fields[F.index('users_of_library_all')].fields[0].entries() for x in v.items]
        mi = [(sym_name(k.fields[1]), sym_name(k.fields[2].fields[0]) if k.fields[2].variant == 'Some' else None, sorted(kit.key_str(x) for x in v.items))
              for k, v in root.fields[F.index('missing_unit')].fields[0].entries()]
        LF = ll.S['Library']
        left = len(lib.fields[LF.index('added')].items) + len(lib.fields[LF.index('removed')].items)
        outcome = dict(units=sorted(analysed.items()), users_of=uo, library_all=sorted(la), missing=sorted(mi, key=str), left=left)
        state = dict(edges=edges, missing=missing, alluser=alluser, file=f, text=t)
        if verify: check_reset(state, outcome)
        ctx.cover('compared')
        if any(not a for a in analysed.values()): ctx.cover('some unit reset')
        if any(analysed.values()): ctx.cover('some unit kept')
        return state, outcome

    def harness(self, chk):
        def h(ctx): self.run(chk, ctx, SymInputs(ctx))
        return h

    def case_of_state(self, state):
        return {'files': [[n, t] for n, t in zip(BFILES, BASE)], 'edges': [list(e) for e in state['edges']],
                'library_all': [state['alluser']] if state['alluser'] else [],
                'missing': [list(state['missing'])] if state['missing'] else [], 'changes': [[state['file'], state['text']]]}

    def case_of(self, w): return {'witness': w}

    def replay_case(self, chk, w, v):
        ctx = Ctx()
        try:
            state, _ = self.run(chk, ctx, ConcInputs(ctx, w), verify=False)
        except Violation:
            return 'panic paths are not replayed for this part'
        out = chk.native.run('reset', [self.case_of_state(state)])[0]
        if 'panic' in out: return True
        if 'units' not in out: return f'native replay failed: {out}'
        outcome = dict(units=sorted((k, a) for k, a in out['units']), users_of={k: v for k, v in out['users_of']}, library_all=sorted(out['library_all_users']),
                       missing=[(p, s, u) for p, s, u in out['missing']], left=out['left'])
        try: check_reset(state, outcome)
        except Violation: return True
        return False

    def translator_validation(self, chk):
        rng = chk.rng; bad = []; n = 0
        for _ in range(8):
            w = {f'e{j}user': rng.randrange(6) for j in range(self.nedges)}
            w.update({f'e{j}unit': rng.randrange(5) for j in range(self.nedges)})
            w.update(muser=rng.randrange(6), mkey=rng.randrange(len(MISSING_KEYS)), alluser=rng.randrange(6), cfile=rng.randrange(len(BFILES)), ctext=rng.randrange(len(NEWTEXT)))
            ctx = Ctx()
            state, mine = self.run(chk, ctx, ConcInputs(ctx, w), verify=False)
            out = chk.native.run('reset', [self.case_of_state(state)])[0]
            n += 1
            theirs = dict(units=sorted((k, a) for k, a in out.get('units', [])), users_of={k: v for k, v in out.get('users_of', [])}, library_all=sorted(out.get('library_all_users', [])),
                          missing=sorted([(p, s, u) for p, s, u in out.get('missing', [])], key=str), left=out.get('left'))
            mine2 = dict(mine); mine2['units'] = sorted(mine['units'])
            if mine2 != theirs: bad.append({'case': self.case_of_state(state), 'interpreter': mine2, 'native': theirs})
        return n, bad


def keys_of_text(t):
    return {'package p is end;': ['Primary:p'], 'package body p is end;': ['Secondary:p/p'], 'entity e is end;': ['Primary:e'],
            'architecture a of e is begin end;': ['Secondary:e/a'], 'package q is end;': ['Primary:q'], '': [],
            'architecture b of e is begin end;': ['Secondary:e/b'], 'package r is end;': ['Primary:r']}[t]


def check_reset(state, outcome):
    """the obligations of DesignRoot::reset, from the property text (superset form: resetting more than needed is never an alarm)"""
    f, t = state['file'], state['text']
    old, new = set(keys_of_text(BASE[f])), set(keys_of_text(t))
    removed_only, added_only, changed = old - new, new - old, old & new
    must = set(old | new)
    if (removed_only or added_only) and state['alluser']: must.add(state['alluser'])
    if state['missing']:
        user, prim, sec = state['missing']
        for k in added_only:
            kp = k.split(':')[1].split('/')
            if k.startswith('Primary') and kp[0] == prim and sec is None: must.add(user)
            if k.startswith('Secondary') and kp[0] == prim and kp[1] == sec: must.add(user)
    for k in added_only | removed_only:
        if k == 'Secondary:p/p': must.add('Primary:p')
    users = {}
    for u, v in state['edges']: users.setdefault(v, set()).add(u)
    work = list(must)
    while work:
        x = work.pop()
        for u in users.get(x, ()):
            if u not in must: must.add(u); work.append(u)
    present = dict(outcome['units'])
    for k in must:
        if present.get(k) is True:
            raise Violation(f'{k} keeps its analysis result although it depends on the change of {BFILES[f]} to {t!r} (edges {state["edges"]}, missing {state["missing"]}, lib.all {state["alluser"]})', 'reset')
    for k in removed_only:
        if k in outcome['users_of']: raise Violation(f'removed unit {k} is still a key of users_of', 'cleanup')
        if k in outcome['library_all']: raise Violation(f'removed unit {k} is still recorded as a user of lib.all', 'cleanup')
        for p, s2, us in outcome['missing']:
            if k in us: raise Violation(f'removed unit {k} is still recorded as sensitive to a missing unit', 'cleanup')
    for p, s2, us in outcome['missing']:
        if not us: raise Violation('an empty missing-unit entry is left behind', 'cleanup')
    if outcome['left']: raise Violation('added/removed are not drained by reset', 'cleanup')



# ------------------------------------------------------------------------------------------------ whole-project histories
from .analysis_kit import ProjectKit, obs_key, obs_diff, obs_show
from . import projects as PJ


def sym_text(ctx, inp, text, tag):
    """characters of `text`; every `§` becomes a symbolic letter or digit"""
    out = []
    for i, c in enumerate(text):
        if c != '§': out.append(BV(ord(c), 32)); continue
        v = inp.bv(f'{tag}c{i}', 32)
        if inp.symbolic:
            ctx.assume(z3.Or(z3.And(z3.UGE(v.e, 97), z3.ULE(v.e, 122)), z3.And(z3.UGE(v.e, 65), z3.ULE(v.e, 90)), z3.And(z3.UGE(v.e, 48), z3.ULE(v.e, 57))))
        out.append(v)
    return out


class ProjHistory(Part):
    """Project::update_source + Project::analyse after every step  ==  a project freshly loaded from the final contents"""
    vcap = 4
    isolate = True
    thorough_cap = 3600

    def __init__(self, name, steps, projects, required=('compared',), time_cap=None):
        self.name, self.steps, self.projects = name, steps, projects
        self.required_classes = required
        self.time_cap = time_cap
        self.bounds = dict(projects=[p['name'] for p in projects], steps=f'every history of exactly 1..{steps} updates (file, contents) from the loaded state; analysis after every update',
                           contents='the listed variants per file incl. the empty file; one symbolic letter/digit in a name where a variant has one',
                           observation='all diagnostics (parser, analysis, both lints; position, code, message, related) and, per file, every reference with the position of the declaration it resolves to',
                           std='the bundled std library (standard, textio, env), parsed and analysed by the real code; ieee is not loaded')

    def obs(self, chk, ctx, pr, names):
        kit = chk.pkit
        d = sorted((kit.diag_obs(x) for x in pr.analyse(ctx)), key=obs_key)
        refs = tuple((n, tuple(sorted(((r, dcl) for r, dcl, _ in pr.references(ctx, n)), key=obs_key))) for n in names if n in pr.sources)
        return (tuple(d), refs)

    def load(self, chk, ctx, P, state, texts, copy):
        """a project as Project::from_config builds it: mapped files parsed in configuration order, then analysed"""
        kit = chk.pkit
        pr = kit.new_project(ctx, copy=copy)
        for lib, fn, _ in P['files']:
            if lib is None: continue
            pr.set_text(ctx, '/p/' + fn, texts[fn]); pr.map_file(ctx, '/p/' + fn, lib); pr.update(ctx, '/p/' + fn)
        return pr

    def base_of(self, chk, pi):
        if not hasattr(self, '_bases'): self._bases = {}
        if pi not in self._bases:
            P = self.projects[pi]
            ctx = Ctx(); ctx.step_limit = 10 ** 9
            assert all('§' not in vs[0] for _, _, vs in P['files'])
            pr = self.load(chk, ctx, P, None, {fn: [BV(ord(c), 32) for c in vs[0]] for lib, fn, vs in P['files']}, copy=True)
            pr.analyse(ctx)
            pr.statics = ctx.statics
            self._bases[pi] = pr
        return self._bases[pi]

    def run(self, chk, ctx, inp, verify=True):
        kit = chk.pkit
        pi = choose(ctx, inp, 'project', len(self.projects)); P = self.projects[pi]
        n = choose(ctx, inp, 'steps', self.steps) + 1
        files = P['files']
        state = {fn: (0 if lib is not None else None) for lib, fn, _ in files}
        texts = {fn: [BV(ord(c), 32) for c in vs[0]] for lib, fn, vs in files}
        # the loaded and analysed project is built once per process; a path runs in its own forked process and may use it in place
        base = self.base_of(chk, pi)
        if inp.symbolic: inc = base; ctx.statics = base.statics
        else: inc = base.clone(ctx)
        dup_seen = False
        for s in range(n):
            fi = choose(ctx, inp, f's{s}file', len(files)); lib, fn, vs = files[fi]
            vi = choose(ctx, inp, f's{s}var', len(vs))
            if inp.symbolic and state[fn] == vi and '§' not in vs[vi]: raise Infeasible()          # a no-op step: the shorter history covers it
            state[fn] = vi; texts[fn] = sym_text(ctx, inp, vs[vi], f's{s}')
            inc.set_text(ctx, '/p/' + fn, texts[fn]); inc.update(ctx, '/p/' + fn)
            if s < n - 1: inc.analyse(ctx)
        # the exemption of the property: a unit name defined in two files of one library at this step
        seen = {}
        for lib, fn, _ in files:
            if state[fn] is None: continue
            for u in P['units'][fn][state[fn]]:
                k = (lib or 'work', u)
                if k in seen: dup_seen = True
                seen[k] = fn
        names = ['/p/' + fn for lib, fn, _ in files]
        got = self.obs(chk, ctx, inc, names)
        if dup_seen:
            ctx.cover('a unit name defined in two files'); 
            if verify: return None
        # from scratch: mapped files first (configuration order), then the unmapped ones that were opened, as a client would
        fresh = self.load(chk, ctx, P, state, texts, copy=True)
        for lib, fn, _ in files:
            if lib is None and state[fn] is not None:
                fresh.set_text(ctx, '/p/' + fn, texts[fn]); fresh.update(ctx, '/p/' + fn)
        want = self.obs(chk, ctx, fresh, names)
        if not verify: return obs_show(got), obs_show(want)
        r = obs_diff(ctx, got, want)
        if r:
            ctx.notes.append(f'project={P["name"]} state={state}')
            ctx.notes.append('incremental: ' + repr(obs_show(got))[:3000]); ctx.notes.append('fresh: ' + repr(obs_show(want))[:3000])
            raise Violation(f'after {n} update(s) the incrementally maintained project differs from a freshly loaded one: {r}', 'incremental')
        ctx.cover('compared')
        if any(d[1] != 'Unused' and 'Sensitivity' not in d[1] for d in got[0]): ctx.cover('diagnostics present')
        if any(re.match(r'^s\d+c\d+$', k) for k in ctx.vars): ctx.cover('symbolic name character')
        return None

    def harness(self, chk):
        for pi in range(len(self.projects)): self.base_of(chk, pi)
        def h(ctx):
            ctx.step_limit = max(ctx.step_limit, 60_000_000)
            self.run(chk, ctx, SymInputs(ctx))
        return h

    # ---- native side
    def texts_of(self, P, w):
        """(initial texts, [(file, text)] steps, final state) of the history the witness describes, symbolic characters filled in"""
        def fill(text, tag): return ''.join(chr(w.get(f'{tag}c{i}', 0)) if c == '§' else c for i, c in enumerate(text))
        files = P['files']
        init = {fn: vs[0] for lib, fn, vs in files}
        state = {fn: (0 if lib is not None else None) for lib, fn, _ in files}
        cur = dict(init); steps = []
        for s in range(w.get('steps', 0) % self.steps + 1):
            lib, fn, vs = files[w.get(f's{s}file', 0) % len(files)]
            vi = w.get(f's{s}var', 0) % len(vs)
            state[fn] = vi; cur[fn] = fill(vs[vi], f's{s}'); steps.append([fn, cur[fn]])
        return init, steps, cur, state

    def case_of(self, w):
        P = self.projects[w.get('project', 0) % len(self.projects)]
        init, steps, cur, state = self.texts_of(P, w)
        libs = {}
        for lib, fn, _ in P['files']:
            if lib: libs.setdefault(lib, []).append(fn)
        import os
        from .. import build
        return {'dir': os.path.join(build.BUILD, 'scratch', f'c01-{os.getpid()}'), 'std': os.path.join(build.REPO, 'vhdl_libraries', 'std'),
                'libs': [[k, v] for k, v in libs.items()], 'texts': {fn: init[fn] for lib, fn, _ in P['files'] if lib}, 'steps': steps, 'fresh_texts': cur,
                'fresh_unmapped': [fn for lib, fn, _ in P['files'] if lib is None and state[fn] is not None], 'names': [fn for _, fn, _ in P['files']],
                'project': P['name']}

    def has_dup(self, w):
        P = self.projects[w.get('project', 0) % len(self.projects)]
        _, _, _, state = self.texts_of(P, w)
        seen = set()
        for lib, fn, _ in P['files']:
            if state[fn] is None: continue
            for u in P['units'][fn][state[fn]]:
                if (lib or 'work', u) in seen: return True
                seen.add((lib or 'work', u))
        return False

    def replay_case(self, chk, w, v):
        if self.has_dup(w): return 'the final state defines a unit name in two files (exempt)'
        for rel in (False, True):
            out = chk.native.run('projhist', [self.case_of(w)], release=rel)[0]
            if 'panic' in out: return True
            if 'incremental' not in out: return f'native replay failed: {out}'
            if out['incremental'] != out['fresh']: return True
        return False

    def translator_validation(self, chk):
        rng = chk.rng; cases = []
        for pi in range(len(self.projects)):
            for _ in range(2):
                w = {'project': pi, 'steps': rng.randrange(self.steps)}
                for s in range(self.steps): w[f's{s}file'] = rng.randrange(8); w[f's{s}var'] = rng.randrange(6)
                P = self.projects[pi]
                for lib, fn, vs in P['files']:
                    for vtext in vs:
                        for i, c in enumerate(vtext):
                            if c == '§':
                                for tag in [f's{s}' for s in range(self.steps)]: w[f'{tag}c{i}'] = ord(rng.choice('gxcl1P2tL'))
                cases.append(w)
        outs = chk.native.run('projhist', [self.case_of(w) for w in cases])
        bad = []
        for w, out in zip(cases, outs):
            ctx = Ctx(); ctx.step_limit = 10 ** 9
            got, want = self.run(chk, ctx, ConcInputs(ctx, w), verify=False)
            mine = norm_mine(got); theirs = norm_native(out.get('incremental')) if 'incremental' in out else out
            if mine != theirs: bad.append({'case': self.case_of(w)['steps'], 'project': self.case_of(w)['project'], 'interpreter': mine, 'native': theirs})
            elif not self.has_dup(w) and norm_mine(want) != norm_native(out['fresh']):
                bad.append({'case': self.case_of(w)['steps'], 'project': self.case_of(w)['project'], 'interpreter(fresh)': norm_mine(want), 'native(fresh)': norm_native(out['fresh'])})
        return len(cases), bad


def _bn(p): return p.rsplit('/', 1)[-1]


def norm_mine(o):
    d = sorted([[_bn(x[0][0])] + list(x[0][1:]), x[1], x[2], [[[_bn(r[0][0])] + list(r[0][1:]), r[1]] for r in x[3]]] for x in o[0])
    r = {_bn(n): sorted([list(a), None if b is None else [_bn(b[0])] + list(b[1:])] for a, b in rs) for n, rs in o[1]}
    return json.loads(json.dumps({'diagnostics': d, 'references': r}))


def norm_native(o):
    d = sorted([[_bn(x[0][0])] + x[0][1:], x[1], x[2], [[[_bn(r[0][0])] + r[0][1:], r[1]] for r in x[3]]] for x in o['diagnostics'])
    r = {_bn(n): sorted([a[1:], None if b is None else [_bn(b[0])] + b[1:]] for a, b in rs) for n, rs in o['references']}
    return {'diagnostics': d, 'references': r}


class C01(Check):
    prop = 'C01'
    crates = (L,)

    def parts(self):
        if hasattr(self, '_parts'): return self._parts
        if not hasattr(self, 'll'): self.ll = LangLex(self)
        if not hasattr(self, 'kit'): self.kit = RootKit(self)
        if not hasattr(self, 'pkit'): self.pkit = ProjectKit(self, log=self.log)
        req = ('compared', 'a unit name defined in two files', 'reset point')
        preq = ('compared', 'a unit name defined in two files', 'diagnostics present', 'symbolic name character')
        if self.tier == 'quick':
            ps = [LibHistory('library history, 3 steps over 2 files', 3, nfiles=2, required=req),
                  LibHistory('library history, 2 steps over 3 files', 2, nfiles=3, required=req),
                  LibHistory('3 files pre-loaded (package p / p+q / empty), then 2 steps', 2, nfiles=3, contents=[0, 1, 2], init=True, required=req),
                  ResetStep('reset: 2 symbolic users_of edges x 1 changed file', 2, False, False, required=('compared', 'some unit reset', 'some unit kept')),
                  ResetStep('reset: missing-unit entry x 1 edge x 1 changed file', 1, True, False, required=('compared', 'some unit reset')),
                  ResetStep('reset: use lib.all entry x 1 edge x 1 changed file', 1, False, True, required=('compared', 'some unit reset')),
                  ProjHistory('whole projects: update_source + analyse against a fresh load, 1 update', 1, PJ.C01_PROJECTS, required=preq),
                  ProjHistory('whole projects: 1..2 updates (two of the projects, rotating with VERIF_SEED)', 2,
                              [PJ.C01_PROJECTS[self.seed % len(PJ.C01_PROJECTS)], PJ.C01_PROJECTS[(self.seed + 3) % len(PJ.C01_PROJECTS)]], required=('compared',))]
        else:
            ps = [LibHistory('library history, 3 steps over 3 files', 3, nfiles=3, required=req),
                  LibHistory('library history, 4 steps over 2 files', 4, nfiles=2, required=req, contents=[0, 1, 2, 3, 4]),
                  LibHistory('3 files pre-loaded (5 contents), then 2 steps', 2, nfiles=3, contents=[0, 1, 2, 3, 6], init=True, required=req),
                  LibHistory('3 files pre-loaded (package p / p+q / empty), then 3 steps', 3, nfiles=3, contents=[0, 1, 2], init=True, required=req),
                  ResetStep('reset: 3 symbolic users_of edges x 1 changed file', 3, False, False, required=('compared', 'some unit reset', 'some unit kept')),
                  ResetStep('reset: missing-unit entry x 2 edges x 1 changed file', 2, True, False, required=('compared', 'some unit reset')),
                  ResetStep('reset: missing-unit and lib.all entries x 1 edge x 1 changed file', 1, True, True, required=('compared', 'some unit reset')),
                  ProjHistory('whole projects: update_source + analyse against a fresh load, 1..3 updates', 3, PJ.C01_PROJECTS, required=preq)]
        self._parts = ps
        return ps

    def assumptions(self):
        return ['histories: each step updates one file to one of the listed contents (remove_source + add_design_file, as Project::update_source/analyse do); reset points drain added/removed as DesignRoot::reset does',
                'units come from the real parser on the listed contents; the analysis result of a unit is opaque',
                'whole-project part: six listed projects with the bundled std library (ieee not loaded); the first three parts treat the analysis result of a unit as opaque',
                'FnvHashMap/FnvHashSet are modelled (insertion ordered); single thread']


if __name__ == '__main__':
    run_check(C01)
