"""C13  Analysis is insensitive to layout, comments and letter case  --  kernel: interner, keywords, tokenizer under re-layout.

I  real SymbolTable::{insert, insert_extended, lookup, insert_new} + Latin1String::lowercase on symbolic names:
   equal ids <=> equal names under Latin-1 case folding (basic) / bytewise (extended); the name returned is the spelling given.
K  real tokenizer on every case variant of a keyword spelling -> the same keyword Kind.
R  real tokenizer on a text and on its re-layout (a blank replaced by any separator incl. comments, one letter of a keyword
   or basic identifier case-flipped) -> equal kinds and values.
That parser, analyser and lints only ever compare normalised symbols is outside this check.
"""
import json
import z3
from ..util import Panic, Unsupported
from ..values import *
from ..interp import Violation, Ctx
from ..models import values_eq
from .common import Check, Part, SymInputs, ConcInputs, run_check
from .lang_lex import LangLex, Layout, L
from .c17 import choose
from . import corpus


def fold(b):
    """Latin-1 lower-casing as a z3 term (oracle, written from ISO 8859-1: A-Z and C0-DE except D7)"""
    if b.conc():
        return b.e + 32 if (65 <= b.e <= 90 or (0xC0 <= b.e <= 0xDE and b.e != 0xD7)) else b.e
    x = b.z()
    up = z3.Or(z3.And(z3.UGE(x, 65), z3.ULE(x, 90)), z3.And(z3.UGE(x, 0xC0), z3.ULE(x, 0xDE), x != 0xD7))
    return z3.If(up, x + 32, x)


class Interner(Part):
    vcap = 6

    def __init__(self, name, la, lb, preload, required=()):
        self.name, self.la, self.lb, self.preload = name, la, lb, preload
        self.required_classes = required
        self.bounds = dict(first_name_bytes=la, second_name_bytes=lb, alphabet='all byte values (basic names do not start with a backslash)',
                           table='pre-loaded with the VHDL-2008 keywords and attributes via the real Symbols::from_standard' if preload else 'empty',
                           kinds='each name basic or extended (symbolic)')

    def name_of(self, ctx, inp, tag, n):
        ext = ctx.branch(inp.bool(f'{tag}ext'))
        bs = [inp.byte(f'{tag}{i}') for i in range(n)]
        if ext:
            bs = [BV(92, 8)] + bs + [BV(92, 8)]
        elif bs and inp.symbolic:
            ctx.assume(bs[0].e != 92)
        elif bs and bs[0].e == 92:
            bs[0] = BV(93, 8)
        return ext, bs

    def insert(self, chk, ctx, table, ext, bs):
        lat = Agg('Latin1String', [VecV(list(bs))])
        return chk.I.call(ctx, L, 'SymbolTable::insert_extended' if ext else 'SymbolTable::insert', [ValRef(table), ValRef(lat)])

    def run(self, chk, ctx, inp, verify=True):
        ll = chk.ll
        if self.preload:
            syms = ll.fresh_symbols(); table = syms.fields[ll.fidx('Symbols', 'symtab')]
        else:
            table = chk.I.call(ctx, L, '<SymbolTable as Default>::default', [])
        ea, a = self.name_of(ctx, inp, 'a', self.la)
        eb, b = self.name_of(ctx, inp, 'b', self.lb)
        try:
            sa = self.insert(chk, ctx, table, ea, a)
            sb = self.insert(chk, ctx, table, eb, b)
            sa2 = self.insert(chk, ctx, table, ea, a)
        except Panic as p:
            raise Violation('panic: ' + str(p), 'panic')
        F = ll.S['Symbol']
        ida, idb, ida2 = [s.fields[F.index('id')] for s in (sa, sb, sa2)]
        if not verify: return [ctx.concretize(x) for x in (ida, idb, ida2)]
        # oracle
        if ea != eb: same = False
        elif len(a) != len(b): same = False
        else:
            same = True
            for x, y in zip(a, b):
                fx, fy = (x.z(), y.z()) if ea else (fold(x), fold(y))
                if isinstance(fx, int) and isinstance(fy, int): same = b_and(same, fx == fy)
                else: same = b_and(same, (fx if not isinstance(fx, int) else z3.BitVecVal(fx, 8)) == (fy if not isinstance(fy, int) else z3.BitVecVal(fy, 8)))
        ideq = bv_eq(ida, idb)
        ctx.obligations += 2
        if ctx.feasible(b_and(ideq, b_not(same))):
            raise Violation('two different identifiers share one symbol id', 'interner')
        if ctx.feasible(b_and(b_not(ideq), same)):
            raise Violation('the same identifier (up to case) gets two symbol ids', 'interner')
        if ctx.feasible(b_not(bv_eq(ida, ida2))): raise Violation('re-inserting a name gives another id', 'interner')
        for s, bs in ((sa, a), (sb, b), (sa2, a)):
            nm = seq_items(s.fields[F.index('name')].fields[0])
            if len(nm) != len(bs) or ctx.feasible(b_not(values_eq(chk.I, ctx, list(nm), list(bs)))):
                raise Violation('the symbol does not carry the spelling that was inserted', 'interner')
        ctx.cover('compared')
        if ea or eb: ctx.cover('extended identifier')
        if same is True or (same is not False and ctx.feasible(same)): ctx.cover('equal names')
        return None

    def harness(self, chk):
        def h(ctx): self.run(chk, ctx, SymInputs(ctx))
        return h

    def names_of(self, w):
        out = []
        for tag, n in (('a', self.la), ('b', self.lb)):
            bs = [w.get(f'{tag}{i}', 0) for i in range(n)]
            if w.get(f'{tag}ext', False): bs = [92] + bs + [92]
            elif bs and bs[0] == 92: bs[0] = 93
            out.append(bs)
        return out

    def case_of(self, w):
        a, b = self.names_of(w)
        return {'names': [a, b, a], 'preload': self.preload}

    def replay_case(self, chk, w, v):
        a, b = self.names_of(w)
        def lc(x): return [c + 32 if (65 <= c <= 90 or (0xC0 <= c <= 0xDE and c != 0xD7)) else c for c in x]
        ext = [x[:1] == [92] for x in (a, b)]
        same = ext[0] == ext[1] and ((a == b) if ext[0] else (lc(a) == lc(b)))
        for rel in (False, True):
            out = chk.native.run('intern', [self.case_of(w)], release=rel)[0]
            if 'panic' in out: return True
            ids = out.get('ids')
            if not ids: return f'native replay failed: {out}'
            if (ids[0] == ids[1]) != same or ids[0] != ids[2]: return True
        return False

    def translator_validation(self, chk):
        if self.preload: return 0, []
        rng = chk.rng; cases = []
        for _ in range(30):
            w = {f'{t}{i}': rng.choice([65, 97, 0xC9, 0xE9, 0xD7, 0xF7, 0xDF, 0xFF, 48, 95]) for t in 'ab' for i in range(3)}
            w['aext'] = rng.random() < 0.3; w['bext'] = rng.random() < 0.3
            cases.append(w)
        outs = chk.native.run('intern', [self.case_of(w) for w in cases])
        bad = []
        for w, out in zip(cases, outs):
            ctx = Ctx()
            mine = self.run(chk, ctx, ConcInputs(ctx, w), verify=False)
            ids = out.get('ids')
            if not ids or (mine[0] == mine[1]) != (ids[0] == ids[1]) or (mine[0] == mine[2]) != (ids[0] == ids[2]):
                bad.append({'case': self.case_of(w), 'interpreter': mine, 'native': out})
        return len(cases), bad


class Relayout(Part):
    """tokenizer relation under re-layout / case flips on skeleton snippets"""
    vcap = 6
    SEPS = [' ', '\t', '\n', '\r', '\r\n', '  ', ' --c\n', '/*c*/', ' /* c\n d */ ', '\n-- c\r\n']

    def __init__(self, name, skeletons, required=()):
        self.name, self.skeletons = name, skeletons
        self.required_classes = required
        self.bounds = dict(skeletons=len(skeletons), max_len=max(len(x) for x in skeletons), relayout='one blank between tokens replaced by any of %d separators (the comment character symbolic), and one letter of a keyword / basic identifier case-flipped' % len(self.SEPS),
                           first=[x.decode('latin-1') for x in skeletons[:6]])

    def lex(self, chk, ctx, symbols, chars):
        ll = chk.ll
        source, contents = ll.make_source(ctx, chars)
        tk = ll.make_tokenizer(ctx, symbols, source, contents)
        evs = ll.pop_all(ctx, tk, len(chars))
        return evs, Layout(ctx, chars)

    def analyse(self, chk, ctx, symbols, sk):
        """lex the skeleton; letters of keywords / basic identifiers and blanks that lie between tokens (outside comments)"""
        ll = chk.ll
        ev1, lay1 = self.lex(chk, ctx, symbols, [BV(c, 32) for c in sk])
        toks1 = [ll.tok(t) for kind, t in ev1 if kind == 'tok']
        kw = set(x.variant for x in seq_items(symbols.fields[ll.fidx('Symbols', 'keywords')]))
        letters = []; covered = set()
        idx = lambda p: lay1.index_of(ctx, p.fields[0], p.fields[1])
        F = ll.S['Comment']
        for t in toks1:
            kn = t['kind'].variant
            s, e = idx(t['start']), idx(t['end'])
            covered.update(range(s, e))
            if kn in kw or (kn == 'Identifier' and sk[s] != 92):
                letters += [i for i in range(s, e) if (65 <= sk[i] <= 90 or 97 <= sk[i] <= 122 or (0xC0 <= sk[i] <= 0xFE and sk[i] not in (0xD7, 0xF7, 0xDF)))]
            lead, trail = ll.comments_of(t)
            for c in lead + ([trail] if trail is not None else []):
                r = c.fields[F.index('range')]
                covered.update(range(idx(r.fields[0]), idx(r.fields[1])))
        last = max(covered) if covered else -1
        blanks = [i for i, c in enumerate(sk) if c == 32 and i not in covered and i < last]
        return ev1, toks1, letters, blanks

    def variant(self, ctx, inp, sk, letters, blanks):
        out = [BV(c, 32) for c in sk]
        if letters:
            q = letters[choose(ctx, inp, 'letter', len(letters))]
            out[q] = BV(sk[q] ^ 0x20, 32)
        if blanks:
            p = blanks[choose(ctx, inp, 'blank', len(blanks))]
            sep = self.SEPS[choose(ctx, inp, 'sep', len(self.SEPS))]
            rep = []
            for ch in sep:
                if ch == 'c':
                    c = inp.char('cc')
                    if inp.symbolic: ctx.assume(z3.And(c.e != 10, c.e != 13, c.e != 42, c.e != 47))
                    rep.append(c)
                else: rep.append(BV(ord(ch), 32))
            out = out[:p] + rep + out[p + 1:]
        return out

    def run(self, chk, ctx, inp, verify=True):
        ll = chk.ll; I = chk.I
        k = choose(ctx, inp, 'sk', len(self.skeletons)); sk = self.skeletons[k]
        symbols = ll.fresh_symbols()
        ev1, toks1, letters, blanks = self.analyse(chk, ctx, symbols, sk)
        if any(kind == 'err' for kind, _ in ev1): ctx.cover('excluded: lexical error'); return None
        if not toks1: ctx.cover('excluded: no token'); return None
        var = self.variant(ctx, inp, sk, letters, blanks)
        ev2, _ = self.lex(chk, ctx, symbols, var)
        summary = [[ll.tok(t)['kind'].variant for k2, t in ev if k2 == 'tok'] for ev in (ev1, ev2)]
        if not verify: return summary
        if any(kind == 'err' for kind, _ in ev2):
            ctx.model(); raise Violation('the re-laid-out text has lexical errors', 'relayout')
        toks2 = [ll.tok(t) for _, t in ev2]
        if len(toks1) != len(toks2):
            ctx.model(); raise Violation(f'{len(toks1)} tokens before, {len(toks2)} after re-layout', 'relayout')
        SI = ll.S['Symbol'].index('id')
        for a, b in zip(toks1, toks2):
            if a['kind'].variant != b['kind'].variant: raise Violation(f'kind {a["kind"].variant} became {b["kind"].variant} under re-layout', 'relayout')
            va, vb = a['value'], b['value']
            if va.variant == 'Identifier': eq = bv_eq(va.fields[0].fields[SI], vb.fields[0].fields[SI])
            elif va.variant in ('AbstractLiteral', 'BitString'): eq = values_eq(I, ctx, va.fields[1], vb.fields[1])
            else: eq = values_eq(I, ctx, va, vb)
            ctx.obligations += 1
            if eq is not True and ctx.feasible(b_not(eq)): raise Violation(f'value of {a["kind"].variant} changes under re-layout / case flip', 'relayout')
        ctx.cover('compared')
        if letters: ctx.cover('case flipped')
        if blanks: ctx.cover('separator replaced')
        return summary

    def harness(self, chk):
        def h(ctx): self.run(chk, ctx, SymInputs(ctx))
        return h

    def case_of(self, w):
        sk = self.skeletons[w.get('sk', 0) % len(self.skeletons)]
        return {'sk': list(sk), 'w': {k: v for k, v in w.items()}}

    def texts_of(self, chk, w):
        """the two concrete texts, recomputed with the interpreter's own variant construction"""
        ctx = Ctx(); inp = ConcInputs(ctx, w)
        k = choose(ctx, inp, 'sk', len(self.skeletons)); sk = self.skeletons[k]
        symbols = chk.ll.fresh_symbols()
        ev1, toks1, letters, blanks = self.analyse(chk, ctx, symbols, sk)
        var = self.variant(ctx, inp, sk, letters, blanks)
        return list(sk), [c.e for c in var]

    def replay_case(self, chk, w, v):
        import re
        a, b = self.texts_of(chk, w)
        norm = lambda s: re.sub(r'id: \d+', 'id', s)
        for rel in (False, True):
            o1, o2 = chk.native.run('lex', [{'text': a}, {'text': b}], release=rel)
            if 'tokens' not in o1 or 'tokens' not in o2: return True
            if o1['diagnostics']: continue
            if o2['diagnostics'] or len(o1['tokens']) != len(o2['tokens']): return True
            for x, y in zip(o1['tokens'], o2['tokens']):
                if x['kind'] != y['kind']: return True
                if x['kind'] == 'Identifier':
                    if norm(x['value']).lower() != norm(y['value']).lower(): return True
                elif x['kind'] in ('AbstractLiteral', 'BitString'):
                    if x['value'].split(',', 1)[-1].lower() != y['value'].split(',', 1)[-1].lower(): return True
                elif x['value'] != y['value']: return True
        return False

    def translator_validation(self, chk):
        rng = chk.rng; cases = []
        for _ in range(12):
            cases.append({'sk': rng.randrange(len(self.skeletons)), 'letter': rng.randrange(50), 'blank': rng.randrange(20), 'sep': rng.randrange(len(self.SEPS)), 'cc': 120})
        bad = []
        for w in cases:
            ctx = Ctx()
            mine = self.run(chk, ctx, ConcInputs(ctx, w), verify=False)
            if mine is None: continue
            a, b = self.texts_of(chk, w)
            o1, o2 = chk.native.run('lex', [{'text': a}, {'text': b}])
            theirs = [[t['kind'] for t in o.get('tokens', [])] for o in (o1, o2)]
            if mine != theirs: bad.append({'case': [a, b], 'interpreter': mine, 'native': theirs})
        return len(cases), bad


class Keywords(Part):
    vcap = 6

    def __init__(self, name, maxlen_all, required=()):
        self.name, self.maxlen_all = name, maxlen_all
        self.required_classes = required
        self.bounds = dict(rule=f'every VHDL-2008 keyword: every letter independently upper/lower (symbolic) for keywords of up to {maxlen_all} letters, any two letters for longer ones')

    def run(self, chk, ctx, inp, verify=True):
        ll = chk.ll; I = chk.I
        symbols = ll.fresh_symbols()
        kws = seq_items(symbols.fields[ll.fidx('Symbols', 'keywords')])
        k = choose(ctx, inp, 'kw', len(kws))
        kind = kws[k]
        name = I.call(ctx, L, 'Kind::as_str', [ValRef(kind)]) if I.resolve_static(L, 'Kind::as_str') else None
        from ..models import str_bytes
        spelling = [b.e for b in str_bytes(name)]
        n = len(spelling)
        if n <= self.maxlen_all: flips = list(range(n))
        else:
            i = choose(ctx, inp, 'p0', n); j = choose(ctx, inp, 'p1', n); flips = [i, j]
        chars = []
        for i, c in enumerate(spelling):
            if i in flips and 97 <= c <= 122:
                up = inp.bool(f'up{i}')
                chars.append(BV(c - 32, 32) if ctx.branch(up) else BV(c, 32))
            else: chars.append(BV(c, 32))
        source, contents = ll.make_source(ctx, chars)
        tk = ll.make_tokenizer(ctx, symbols, source, contents)
        evs = ll.pop_all(ctx, tk, len(chars))
        if len(evs) != 1 or evs[0][0] != 'tok': raise Violation(f'keyword spelling {bytes(spelling)!r} does not lex as one token', 'keyword')
        got = ll.tok(evs[0][1])['kind'].variant
        if got != kind.variant: raise Violation(f'case variant of keyword {kind.variant} lexes as {got}', 'keyword')
        ctx.cover('compared')
        return got

    def harness(self, chk):
        def h(ctx): self.run(chk, ctx, SymInputs(ctx))
        return h

    def replay_case(self, chk, w, v): return 'keyword case variants are replayed through part R style lexing only'


class C13(Check):
    prop = 'C13'
    crates = (L,)

    def parts(self):
        if hasattr(self, '_parts'): return self._parts
        if not hasattr(self, 'll'): self.ll = LangLex(self)
        snippets = [x for x in corpus.all_lexemes() if b' ' in x and b'`' not in x and b'vhdl_ls' not in x]
        if self.tier == 'quick':
            ps = [Interner('interner, names of 2 bytes, empty table', 2, 2, False, required=('compared', 'extended identifier', 'equal names')),
                  Interner('interner, names of 1 byte, keyword table', 1, 1, True, required=('compared',)),
                  Keywords('keyword case variants', 5, required=('compared',)),
                  Relayout('re-layout of snippets', [x for x in snippets if len(x) <= 24][:40], required=('compared', 'case flipped'))]
        else:
            ps = [Interner('interner, names of 2 bytes, empty table', 2, 2, False, required=('compared', 'extended identifier', 'equal names')),
                  Interner('interner, names of 3 and 2 bytes, empty table', 3, 2, False, required=('compared',)),
                  Interner('interner, names of 2 bytes, keyword table', 2, 2, True, required=('compared',)),
                  Keywords('keyword case variants', 8, required=('compared',)),
                  Relayout('re-layout of snippets', snippets, required=('compared', 'case flipped'))]
        from .analysis_kit import ProjectKit
        from .invariance import AnalysisInvariance
        from . import designs as DS
        if not hasattr(self, 'pkit'): self.pkit = ProjectKit(self, libs=('lib0', 'lib1', 'lib2', 'ieee'), third_party=('ieee',), log=self.log)
        q = self.tier == 'quick'
        ds = [DS.MUT_DESIGN, DS.D_SEM] + ([] if q else [DS.D_COMB])
        ps.append(AnalysisInvariance('analysis: letter case of one identifier or keyword', ds, 'case', stride=12 if q else 1, offset=self.seed % 12 if q else 0,
                                     required=('compared', 'diagnostics present', 'quoted name re-spelled')))
        ps.append(AnalysisInvariance('analysis: re-layout at one gap between tokens', ds, 'layout', stride=24 if q else 1, offset=self.seed % 24 if q else 0,
                                     required=('compared', 'diagnostics present', 'line break inserted')))
        if not q:
            from .. import build as _b
            ps.append(AnalysisInvariance('analysis: letter case of the declared type names of ieee.std_logic_1164', [DS.ieee_design(_b.REPO)], 'case', required=('compared',)))
        self._parts = ps
        return ps

    def assumptions(self):
        return ['analysis parts: three listed designs, one token (case) or one gap (layout) changed at a time; several simultaneous changes and ieee are outside',
                'basic identifiers are inserted with SymbolTable::insert (names not starting with a backslash), extended ones with insert_extended, as the tokenizer does',
                'FnvHashMap is modelled (association list with forking key comparison); RwLock transparent, single thread',
                're-layout: only replaces an existing blank between tokens and flips one letter; the separator set is listed in the bounds']


if __name__ == '__main__':
    run_check(C13)
