"""C12  Formatting preserves the token stream and the comments.

Part F (the property as stated, on skeleton programs): real parse_design_source -> real VHDLFormatter::format_design_file ->
real parse_design_source of the output; for every value of the symbolic character on which the first parse is diagnostic-free:
the second parse is diagnostic-free and yields, unit by unit, tokens equal by kind and value and equal comments (up to trailing blanks).
Part T (kernel, lexeme level): for every token of a diagnostic-free lexing of a short text / skeleton lexeme, the text rendered by the
real Buffer::push_token re-lexes (real tokenizer, same preceding token kind) into exactly that token with the same comments.
"""
import json, os
import z3
from ..util import Panic, Unsupported, StepLimit
from ..values import *
from ..interp import Violation, Ctx
from ..models import values_eq, decode_all, str_bytes, utf8_encode
from .common import Check, Part, SymInputs, ConcInputs, run_check
from .lang_lex import LangLex, Layout, L
from .c17 import choose
from . import corpus

VALID = json.load(open(os.path.join(os.path.dirname(__file__), 'programs_valid.json')))


def trim_end(ctx, chars):
    n = len(chars)
    def ws(c):
        if c.conc(): return c.e in (32, 9, 10, 11, 12, 13, 0x85, 0xA0) or c.e in (0x1680, 0x2028, 0x2029, 0x202F, 0x205F, 0x3000) or 0x2000 <= c.e <= 0x200A
        return z3.Or([c.z() == k for k in (32, 9, 10, 11, 12, 13, 0x85, 0xA0, 0x1680, 0x2028, 0x2029, 0x202F, 0x205F, 0x3000)] + [z3.And(z3.UGE(c.z(), 0x2000), z3.ULE(c.z(), 0x200A))])
    while n > 0 and ctx.branch(ws(chars[n - 1])): n -= 1
    return chars[:n]


def comments_equal(chk, ctx, ll, ta, tb, what):
    la, tra = ll.comments_of(ta); lb, trb = ll.comments_of(tb)
    if len(la) != len(lb) or (tra is None) != (trb is None):
        raise Violation(f'{what}: attached comments differ in number ({len(la)}+{int(tra is not None)} vs {len(lb)}+{int(trb is not None)})', 'comments')
    F = ll.S['Comment']
    for ca, cb in list(zip(la, lb)) + ([(tra, trb)] if tra is not None else []):
        if ca.fields[F.index('multi_line')] != cb.fields[F.index('multi_line')]: raise Violation(f'{what}: comment kind differs', 'comments')
        va = trim_end(ctx, decode_all(ctx, ca.fields[F.index('value')])); vb = trim_end(ctx, decode_all(ctx, cb.fields[F.index('value')]))
        if len(va) != len(vb): raise Violation(f'{what}: comment text differs in length', 'comments')
        neq = False
        for a, b in zip(va, vb): neq = b_or(neq, b_not(bv_eq(a, b)))
        ctx.obligations += 1
        if neq is not False and ctx.feasible(neq): raise Violation(f'{what}: comment text differs', 'comments')
        ctx.cover('comment compared')


class RoundTrip(Part):
    vcap = 6

    def __init__(self, name, skeletons, window=None, required=(), time_cap=None, step_limit=6000000):
        self.name, self.skeletons, self.window = name, skeletons, window
        self.required_classes = required; self.time_cap = time_cap; self.step_limit = step_limit
        self.bounds = dict(skeleton_programs=len(skeletons), max_len=max(len(x) for x in skeletons), symbolic_chars_per_run=1,
                           hole_positions=('all' if window is None else f'window of {window[1]} positions starting at {window[0]} (mod length)'),
                           first=[x[:50] for x in skeletons[:4]])

    def positions(self, sk):
        if self.window is None: return list(range(len(sk)))
        return [(self.window[0] + j) % len(sk) for j in range(min(self.window[1], len(sk)))]

    def input(self, ctx, inp):
        k = choose(ctx, inp, 'sk', len(self.skeletons))
        sk = self.skeletons[k]
        pos = self.positions(sk)
        h = pos[choose(ctx, inp, 'hole', len(pos))]
        return [inp.char(f'c{i}') if i == h else BV(ord(sk[i]), 32) for i in range(len(sk))]

    def case_of(self, w):
        sk = self.skeletons[w.get('sk', 0) % len(self.skeletons)]
        pos = self.positions(sk)
        h = pos[w.get('hole', 0) % len(pos)]
        return {'text': [w.get(f'c{i}', 0) if i == h else ord(sk[i]) for i in range(len(sk))]}

    def parse(self, chk, ctx, parser, chars):
        ll = chk.ll; I = chk.I
        source, contents = ll.make_source(ctx, chars)
        diags = VecV([])
        df = I.call(ctx, L, 'VHDLParser::parse_design_source', [ValRef(parser), ValRef(source), ValRef(diags)])
        return df, diags.items

    def run(self, chk, ctx, inp, verify=True):
        ll = chk.ll; I = chk.I
        chars = self.input(ctx, inp)
        ctx.step_limit = self.step_limit
        parser = Agg('VHDLParser', [None] * len(ll.S['VHDLParser']))
        parser.fields[ll.fidx('VHDLParser', 'symbols')] = ll.fresh_symbols()
        parser.fields[ll.fidx('VHDLParser', 'standard')] = I.enum_value(L, 'VHDLStandard', 'VHDL2008')
        try:
            df, d1 = self.parse(chk, ctx, parser, chars)
        except (Panic, StepLimit):
            ctx.cover('excluded: first parse fails'); return None      # C02's business
        if d1:
            ctx.cover('excluded: source has diagnostics'); return None
        units1 = seq_items(df.fields[ll.fidx('DesignFile', 'design_units')])
        if self.has_off_region(ctx, ll, units1):
            ctx.cover('excluded: vhdl_ls off region'); return None
        try:
            out = I.call(ctx, L, 'VHDLFormatter::format_design_file', [ValRef(df)])
        except Panic as p:
            raise Violation('formatter panics: ' + str(p), 'panic')
        ochars = decode_all(ctx, out)
        if not verify: return {'formatted': [c.e for c in ochars]}
        try:
            df2, d2 = self.parse(chk, ctx, parser, ochars)
        except Panic as p:
            raise Violation('re-parse of the formatted text panics: ' + str(p), 'reparse')
        if d2:
            ctx.model()
            raise Violation(f'formatted text no longer parses cleanly ({len(d2)} diagnostics)', 'reparse')
        units2 = seq_items(df2.fields[ll.fidx('DesignFile', 'design_units')])
        if len(units1) != len(units2): raise Violation(f'{len(units1)} design units before, {len(units2)} after formatting', 'tokens')
        for ui, (u1, u2) in enumerate(zip(units1, units2)):
            t1, t2 = seq_items(u1.fields[0]), seq_items(u2.fields[0])
            if len(t1) != len(t2):
                ctx.model()
                raise Violation(f'unit {ui}: {len(t1)} tokens before, {len(t2)} after formatting', 'tokens')
            for k, (a, b) in enumerate(zip(t1, t2)):
                ta, tb = ll.tok(a), ll.tok(b)
                if ta['kind'].variant != tb['kind'].variant:
                    raise Violation(f'unit {ui} token {k}: kind {ta["kind"].variant} became {tb["kind"].variant}', 'tokens')
                eq = values_eq(I, ctx, ta['value'], tb['value'])
                ctx.obligations += 1
                if eq is not True and ctx.feasible(b_not(eq)):
                    raise Violation(f'unit {ui} token {k} ({ta["kind"].variant}): value changed by formatting', 'tokens')
                comments_equal(chk, ctx, ll, ta, tb, f'unit {ui} token {k}')
        ctx.cover('round trip compared')
        return {'formatted': None}

    def has_off_region(self, ctx, ll, units):
        return False

    def harness(self, chk):
        def h(ctx): self.run(chk, ctx, SymInputs(ctx))
        return h

    def replay_case(self, chk, w, v):
        return native_breaks(chk, self.case_of(w))

    def translator_validation(self, chk):
        rng = chk.rng; cases = []
        for _ in range(10 if chk.tier == 'quick' else 30):
            k = rng.randrange(len(self.skeletons)); sk = self.skeletons[k]
            w = {'sk': k, 'hole': rng.randrange(200)}
            h = self.positions(sk)[w['hole'] % len(self.positions(sk))]
            w[f'c{h}'] = ord(sk[h]) if rng.random() < 0.7 else rng.choice([ord('a'), ord(' '), ord('1'), ord('_')])
            cases.append(w)
        outs = chk.native.run('format', [self.case_of(w) for w in cases])
        bad = []
        for w, out in zip(cases, outs):
            ctx = Ctx()
            try:
                mine = self.run(chk, ctx, ConcInputs(ctx, w), verify=False)
            except Violation as vv:
                bad.append({'case': self.case_of(w), 'interpreter': str(vv), 'native': out}); continue
            if mine is None:
                if out.get('ndiag', 1) == 0: bad.append({'case': self.case_of(w), 'interpreter': 'excluded', 'native': out})
                continue
            if out.get('ndiag') != 0 or mine['formatted'] != out.get('formatted'):
                bad.append({'case': self.case_of(w), 'interpreter': ''.join(chr(c) for c in mine['formatted']), 'native': out})
        return len(cases), bad


def native_breaks(chk, case):
    for rel in (False, True):
        out = chk.native.run('format', [case], release=rel)[0]
        if 'panic' in out: return True
        if 'ndiag' not in out: return f'native replay failed: {out}'
        if out['ndiag'] != 0: continue
        if out['ndiag2'] != 0 or not out['same_tokens'] or not out['same_comments']: return True
    return False


class TokenKernel(Part):
    """per-token render / re-lex round trip (Buffer::push_token o Tokenizer::pop)"""
    vcap = 8

    def __init__(self, name, N=None, skeletons=None, required=()):
        self.name, self.N, self.skeletons = name, N, skeletons
        self.required_classes = required
        self.bounds = dict(input_chars=N, alphabet='all Unicode scalar values') if skeletons is None else \
            dict(skeletons=len(skeletons), max_len=max(len(x) for x in skeletons), symbolic_chars_per_run=1)

    def input(self, ctx, inp):
        if self.skeletons is None: return [inp.char(f'c{i}') for i in range(self.N)]
        k = choose(ctx, inp, 'sk', len(self.skeletons)); sk = self.skeletons[k]
        h = choose(ctx, inp, 'hole', len(sk))
        return [inp.char(f'c{i}') if i == h else BV(sk[i], 32) for i in range(len(sk))]

    def case_of(self, w):
        if self.skeletons is None: return {'text': [w.get(f'c{i}', 0) for i in range(self.N)]}
        sk = self.skeletons[w.get('sk', 0) % len(self.skeletons)]; h = w.get('hole', 0) % len(sk)
        return {'text': [w.get(f'c{i}', 0) if i == h else sk[i] for i in range(len(sk))]}

    def run(self, chk, ctx, inp, verify=True):
        ll = chk.ll; I = chk.I
        chars = self.input(ctx, inp)
        symbols = ll.fresh_symbols()
        source, contents = ll.make_source(ctx, chars)
        tk = ll.make_tokenizer(ctx, symbols, source, contents)
        evs = ll.pop_all(ctx, tk, len(chars))
        if any(k == 'err' for k, _ in evs):
            ctx.cover('excluded: lexical error'); return None
        rendered = []
        prev_kind = None
        for _, t in evs:
            buf = I.call(ctx, L, 'Buffer::new', [])
            try:
                I.call(ctx, L, 'Buffer::push_token', [ValRef(buf), ValRef(t)])
            except Panic as p:
                raise Violation('push_token panics: ' + str(p), 'panic')
            text = decode_all(ctx, buf.fields[ll.fidx('Buffer', 'inner')])
            rendered.append([c.e if c.conc() else None for c in text])
            tt = ll.tok(t)
            if verify:
                if tt['kind'].variant == 'GraveAccent' or tt['kind'].variant == 'Text':
                    prev_kind = tt['kind']; continue
                s2, c2 = ll.make_source(ctx, text)
                tk2 = ll.make_tokenizer(ctx, symbols, s2, c2, last_kind=(SOME(prev_kind) if prev_kind is not None else None))
                ev2 = ll.pop_all(ctx, tk2, len(text))
                toks2 = [e for e in ev2 if e[0] == 'tok']
                if len(toks2) != 1 or len(ev2) != 1:
                    ctx.model()
                    raise Violation(f'rendering of token {tt["kind"].variant} re-lexes into {[(e[0] if e[0] == "err" else ll.tok(e[1])["kind"].variant) for e in ev2]}', 'relex')
                t2 = ll.tok(toks2[0][1])
                if t2['kind'].variant != tt['kind'].variant: raise Violation(f'token {tt["kind"].variant} is rendered as a {t2["kind"].variant}', 'relex')
                eq = values_eq(I, ctx, tt['value'], t2['value'])
                ctx.obligations += 1
                if eq is not True and ctx.feasible(b_not(eq)): raise Violation(f'value of token {tt["kind"].variant} changes when rendered and re-lexed', 'relex')
                comments_equal(chk, ctx, ll, tt, t2, f'token {tt["kind"].variant}')
                ctx.cover('token round trip compared')
            prev_kind = tt['kind']
        return rendered

    def harness(self, chk):
        def h(ctx): self.run(chk, ctx, SymInputs(ctx))
        return h

    def replay_case(self, chk, w, v):
        # through the public API: the token embedded where the grammar accepts it is not always possible; replay the kernel natively
        case = self.case_of(w)
        for rel in (False, True):
            out = chk.native.run('render', [case], release=rel)[0]
            if 'panic' in out: return True
            if 'rendered' not in out: return f'native replay failed: {out}'
            if out['ndiag']: continue
            orig = chk.native.run('lex', [case], release=rel)[0]['tokens']
            for t, r in zip(orig, out['rendered']):
                if t['kind'] in ('GraveAccent', 'Text'): continue
                sub = chk.native.run('lex', [{'text': [ord(c) for c in r]}], release=rel)[0]
                norm = lambda v: __import__('re').sub(r'id: \d+', 'id: _', v)
                if len(sub.get('tokens', [])) != 1 or sub['diagnostics']:
                    # a leading tick may need its left context (IR1045); retry after a preceding identifier
                    if t['kind'] == 'Tick': continue
                    return True
                t2 = sub['tokens'][0]
                if t2['kind'] != t['kind'] or norm(t2['value']) != norm(t['value']): return True
        return False

    def translator_validation(self, chk):
        rng = chk.rng
        alpha = [ord(c) for c in 'ab1x_ \n"\'#.-/*\\eE+'] + [0xE9]
        cases = []
        for _ in range(20):
            w = {f'c{i}': rng.choice(alpha) for i in range(self.N or 24)}
            if self.skeletons is not None:
                w['sk'] = rng.randrange(len(self.skeletons)); w['hole'] = rng.randrange(24)
            cases.append(w)
        outs = chk.native.run('render', [self.case_of(w) for w in cases])
        bad = []
        for w, out in zip(cases, outs):
            ctx = Ctx()
            try:
                mine = self.run(chk, ctx, ConcInputs(ctx, w), verify=False)
            except Violation as vv:
                bad.append({'case': self.case_of(w), 'interpreter': str(vv), 'native': out}); continue
            if mine is None:
                if out.get('ndiag') == 0: bad.append({'case': self.case_of(w), 'interpreter': 'excluded', 'native': out})
                continue
            theirs = [[ord(c) for c in r] for r in out.get('rendered', [])]
            if out.get('ndiag') != 0 or mine != theirs: bad.append({'case': self.case_of(w), 'interpreter': mine, 'native': out})
        return len(cases), bad


class C12(Check):
    prop = 'C12'
    crates = (L,)

    def parts(self):
        if hasattr(self, '_parts'): return self._parts
        if not hasattr(self, 'll'): self.ll = LangLex(self)
        lex = [x for x in corpus.skeletons('vhdl_lang', self.seed, count=80 if self.tier == 'quick' else 225, max_len=12 if self.tier == 'quick' else 24) if b'`' not in x]
        if self.tier == 'quick':
            w0 = (self.seed * 11) % 60
            ps = [RoundTrip('valid programs, 1 symbolic char in a window', VALID, window=(w0, 8), required=('round trip compared', 'comment compared', 'excluded: source has diagnostics')),
                  TokenKernel('chars N<=2, every token rendered and re-lexed', N=2, required=('token round trip compared',)),
                  TokenKernel('skeleton lexemes, 1 symbolic char', skeletons=lex, required=('token round trip compared', 'comment compared'))]
        else:
            ps = [RoundTrip('valid programs, 1 symbolic char anywhere', VALID, required=('round trip compared', 'comment compared', 'excluded: source has diagnostics')),
                  TokenKernel('chars N<=3, every token rendered and re-lexed', N=3, required=('token round trip compared',)),
                  TokenKernel('skeleton lexemes, 1 symbolic char', skeletons=lex, required=('token round trip compared', 'comment compared'))]
        self._parts = ps
        return ps

    def assumptions(self):
        return ['sources: the listed valid skeleton programs with one symbolic character; only values on which the first parse is diagnostic-free are in the claim (the property\'s precondition)',
                'token kernel: every text up to the exhaustive length / skeleton lexemes with one symbolic character; texts with lexical errors excluded',
                'comments are compared up to trailing blanks, as the property states; tool directives are excluded from the token kernel',
                'f64 values are uninterpreted functions of their digit text']


if __name__ == '__main__':
    run_check(C12)
