"""Skeleton corpus for the lexer properties: lexeme-sized texts (curated literal forms per LRM 15 + string literals harvested
once from the repository's tokenizer tests), committed as lexemes.json so that runs are reproducible.  VERIF_SEED rotates which
entries a quick run takes; the curated entries are always first."""
import json, os, random

_HERE = os.path.dirname(os.path.abspath(__file__))
CURATED = 76


def all_lexemes():
    return [s.encode('latin-1') for s in json.load(open(os.path.join(_HERE, 'lexemes.json')))]


def skeletons(which, seed, count, max_len):
    xs = [s for s in all_lexemes() if 1 <= len(s) <= max_len]
    head, tail = xs[:CURATED], xs[CURATED:]
    rng = random.Random(seed)
    rng.shuffle(tail)
    out = head + tail
    return out[:count]
