"""C20  Sensitivity-list lint is exact on combinational processes with known reads.

Real code (MIR): Project::analyse = parser + analyser + SensitivityListLinter (lint_sensitivity_list and its walk over statements,
expressions, names, waveforms) on generated processes.  Per path the generator picks one or two statements with a known ordered read set,
a sensitivity list (any subset of the five visible signals, in a fixed order) or one of the exempt forms (`all`, no list + wait, clock
edge); the oracle is the construction: one `missing` diagnostic at the `process` keyword naming reads - listed in first-read order iff
that set is non-empty, one `superfluous` diagnostic at every listed signal that is not read, nothing for the exempt forms.
"""
from .queries import *

HEAD = """entity e20 is
  port (a, b, c, clk : in bit; v : in bit_vector(3 downto 0); i : in natural range 0 to 3);
end entity;

architecture a20 of e20 is
  signal y1, y2 : bit;
  signal yv : bit_vector(3 downto 0);
  function fn (x : bit) return bit is
  begin
    return not x;
  end function;
begin
"""
SIGS = ['a', 'b', 'c', 'v', 'i']
# (text with target placeholder %T / %V, ordered reads)
STMTS = [
    ("    %T <= a;\n", ['a']),
    ("    %T <= v(i);\n", ['v', 'i']),
    ("    %V(1 downto 0) <= v(2 downto 1);\n", ['v']),
    ("    %T <= fn(b);\n", ['b']),
    ("    if c = '1' then\n      %T <= a;\n    end if;\n", ['c', 'a']),
    ("    case i is\n      when 0 => %T <= b;\n      when others => %T <= c;\n    end case;\n", ['i', 'b', 'c']),
    ("    for k in 0 to 3 loop\n      %V(k) <= v(k);\n    end loop;\n", ['v']),
    ("    %V <= (0 => a, 1 => b, others => '0');\n", ['a', 'b']),
    ("    %T <= fn(v(i)) and a;\n", ['v', 'i', 'a']),
    ("    if a = '1' then\n      %T <= b;\n    elsif c = '1' then\n      %T <= a;\n    else\n      %T <= v(0);\n    end if;\n", ['a', 'b', 'c', 'v']),
    ("    %T <= v(3) when i = 0 else c;\n", ['v', 'i', 'c']),
]
SECOND = [None, ("    %T <= b;\n", ['b']), ("    %T <= fn(a);\n", ['a'])]


def build(s1, s2, listed, mode):
    """mode 0: explicit list, 1: all, 2: no list + wait, 3: clock edge -> text, process keyword position, {signal: list entry position}, reads"""
    body = STMTS[s1][0].replace('%T', 'y1').replace('%V', 'yv'); reads = list(STMTS[s1][1])
    if SECOND[s2]:
        body += SECOND[s2][0].replace('%T', 'y2')
        reads += [r for r in SECOND[s2][1] if r not in reads]
    names = [s for s, on in zip(SIGS, listed) if on]
    if mode == 0: head = '  p : process (' + ', '.join(names) + ')\n' if names else None
    elif mode == 1: head = '  p : process (all)\n'
    elif mode == 2: head = '  p : process\n'
    else: head = '  p : process (clk)\n'
    if head is None: return None
    text = HEAD
    line = text.count('\n')
    pos_proc = (line, head.index('process'))
    entries = {}
    if mode == 0:
        col = head.index('(') + 1
        for n in names:
            entries[n] = (line, col, col + len(n)); col += len(n) + 2
    text += head + '  begin\n'
    if mode == 3: text += "    if clk'event and clk = '1' then\n" + body + "    end if;\n"
    else: text += body
    if mode == 2: text += '    wait on a;\n'
    text += '  end process;\nend architecture;\n'
    return text, pos_proc, entries, reads


class Generated20(DesignPart):
    def __init__(self, name, lists, required=(), time_cap=None):
        self.name, self.lists = name, lists
        self.required_classes = required; self.time_cap = time_cap
        self.designs = []
        self.bounds = dict(statements=[s[0].strip().split('\n')[0] for s in STMTS], second_statement=['none', 'y2 <= b', 'y2 <= fn(a)'],
                           sensitivity_list=f'{"every" if lists == 32 else str(lists) + " (rotating)"} non-empty subset(s) of {SIGS} in that order; plus the exempt forms: all / no list with a wait / clock edge',
                           reads='simple, indexed and sliced names, index expressions, call arguments, if/case/loop, aggregate')

    def bases(self, chk): return None

    def pick(self, ctx, inp, seed=0):
        s1 = choose(ctx, inp, 'stmt', len(STMTS)); s2 = choose(ctx, inp, 'second', len(SECOND))
        mode = choose(ctx, inp, 'form', 4)
        if mode == 0:
            if self.lists == 32: m = choose(ctx, inp, 'list', 31) + 1
            else: m = [(7 * (k + seed) + 3) % 31 + 1 for k in range(self.lists)][choose(ctx, inp, 'list', self.lists)]
        else: m = 0
        return s1, s2, [bool(m >> k & 1) for k in range(5)], mode

    def check_diags(self, dobs, built, mode):
        text, pos_proc, entries, reads = built
        miss = [d for d in dobs if d[1] == 'MissingInSensitivityList']; sup = [d for d in dobs if d[1] == 'SuperfluousInSensitivityList']
        if mode != 0:
            return None if not miss and not sup else f'a process that is exempt gets {[d[:3] for d in miss + sup]}'
        want_missing = [r for r in reads if r not in entries]
        if bool(miss) != bool(want_missing) or len(miss) > 1: return f'missing: expected {want_missing}, got {[d[2] for d in miss]}'
        if miss:
            d = miss[0]
            if tuple(d[0][1:3]) != pos_proc: return f'the missing-signals diagnostic is at {d[0][1:]} instead of the process keyword {pos_proc}'
            named = re.findall(r"'(\w+)'", d[2])
            if [n.lower() for n in named] != want_missing: return f'missing signals named {named}, expected in first-read order {want_missing}'
        want_sup = sorted(entries[n] for n in entries if n not in reads)
        got_sup = sorted((d[0][1], d[0][2], d[0][4]) for d in sup)
        if got_sup != want_sup: return f'superfluous entries at {got_sup}, expected {want_sup}'
        return None

    def run(self, chk, ctx, inp, verify=True):
        kit = chk.pkit
        s1, s2, listed, mode = self.pick(ctx, inp, getattr(chk, 'seed', 0))
        built = build(s1, s2, listed, mode)
        text = built[0]
        pr = kit.new_project(ctx, copy=not inp.symbolic)
        fname = '/p/gen20.vhd'
        try:
            pr.set_text(ctx, fname, [BV(ord(c), 32) for c in text]); pr.map_file(ctx, fname, 'lib0'); pr.update(ctx, fname)
            dobs = [obs_show(kit.diag_obs(d)) for d in pr.analyse(ctx)]
        except Panic as p:
            raise Violation('analysis or the lint panics: ' + str(p), 'panic')
        if not verify: return dobs
        other = [d for d in dobs if 'Sensitivity' not in d[1] and d[1] != 'Unused']
        if other: raise Unsupported(f'the generated unit is not diagnostic-free (generator defect): {other[:3]}')
        ctx.obligations += 1
        r = self.check_diags(dobs, built, mode)
        if r: raise Violation(f'sensitivity-list lint: {r}; process: {text[text.index("  p : process"):][:300]!r}', 'lint')
        ctx.cover('compared')
        if mode == 0 and any(x not in built[2] for x in built[3]): ctx.cover('missing expected')
        if mode == 0 and any(n not in built[3] for n in built[2]): ctx.cover('superfluous expected')
        if mode != 0: ctx.cover('exempt form')
        return None

    def harness(self, chk):
        def h(ctx):
            ctx.step_limit = max(ctx.step_limit, 60_000_000)
            self.run(chk, ctx, SymInputs(ctx))
        return h

    def built_of(self, chk, w):
        ctx = Ctx()
        s1, s2, listed, mode = self.pick(ctx, ConcInputs(ctx, w), getattr(chk, 'seed', 0))
        return build(s1, s2, listed, mode), mode

    def case_of_chk(self, chk, w):
        built, mode = self.built_of(chk, w)
        return self.native_case(dict(name='generated', files=[('lib0', 'gen20.vhd', built[0])]), {}), built, mode

    def replay_case(self, chk, w, v):
        case, built, mode = self.case_of_chk(chk, w)
        for rel in (False, True):
            out = chk.native.run('analyse', [case], release=rel)[0]
            if 'panic' in out: return True
            if 'diagnostics' not in out: return f'native replay failed: {out}'
            dobs = [(tuple(['/p/gen20.vhd'] + d[0][1:]), d[1], d[2]) for d in out['diagnostics']]
            if self.check_diags(dobs, built, mode): return True
        return False

    def translator_validation(self, chk):
        rng = chk.rng; cases = [{'stmt': rng.randrange(20), 'second': rng.randrange(3), 'form': rng.choice([0, 0, 0, 1, 2, 3]), 'list': rng.randrange(31)} for _ in range(8)]
        outs = chk.native.run('analyse', [self.case_of_chk(chk, w)[0] for w in cases])
        bad = []
        for w, out in zip(cases, outs):
            ctx = Ctx(); ctx.step_limit = 10 ** 9
            mine = sorted([list(d[0]), d[1], d[2]] for d in self.run(chk, ctx, ConcInputs(ctx, w), verify=False))
            theirs = sorted([['/p/' + d[0][0].rsplit('/', 1)[-1]] + d[0][1:], d[1], d[2]] for d in out['diagnostics']) if 'diagnostics' in out else out
            if json.loads(json.dumps(mine)) != json.loads(json.dumps(theirs)): bad.append({'case': w, 'interpreter': mine, 'native': theirs})
        return len(cases), bad


class C20(Check):
    prop = 'C20'
    crates = (L,)

    def parts(self):
        if hasattr(self, '_parts'): return self._parts
        if not hasattr(self, 'll'): self.ll = LangLex(self)
        if not hasattr(self, 'pkit'): self.pkit = ProjectKit(self, log=self.log)
        req = ('compared', 'missing expected', 'superfluous expected', 'exempt form')
        ps = [Generated20('generated processes', 4 if self.tier == 'quick' else 32, required=req)]
        self._parts = ps
        return ps

    def assumptions(self):
        return ['the generated family: one process with one or two of the listed statements over five signals; reads of record elements, waveforms with after, and nested subprogram bodies are outside',
                'the expected first-read order is the textual order of the reads in the statement(s)',
                'bundled std library; FnvHashMap modelled insertion ordered; rayon sequential']


if __name__ == '__main__':
    run_check(C20)
