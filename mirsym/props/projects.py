"""Small multi-file, multi-library projects for the checks that need the analyser.

Every file has a list of contents ("variants"); variant 0 is what the project is loaded with.  The character `§` in a text marks a
position that is filled with a symbolic character (a letter or digit); the solver decides which existing name it completes, if any.
`units` lists, per variant, the (library-level) design unit keys the text defines: the independent oracle for the exemption of C01
("no design-unit name defined in two files of one library").
"""

PKG = """package pkg is
  constant c : natural := 1;
  function f(x : natural) return natural;
end package;
"""
PKG_NO_C = """package pkg is
  constant d : natural := 1;
  function f(x : natural) return natural;
end package;
"""
PKG_BODY = """package body pkg is
  function f(x : natural) return natural is
  begin
    return x + 1;
  end function;
end package body;
"""
ENT_USES_PKG = """library lib1;
use lib1.pkg.all;

entity ent is
  port (p : in natural := c);
end entity;

architecture a of ent is
  signal s : natural := f(1);
begin
end architecture;
"""
ENT_USES_SYM = ENT_USES_PKG.replace('lib1.pkg.all', 'lib1.pk§.all')

P_USE_ALL = dict(
    name='use p.all over two libraries, package body in its own file',
    files=[('lib1', 'pkg.vhd', [PKG, PKG_NO_C, '']), ('lib1', 'pkg_body.vhd', [PKG_BODY, '']), ('lib2', 'ent.vhd', [ENT_USES_PKG, ENT_USES_SYM, ''])],
    units={'pkg.vhd': [['pkg'], ['pkg'], []], 'pkg_body.vhd': [['pkg/body'], []], 'ent.vhd': [['ent', 'ent/a'], ['ent', 'ent/a'], []]})

E = "entity e is\n  port (i : in bit := '0');\nend entity;\n"
E_NO_PORT = "entity e is\nend entity;\n"
A_RTL = "architecture rtl of e is\n  signal s : bit;\nbegin\n  s <= i;\nend architecture;\n"
A_RTL2 = A_RTL.replace('rtl', 'rtl2')
CFG = "configuration cfg of e is\n  for rtl\n  end for;\nend configuration;\n"
TOP = """entity top is
end entity;

architecture a of top is
begin
  i0 : entity work.e(rtl);
  i1 : configuration work.cfg;
  i2 : entity work.e(rt§);
end architecture;
"""
P_CONFIG = dict(
    name='entity / architecture / configuration / instantiating top in four files',
    files=[('lib0', 'e.vhd', [E, E_NO_PORT, '']), ('lib0', 'a.vhd', [A_RTL, A_RTL2, '']), ('lib0', 'cfg.vhd', [CFG, '']), ('lib0', 'top.vhd', [TOP.replace('rt§', 'rtl'), TOP])],
    units={'e.vhd': [['e'], ['e'], []], 'a.vhd': [['e/rtl'], ['e/rtl2'], []], 'cfg.vhd': [['cfg'], []], 'top.vhd': [['top', 'top/a'], ['top', 'top/a']]})

GP = "package gp is\n  generic (type t; c : natural);\n  constant k : natural := c;\nend package;\n"
GP_NO_C = "package gp is\n  generic (type t);\n  constant k : natural := 0;\nend package;\n"
INST = "package inst is new work.gp generic map (t => bit, c => 3);\n"
CTX = "context ctx is\n  library lib1;\n  use lib1.inst.all;\nend context;\n"
USER = "library lib1;\ncontext lib1.ctx;\n\nentity user is\n  port (p : natural := k);\nend entity;\n"
USER_SYM = USER.replace('lib1.ctx', 'lib1.ct§')
P_CONTEXT = dict(
    name='generic package, its instance, a context clause and a user in another library',
    files=[('lib1', 'gp.vhd', [GP, GP_NO_C, '']), ('lib1', 'inst.vhd', [INST, '']), ('lib1', 'ctx.vhd', [CTX, '']), ('lib2', 'user.vhd', [USER, USER_SYM])],
    units={'gp.vhd': [['gp'], ['gp'], []], 'inst.vhd': [['inst'], []], 'ctx.vhd': [['ctx'], []], 'user.vhd': [['user'], ['user']]})

PX = "package p is\n  constant x : bit := '0';\nend package;\n"
PY = "package p is\n  constant y : bit := '1';\nend package;\n"
QX = "use work.p.all;\n\npackage q is\n  constant z : bit := x;\nend package;\n"
QSYM = "use work.§.all;\n\npackage q is\n  constant z : bit := x;\nend package;\n"
P_DUP = dict(
    name='a package name that a second file may also define (duplicate re-admitted) and a user',
    files=[('lib0', 'a1.vhd', [PX, '']), ('lib0', 'a2.vhd', ['', PY, PX]), ('lib0', 'u.vhd', [QX, QSYM])],
    units={'a1.vhd': [['p'], []], 'a2.vhd': [[], ['p'], ['p']], 'u.vhd': [['q'], ['q']]})

P1 = "package p1 is\n  constant c1 : natural := 1;\nend package;\n"
P2 = "package p2 is\n  constant c2 : natural := 2;\n  subtype t2 is natural range 0 to 3;\nend package;\n"
UALL = "library lib1;\nuse lib1.all;\n\npackage u is\n  constant k : natural := p2.c2 + p1.c1;\n  subtype word is p2.t2;\nend package;\n"
WUSER = "use work.u.all;\n\npackage w is\n  constant kw : word := 1;\nend package;\n"
UALL_SYM = UALL.replace('p2.c2', 'p§.c2')
P_LIB_ALL = dict(
    name='use lib.all with a package that comes and goes',
    files=[('lib1', 'p1.vhd', [P1, '']), ('lib1', 'p2.vhd', ['', P2]), ('lib2', 'u.vhd', [UALL, UALL_SYM]), ('lib2', 'w.vhd', [WUSER])],
    units={'p1.vhd': [['p1'], []], 'p2.vhd': [[], ['p2']], 'u.vhd': [['u'], ['u']], 'w.vhd': [['w']]})

N = "entity n is\nend entity;\n\narchitecture a of n is\n  signal s, t : bit;\nbegin\n  p0 : process (s)\n  begin\n    t <= s;\n  end process;\nend architecture;\n"
N2 = N.replace('t <= s;', 't <= t;')
M = "entity m is\nend entity;\n\narchitecture a of m is\nbegin\n  i0 : entity work.n;\nend architecture;\n"
P_UNMAPPED = dict(
    name='a mapped file and a file outside the configuration (anonymous library work), lints on',
    files=[('lib0', 'm.vhd', [M, '']), (None, 'n.vhd', ['', N, N2])],
    units={'m.vhd': [['m', 'm/a'], []], 'n.vhd': [[], ['n', 'n/a'], ['n', 'n/a']]})

PA_USES_B = "use work.pkg_b.all;\n\npackage pkg_a is\n  constant ca : natural := 0;\nend package;\n"
PA_PLAIN = "package pkg_a is\n  constant ca : natural := 0;\nend package;\n"
PB_PLAIN = "package pkg_b is\n  constant cb : natural := 1;\nend package;\n"
PB_USES_A = "use work.pkg_a.all;\n\npackage pkg_b is\n  constant cb : natural := ca;\nend package;\n"
P_REVERSAL = dict(
    name='two packages whose dependency can be dropped, reversed or made circular',
    files=[('lib0', 'a.vhd', [PA_USES_B, PA_PLAIN]), ('lib0', 'b.vhd', [PB_PLAIN, PB_USES_A])],
    units={'a.vhd': [['pkg_a'], ['pkg_a']], 'b.vhd': [['pkg_b'], ['pkg_b']]})

LONE = "entity lone is\nend entity;\n\narchitecture a of lone is\n  signal s, t : bit;\nbegin\n  p0 : process (s)\n  begin\n    t <= t;\n  end process;\nend architecture;\n"
OTHER = "package other is\n  constant o : bit := '0';\nend package;\n"
P_LINT = dict(
    name='a unit with lint warnings that nothing depends on, next to an independent package',
    files=[('lib0', 'lone.vhd', [LONE, '', LONE.replace('t <= t', 't <= s')]), ('lib0', 'other.vhd', [OTHER, ''])],
    units={'lone.vhd': [['lone', 'lone/a'], [], ['lone', 'lone/a']], 'other.vhd': [['other'], []]})

C01_PROJECTS = [P_USE_ALL, P_CONFIG, P_CONTEXT, P_DUP, P_LIB_ALL, P_UNMAPPED, P_REVERSAL, P_LINT]
SYM_ALPHABET = 'abcdefghijklmnopqrstuvwxyzABCDEFGHIJKLMNOPQRSTUVWXYZ0123456789'
