"""C06  Seeded semantic faults are reported at the fault site.

Real code (MIR): parser + analyser (Project::analyse) on a valid three-library project into which exactly one fault of a catalogue is
planted.  Names that must not exist carry one symbolic letter/digit: the solver decides, through the real tokenizer and symbol table,
for which values the planted name coincides with no identifier of the project or of std (those are the members of the family).
Oracle: at least one error-severity diagnostic whose range covers the planted token; the units of the two libraries that do not
depend on the faulty unit get no error-severity diagnostic.
"""
from .queries import *

WARNING_CODES = {'Unused', 'UnnecessaryWorkLibrary', 'UnassociatedContext', 'MissingInSensitivityList', 'SuperfluousInSensitivityList', 'Related'}
BASE = [('lib1', 'types_pkg.vhd', DS.TYPES_PKG), ('lib2', 'shape.vhd', DS.SHAPE), ('lib0', 'tree.vhd', DS.TREE)]

# (fault class, file, text to find (must be unique), replacement, planted token inside the replacement); `§` = symbolic letter or digit
PLANTS = [
    ('undeclared name (object)', 'shape.vhd', 'v := p + q;', 'v := p + q§;', 'q§'),
    ('undeclared name (type mark)', 'shape.vhd', 'signal acc : vec_t(0 to n - 1);', 'signal acc : vec_§(0 to n - 1);', 'vec_§'),
    ('undeclared name (function)', 'shape.vhd', 'constant k : integer := add(1, 2);', 'constant k : integer := ad§(1, 2);', 'ad§'),
    ('undeclared name (in a package body)', 'types_pkg.vhd', '    return a + b;', '    return a + b§;', 'b§'),
    ('duplicate declaration in one region', 'shape.vhd', '  signal acc : vec_t(0 to n - 1);\n', '  signal acc : vec_t(0 to n - 1);\n  signal p : bit;\n', 'p'),
    ('duplicate declaration in one region (port)', 'shape.vhd', '    o : out integer);', '    clk : out integer);', 'clk'),
    ('literal of the wrong type', 'shape.vhd', 'generic (n : natural := 4);', "generic (n : natural := '4');", "'4'"),
    ('object of the wrong type', 'shape.vhd', 'when red => o <= v.x;', 'when red => o <= sel;', 'sel'),
    ('call matching no overload', 'shape.vhd', 'o <= add(v.x, k);', 'o <= add(v.x, sel);', 'add'),
    ('unknown record field', 'shape.vhd', 'when red => o <= v.x;', 'when red => o <= v.x§;', 'x§'),
    ('unknown package item', 'shape.vhd', 'use lib1.types_pkg.all;', 'use lib1.types_pkg.al§;', 'al§'),
    ('unknown library', 'shape.vhd', 'library lib1;\nuse lib1.types_pkg.all;', 'library lib1;\nuse lib§.types_pkg.all;', 'lib§'),
    ('unknown primary unit', 'shape.vhd', 'use lib1.types_pkg.all;', 'use lib1.types_pk§.all;', 'types_pk§'),
    ('unknown architecture', 'tree.vhd', 'direct : entity work.leaf(rtl)', 'direct : entity work.leaf(rt§)', 'rt§'),
    ('unknown primary unit (instantiation)', 'tree.vhd', 'direct : entity work.leaf(rtl)', 'direct : entity work.lea§(rtl)', 'lea§'),
    ('unknown port association', 'tree.vhd', 'port map (a => x, y => t);', 'port map (a => x, y§ => t);', 'y§'),
    ('unknown generic association', 'tree.vhd', 'generic map (w => 4) port map (a => x, y => t);', 'generic map (w§ => 4) port map (a => x, y => t);', 'w§'),
    ('undeclared name (actual of an overloaded call)', 'shape.vhd', 'o <= add(v.x, k);', 'o <= add(v.x, k§);', 'k§'),
    ('undeclared name (inside a generate statement)', 'tree.vhd', 'port map (a => x(2 * i + 1 downto 2 * i), y => z(i));', 'port map (a => x(2 * i + 1 downto 2 * i), y => z§(i));', 'z§'),
    ('missing port association (no port map at all)', 'tree.vhd', 'direct : entity work.leaf(rtl) generic map (w => 4) port map (a => x, y => t);', 'direct : entity work.leaf(rtl) generic map (w => 4);', 'work.leaf'),
    ('missing port association', 'tree.vhd', 'direct : entity work.leaf(rtl) generic map (w => 4) port map (a => x, y => t);', 'direct : entity work.leaf(rtl) generic map (w => 4) port map (y => t);', 'work.leaf'),
    ('signal assignment to a variable', 'shape.vhd', 'v := p + q;', 'v <= p + q;', 'v'),
    ('variable assignment to a signal', 'shape.vhd', 'acc(i) <= i;', 'acc(i) := i;', 'acc'),
]
DEPENDS = {'shape.vhd': {'shape.vhd'}, 'types_pkg.vhd': {'types_pkg.vhd', 'shape.vhd'}, 'tree.vhd': {'tree.vhd'}}     # file -> files whose units depend on it


def known_identifiers():
    words = set()
    for _, _, t in BASE: words |= {w.lower() for w in re.findall(r'[A-Za-z][A-Za-z0-9_]*', t)}
    for fn in ProjectKit.STD:
        words |= {w.lower() for w in re.findall(r'[A-Za-z][A-Za-z0-9_]*', open(os.path.join(build.REPO, 'vhdl_libraries', 'std', fn), encoding='latin-1').read())}
    return words | {'work', 'std', 'lib0', 'lib1', 'lib2'}


class Planted(DesignPart):
    def __init__(self, name, required=(), time_cap=None):
        self.name = name; self.designs = []
        self.required_classes = required; self.time_cap = time_cap
        self.words = known_identifiers()
        self.bounds = dict(project='lib1: types_pkg (records, enumerations, overloads, operator) / lib2: shape (entity + architecture using it) / lib0: tree (components, instantiations, generate, configuration)',
                           faults=[p[0] + ': ' + p[3].strip()[:40] for p in PLANTS],
                           symbolic='the character written § is any letter or digit for which the planted name equals no identifier of the project or of the std sources')

    def bases(self, chk): return None

    def plant(self, ctx, inp):
        k = choose(ctx, inp, 'plant', len(PLANTS))
        cls, fn, find, repl, tok = PLANTS[k]
        text = dict((f, t) for _, f, t in BASE)[fn]
        assert text.count(find) == 1, find
        at = text.index(find)
        new = text[:at] + repl + text[at + len(find):]
        toff = at + repl.index(tok)
        chars = []
        c = None
        for ch in new:
            if ch == '§':
                c = inp.bv('char', 32)
                if inp.symbolic:
                    ctx.assume(z3.Or(z3.And(z3.UGE(c.e, 97), z3.ULE(c.e, 122)), z3.And(z3.UGE(c.e, 65), z3.ULE(c.e, 90)), z3.And(z3.UGE(c.e, 48), z3.ULE(c.e, 57))))
                    stem = tok.replace('§', '')
                    for w in self.words:           # members of the family: the planted name is nobody's name
                        if len(w) == len(tok) and w[:len(stem)] == stem.lower():
                            for v in {ord(w[-1]), ord(w[-1].upper())}: ctx.assume(c.e != v)
                chars.append(c)
            else: chars.append(BV(ord(ch), 32))
        line = new.count('\n', 0, toff); col = toff - (new.rfind('\n', 0, toff) + 1)
        return k, fn, chars, (line, col, col + len(tok)), new

    def run(self, chk, ctx, inp, verify=True):
        kit = chk.pkit
        k, fn, chars, tokpos, new = self.plant(ctx, inp)
        pr = kit.new_project(ctx, copy=not inp.symbolic)
        try:
            for lib, f, t in BASE:
                pr.set_text(ctx, '/p/' + f, chars if f == fn else [BV(ord(c), 32) for c in t]); pr.map_file(ctx, '/p/' + f, lib); pr.update(ctx, '/p/' + f)
            dobs = [kit.diag_obs(d) for d in pr.analyse(ctx)]
        except Panic as p:
            ctx.model(); raise Violation('analysis panics on the planted fault: ' + str(p), 'panic')
        dl = [(obs_show(d[0]), d[1]) for d in dobs]
        if not verify: return [obs_show(d)[:3] for d in dobs]
        errors = [(p, code) for p, code in dl if code not in WARNING_CODES]
        ctx.obligations += 1
        covering = [e for e in errors if e[0][0] == '/p/' + fn and (e[0][1], e[0][2]) <= (tokpos[0], tokpos[1]) and (tokpos[0], tokpos[2]) <= (e[0][3], e[0][4])]
        if not covering:
            ctx.model(); raise Violation(f'fault "{PLANTS[k][0]}" planted at {fn} line {tokpos[0]} columns {tokpos[1]}..{tokpos[2]} ({PLANTS[k][3].strip()!r}): no error diagnostic covers it; diagnostics: {[obs_show(d)[:3] for d in dobs][:6]}', 'not-reported')
        stray = [e for e in errors if e[0][0][3:] not in DEPENDS[fn]]
        if stray:
            ctx.model(); raise Violation(f'fault in {fn}: a unit that does not depend on it gets an error: {stray[:3]}', 'stray')
        ctx.cover('compared')
        if '§' in PLANTS[k][3]: ctx.cover('symbolic name')
        return None

    def harness(self, chk):
        def h(ctx):
            ctx.step_limit = max(ctx.step_limit, 60_000_000)
            self.run(chk, ctx, SymInputs(ctx))
        return h

    def texts_of(self, w):
        k = w.get('plant', 0) % len(PLANTS); cls, fn, find, repl, tok = PLANTS[k]
        texts = {f: t for _, f, t in BASE}
        at = texts[fn].index(find)
        texts[fn] = texts[fn][:at] + repl.replace('§', chr(w.get('char', 122))) + texts[fn][at + len(find):]
        toff = at + repl.index(tok)
        new = texts[fn]
        return k, fn, texts, (new.count('\n', 0, toff), toff - (new.rfind('\n', 0, toff) + 1), toff - (new.rfind('\n', 0, toff) + 1) + len(tok))

    def case_of(self, w):
        k, fn, texts, tokpos = self.texts_of(w)
        D = dict(name='planted', files=[(lib, f, texts[f]) for lib, f, _ in BASE])
        return self.native_case(D, {})

    def oracle_native(self, w, out):
        k, fn, texts, tokpos = self.texts_of(w)
        errors = [d for d in out['diagnostics'] if d[1] not in WARNING_CODES]
        cov = [d for d in errors if d[0][0].endswith('/' + fn) and (d[0][1], d[0][2]) <= (tokpos[0], tokpos[1]) and (tokpos[0], tokpos[2]) <= (d[0][3], d[0][4])]
        stray = [d for d in errors if d[0][0].rsplit('/', 1)[-1] not in DEPENDS[fn]]
        return (not cov) or bool(stray)

    def replay_case(self, chk, w, v):
        for rel in (False, True):
            out = chk.native.run('analyse', [self.case_of(w)], release=rel)[0]
            if 'panic' in out: return True
            if 'diagnostics' not in out: return f'native replay failed: {out}'
            if self.oracle_native(w, out): return True
        return False

    def translator_validation(self, chk):
        rng = chk.rng; cases = [{'plant': rng.randrange(len(PLANTS)), 'char': ord(rng.choice('zq7Z'))} for _ in range(6)]
        outs = chk.native.run('analyse', [self.case_of(w) for w in cases])
        bad = []
        for w, out in zip(cases, outs):
            ctx = Ctx(); ctx.step_limit = 10 ** 9
            mine = sorted([list(d[0]), d[1], d[2]] for d in self.run(chk, ctx, ConcInputs(ctx, w), verify=False))
            theirs = sorted([['/p/' + d[0][0].rsplit('/', 1)[-1]] + d[0][1:], d[1], d[2]] for d in out['diagnostics']) if 'diagnostics' in out else out
            if json.loads(json.dumps(mine)) != json.loads(json.dumps(theirs)): bad.append({'case': w, 'interpreter': mine, 'native': theirs})
        return len(cases), bad


class C06(Check):
    prop = 'C06'
    crates = (L,)

    def parts(self):
        if hasattr(self, '_parts'): return self._parts
        if not hasattr(self, 'll'): self.ll = LangLex(self)
        if not hasattr(self, 'pkit'): self.pkit = ProjectKit(self, log=self.log)
        ps = [Planted('one planted fault in a valid three-library project', required=('compared', 'symbolic name'))]
        self._parts = ps
        return ps

    def assumptions(self):
        return ['the family: one fixed valid project, the listed 23 plant sites (at least one per fault class of the catalogue; for a missing association the planted token is the instantiated unit name, where the diagnostic is expected); other programs, other sites and several faults at once are outside',
                'error severity = every error code except the five the default severity map makes warnings and the `Related` hint',
                'bundled std library; FnvHashMap modelled insertion ordered; rayon sequential']


if __name__ == '__main__':
    run_check(C06)
