"""Shared scaffolding of the property checks: inputs (symbolic or concrete), native replay, known findings,
evidence files, exit codes."""
import os, sys, json, time, subprocess, hashlib, random
import z3
from ..util import Unsupported, Panic, Infeasible
from ..values import BV
from ..interp import Ctx, Violation
from .. import build
from ..explore import explore, Result

VERIF = build.VERIF
EVID = os.path.join(VERIF, 'evidence')
KNOWN = os.path.join(VERIF, 'known_findings.json')


class SymInputs:
    """inputs are fresh solver variables; every value the property quantifies over goes through here"""
    symbolic = True

    def __init__(self, ctx): self.ctx = ctx

    def bv(self, name, bits, signed=False): return self.ctx.fresh(name, bits, signed)

    def char(self, name):
        c = self.ctx.fresh(name, 32)
        self.ctx.assume(z3.And(z3.ULE(c.e, 0x10FFFF), z3.Or(z3.ULT(c.e, 0xD800), z3.UGT(c.e, 0xDFFF))))
        return c

    def byte(self, name): return self.ctx.fresh(name, 8)

    def bool(self, name): return self.ctx.fresh_bool(name)

    def below(self, name, n, bits=8):
        v = self.ctx.fresh(name, bits)
        self.ctx.assume(z3.ULT(v.e, n))
        return v


class ConcInputs:
    """inputs come from a concrete case (a witness of a counterexample, or a translator-validation case)"""
    symbolic = False

    def __init__(self, ctx, case):
        self.ctx, self.case = ctx, case

    def bv(self, name, bits, signed=False): return BV(int(self.case.get(name, 0)), bits, signed)
    def char(self, name): return BV(int(self.case.get(name, 0)), 32)
    def byte(self, name): return BV(int(self.case.get(name, 0)), 8)
    def bool(self, name): return bool(self.case.get(name, False))
    def below(self, name, n, bits=8): return BV(int(self.case.get(name, 0)) % n, bits)


class Native:
    """line-oriented JSON protocol with the replay binary built from /repo (hooks on)"""

    def __init__(self, log=print):
        self.dev, self.rel = build.native_build(log)

    def run(self, prop, cases, release=False, timeout=600):
        """one result per case; a case that kills the process (abort, watchdog exit) gets {'crash': ..} / its own line and the
        remaining cases are run in a fresh process"""
        out = []
        binp = self.rel if release else self.dev
        todo = list(cases)
        while todo:
            inp = '\n'.join(json.dumps(c) for c in todo) + '\n'
            try:
                p = subprocess.run([binp, prop], input=inp.encode(), stdout=subprocess.PIPE, stderr=subprocess.PIPE, timeout=timeout)
                stdout, stderr, rc = p.stdout, p.stderr, p.returncode
            except subprocess.TimeoutExpired as e:
                stdout, stderr, rc = e.stdout or b'', b'timeout of the replay process', -9
            got = []
            for l in stdout.decode('utf-8', 'replace').split('\n'):
                if not l.strip(): continue
                try: got.append(json.loads(l))
                except json.JSONDecodeError: got.append({'garbled': l})
            got = got[:len(todo)]
            out.extend(got)
            if len(got) < len(todo):
                if not (got and got[-1].get('timeout')):
                    out.append({'crash': stderr.decode('utf-8', 'replace')[-400:], 'exit': rc}); todo = todo[len(got) + 1:]
                else:
                    todo = todo[len(got):]
            else:
                todo = []
        return out[:len(cases)] + [{'crash': 'no output'}] * max(0, len(cases) - len(out))


def load_known(prop):
    if not os.path.exists(KNOWN): return []
    data = json.load(open(KNOWN))
    return [f for f in data.get('findings', []) if f.get('property') == prop]


class Check:
    """One property check.  Subclasses define: prop, crates, parts(tier) -> list of Part."""
    prop = None
    crates = ()
    level = 'model_checking'

    def __init__(self, tier, seed):
        self.tier, self.seed = tier, seed
        self.t0 = time.time()
        self.logs = []
        self.rng = random.Random(seed)

    def log(self, *a):
        s = ' '.join(str(x) for x in a)
        print(s, flush=True)

    # ---- to be provided
    def parts(self): raise NotImplementedError

    # ---- flow
    def main(self):
        try:
            code = self._main()
        except Unsupported as u:
            self.log(f'INCONCLUSIVE property={self.prop}: {u}')
            code = 2
        sys.exit(code)

    def _main(self):
        self.I, self.meta = build.load_interp(self.crates, self.log)
        self.native = Native(self.log)
        known = load_known(self.prop)
        self.known_open = [k for k in known if k.get('status') == 'open']
        parts = self.parts()
        if os.environ.get('VERIF_DEV_PARTS'):     # development only: never set by a registered command; evidence is not written
            parts = [p for p in parts if os.environ['VERIF_DEV_PARTS'] in p.name]
        evidence_parts = []
        violations = []; inconclusive = []; known_hits = {}
        total_paths = 0; total_queries = 0; total_solver_time = 0.0; total_oblig = 0
        fn_hits = {}; model_hits = {}
        samples = []
        all_exhaustive = True
        # 1. translator validation
        tv_total = 0
        for part in parts:
            n, bad = part.translator_validation(self)
            tv_total += n
            if bad:
                self.log(f'INCONCLUSIVE property={self.prop}: translator validation mismatch in {part.name}: {json.dumps(bad[0])[:600]}')
                inconclusive.append(f'translator validation mismatch in {part.name}')
        if inconclusive:
            self.write_evidence(dict(parts=[], note='encoding invalid: ' + '; '.join(inconclusive)), 0, 0, [], False, 0, {}, {}, tv_total, [], {})
            return 2
        # 2. known findings still reproduce?
        for k in self.known_open:
            r = self.replay_known(k)
            if r:
                self.log(f'KNOWN-FINDING: property={self.prop} {k["id"]}: {k["what"]}')
                known_hits[k['id']] = 0
            else:
                self.log(f'note: known finding {k["id"]} no longer reproduces natively (not suppressing anything for it)')
        active_known = [k for k in self.known_open if k['id'] in known_hits]
        # 3. exploration
        for part in parts:
            t = time.time()
            cap = part.time_cap or (900 if self.tier == 'quick' else getattr(part, 'thorough_cap', 5400))
            if os.environ.get('VERIF_DEV_CAP'): cap = int(os.environ['VERIF_DEV_CAP'])       # development smoke runs only; never set by a registered command
            res = explore(part.harness(self), interp=self.I, time_cap=cap, vcap=part.vcap, verbose=bool(os.environ.get('VERIF_VERBOSE')), isolate=getattr(part, 'isolate', False),
                          classify=(lambda v, part=part: part.attribute(self, v, active_known)))
            for k, n in res.known.items(): known_hits[k] = known_hits.get(k, 0) + n
            total_paths += res.paths; total_queries += res.solver_calls; total_solver_time += res.solver_time
            total_oblig += res.obligations
            for k, v in res.fn_hits.items(): fn_hits[k] = fn_hits.get(k, 0) + v
            for k, v in res.model_hits.items(): model_hits[k] = model_hits.get(k, 0) + v
            samples.extend({'part': part.name, **s} for s in res.samples[:3])
            vac = [c for c in part.required_classes if res.classes.get(c, 0) == 0] if (res.exhaustive or self.tier == 'quick') else []     # a capped thorough part has not seen everything
            ep = dict(name=part.name, bounds=part.bounds, paths=res.paths, infeasible_prefixes=res.infeasible, solver_queries=res.solver_calls,
                      solver_time_s=round(res.solver_time, 2), obligations=res.obligations, exhaustive=res.exhaustive, paths_left=res.left,
                      wall_s=round(time.time() - t, 1), coverage_classes=res.classes, max_decisions=res.max_decisions,
                      counterexamples=len(res.violations), attributed_to_known_findings=dict(res.known), unsupported=res.unsupported[:3])
            evidence_parts.append(ep)
            self.log(f'[{self.prop}] {part.name}: paths={res.paths} queries={res.solver_calls} oblig={res.obligations} exhaustive={res.exhaustive} '
                     f'cex={len(res.violations)} t={time.time() - t:.1f}s')
            if res.unsupported:
                inconclusive.append(f'{part.name}: {res.unsupported[0]}')
                all_exhaustive = False
                continue
            if not res.exhaustive:
                all_exhaustive = False
                if not res.violations and part.must_exhaust and self.tier == 'quick':
                    inconclusive.append(f'{part.name}: time cap hit with {res.left} prefixes left')
                elif not res.violations:
                    self.log(f'note: {part.name}: time cap hit with {res.left} prefixes left; reported as exhaustive=false (bug hunting only for the unexplored part)')
            if vac and res.exhaustive and not res.violations:
                inconclusive.append(f'{part.name}: vacuous, no path reached coverage classes {vac}')
            # 4. classify + replay counterexamples
            for v in res.violations:
                rep = part.replay(self, v)
                if rep is True:
                    violations.append((part, v))
                elif rep is False:
                    inconclusive.append(f'{part.name}: counterexample does not reproduce natively: {v["msg"]} {json.dumps(v["witness"])[:300]}')
                else:
                    inconclusive.append(f'{part.name}: replay impossible: {rep}')
        ep_extra = self.extra_evidence()
        wall = time.time() - self.t0
        nviol = len(violations)
        cov_samples = samples[:6] or [{'note': 'no path sample recorded'}]
        self.write_evidence(dict(parts=evidence_parts, **ep_extra), total_paths, total_queries, cov_samples, all_exhaustive and not inconclusive, nviol,
                            fn_hits, model_hits, tv_total, inconclusive, known_hits, total_solver_time, total_oblig)
        if violations:
            os.makedirs(os.path.join(VERIF, 'build', 'replay'), exist_ok=True)
            seen = set()
            for part, v in violations:
                key = v['msg']
                if key in seen: continue
                seen.add(key)
                path = os.path.join(VERIF, 'build', 'replay', f'{self.prop}-{hashlib.sha256(json.dumps(v["witness"], sort_keys=True).encode()).hexdigest()[:10]}.json')
                json.dump(dict(property=self.prop, part=part.name, msg=v['msg'], witness=v['witness'], case=part.case_of(v['witness'])), open(path, 'w'), indent=1)
                print(f'VIOLATION property={self.prop} replay={path}')
                self.log(f'  {part.name}: {v["msg"]} case={json.dumps(part.case_of(v["witness"]), ensure_ascii=True)[:400]}')
            return 1
        if inconclusive:
            for m in inconclusive: self.log(f'INCONCLUSIVE property={self.prop}: {m}')
            return 2
        self.log(f'OK property={self.prop} tier={self.tier} paths={total_paths} queries={total_queries} wall={wall:.1f}s')
        return 0

    def extra_evidence(self): return {}

    def replay_known(self, k):
        return False

    def parts_cache(self):
        if not hasattr(self, '_parts'): self._parts = self.parts()
        return self._parts

    def write_evidence(self, detail, paths, queries, samples, exhaustive, nviol, fn_hits, model_hits, tv, inconclusive, known_hits, solver_time=0.0, oblig=0):
        if os.environ.get('VERIF_DEV_PARTS') or os.environ.get('VERIF_DEV_CAP'): return
        os.makedirs(EVID, exist_ok=True)
        enc = sorted(fn_hits.items(), key=lambda kv: -kv[1])
        cov = {
            'states': max(paths, 0), 'transitions': max(queries, 0),
            'traces_validated_against_impl': tv,
            'samples': samples or [{'note': 'none'}],
            'exhaustive': bool(exhaustive),
            'evaluations': paths, 'distinct_nontrivial': paths,
            'rule': 'one evaluation = one feasible execution path of the real MIR under the harness (distinct decision sequence); every path ends in solver-decided obligations',
            'explanation': 'states = feasible symbolic paths explored; transitions = SMT queries discharged (branch feasibility + final obligations)',
            'solver': 'z3 ' + z3.get_version_string(), 'solver_queries': queries, 'solver_time_s': round(solver_time, 2), 'final_obligations': oblig,
            'functions_encoded': [{'fn': k, 'entered': v} for k, v in enc[:400]],
            'functions_encoded_count': len(enc),
            'mir': self.meta if hasattr(self, 'meta') else {},
            'stubs': [{'model': k, 'calls': v} for k, v in sorted(model_hits.items(), key=lambda kv: -kv[1])],
            'known_findings_attributed': known_hits,
            'inconclusive': inconclusive,
            **detail,
        }
        if cov['states'] < 1: cov['states'] = 1
        if cov['transitions'] < 1: cov['transitions'] = 1
        ev = {'property_id': self.prop, 'tier': self.tier, 'seed': self.seed, 'level': self.level, 'coverage': cov,
              'assumptions': self.assumptions(), 'wall_s': round(time.time() - self.t0, 1), 'violations': nviol}
        json.dump(ev, open(os.path.join(EVID, f'{self.prop}.json'), 'w'), indent=1, default=str)

    def assumptions(self): return []


class Part:
    """one harness of a check, with its bound"""
    name = 'part'
    bounds = {}
    time_cap = None
    vcap = 12
    must_exhaust = True
    required_classes = ()

    def harness(self, chk): raise NotImplementedError
    def translator_validation(self, chk): return 0, []
    def attribute(self, chk, v, known): return None
    def replay(self, chk, v):
        return self.replay_case(chk, v['witness'], v)
    def replay_case(self, chk, witness, v): return 'no native replay defined'
    def case_of(self, witness): return witness


def run_check(cls):
    tier = os.environ.get('VERIF_TIER', 'quick')
    args = sys.argv[1:]
    if '--tier' in args: tier = args[args.index('--tier') + 1]
    seed = int(os.environ.get('VERIF_SEED', '0') or 0)
    cls(tier, seed).main()
