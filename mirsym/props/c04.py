"""C04  Parallel analysis terminates and is schedule-independent  --  single-threaded kernel; schedules are outside.

CYCLE  real DesignRoot::make_use_of + get_all_affected from EVERY dependency graph over n units (cycles from earlier passes
       included: the edge is recorded even when an error is returned): it reports a circular dependency exactly when the used
       unit already (transitively) uses the user or is the user itself, and the edge is recorded in both outcomes.  A thread
       blocks on a unit's lock only after Ok, so the wait-for relation never closes a cycle.
LOCK   real AnalysisLock::{entry, finish, reset, get, is_analyzed, expect_analyzed}: over every sequence of k operations the
       lock is Vacant exactly when no result is stored, a finished result is returned until reset.
ORDER  real Library::sorted_unit_ids: every unit of every source exactly once, ordered by position within a source.
Interleavings (the double-checked entry(), insert_new's re-check, rayon) are NOT explored: neither engine models threads.
"""
import z3
from ..util import Panic, Unsupported
from ..values import *
from ..interp import Violation, Ctx
from ..models import HMap, HSet, py_str
from .common import Check, Part, SymInputs, ConcInputs, run_check
from .lang_lex import LangLex, L, clone_deep
from .c17 import choose
from .c01 import RootKit, ResetStep, sym_name


class Cycle(Part):
    vcap = 6

    def __init__(self, name, n, required=()):
        self.name, self.n = name, n
        self.required_classes = required
        self.bounds = dict(units=n, pre_state='every subset of the n*(n-1) ordered edges between distinct units plus optional self-uses recorded through make_use_of itself', call='every (user, unit) pair')

    def ids(self, chk, ctx):
        kit = chk.kit
        return [chk.I.call(ctx, L, 'UnitId::package', [ValRef(clone_deep(kit.libname)), ValRef(kit.intern(ctx, f'u{i}'))]) for i in range(self.n)]

    def run(self, chk, ctx, inp, verify=True):
        I = chk.I; ll = chk.ll
        root, _ = ResetStep('x', 0, False, False).new_root(chk, ctx)
        ids = self.ids(chk, ctx)
        edges = []
        for u in range(self.n):
            for v in range(self.n):
                if u != v and ctx.branch(inp.bool(f'g{u}_{v}')):
                    edges.append((u, v))
                    I.call(ctx, L, 'DesignRoot::make_use_of', [ValRef(root), NONE(), ValRef(ids[u]), ValRef(ids[v])])
        user = choose(ctx, inp, 'user', self.n); unit = choose(ctx, inp, 'unit', self.n)
        try:
            r = I.call(ctx, L, 'DesignRoot::make_use_of', [ValRef(root), NONE(), ValRef(ids[user]), ValRef(ids[unit])])
        except Panic as p:
            raise Violation('panic: ' + str(p), 'panic')
        is_err = r.variant == 'Err'
        F = ll.S['DesignRoot']
        after = sorted((int(sym_name(x.fields[ll.fidx('UnitId', 'key')].fields[0])[1:]), int(sym_name(k.fields[ll.fidx('UnitId', 'key')].fields[0])[1:]))
                       for k, v in root.fields[F.index('users_of')].fields[0].entries() for x in v.items)
        if not verify: return is_err, after
        check_cycle(self.n, edges, user, unit, is_err, after)
        ctx.cover('compared')
        ctx.cover('circular dependency reported' if is_err else 'dependency admitted')
        return is_err, after

    def harness(self, chk):
        def h(ctx): self.run(chk, ctx, SymInputs(ctx))
        return h

    def case_of(self, w):
        edges = [[u, v] for u in range(self.n) for v in range(self.n) if u != v and w.get(f'g{u}_{v}')]
        return {'n': self.n, 'edges': edges, 'user': w.get('user', 0) % self.n, 'unit': w.get('unit', 0) % self.n}

    def replay_case(self, chk, w, v):
        case = self.case_of(w)
        out = chk.native.run('makeuse', [case])[0]
        if 'panic' in out: return True
        if 'is_err' not in out: return f'native replay failed: {out}'
        try: check_cycle(self.n, [tuple(e) for e in case['edges']], case['user'], case['unit'], out['is_err'], sorted(tuple(e) for e in out['edges']))
        except Violation: return True
        return False

    def translator_validation(self, chk):
        rng = chk.rng; bad = []
        cases = []
        for _ in range(12):
            w = {f'g{u}_{v}': rng.random() < 0.35 for u in range(self.n) for v in range(self.n) if u != v}
            w['user'] = rng.randrange(self.n); w['unit'] = rng.randrange(self.n)
            cases.append(w)
        outs = chk.native.run('makeuse', [self.case_of(w) for w in cases])
        for w, out in zip(cases, outs):
            ctx = Ctx()
            mine = self.run(chk, ctx, ConcInputs(ctx, w), verify=False)
            if [mine[0], [list(e) for e in mine[1]]] != [out.get('is_err'), [list(e) for e in out.get('edges', [])]]:
                bad.append({'case': self.case_of(w), 'interpreter': mine, 'native': out})
        return len(cases), bad


def check_cycle(n, edges, user, unit, is_err, after):
    """Err <=> `unit` transitively uses `user` (reflexively) once the new edge is in; the edge is recorded either way"""
    uses = {}
    for u, v in list(edges) + [(user, unit)]: uses.setdefault(u, set()).add(v)
    # does `unit` reach `user` through uses-edges?  (then user -> unit closes a cycle)
    seen = {unit}; work = [unit]
    while work:
        x = work.pop()
        for y in uses.get(x, ()):
            if y not in seen: seen.add(y); work.append(y)
    closes = user in seen
    if is_err != closes:
        raise Violation(f'make_use_of({user} uses {unit}) on edges {edges} returns {"Err" if is_err else "Ok"} but the edge {"closes" if closes else "does not close"} a dependency cycle', 'cycle')
    want = sorted(set(edges) | {(user, unit)})
    if sorted(set(after)) != want:
        raise Violation(f'users_of after the call is {after}, expected {want} (the edge must be recorded in both outcomes)', 'edges')


class LockProtocol(Part):
    vcap = 6
    OPS = ['entry+finish', 'entry only', 'reset', 'get', 'expect_analyzed']

    def __init__(self, name, k, required=()):
        self.name, self.k = name, k
        self.required_classes = required
        self.bounds = dict(operations=k, alphabet=self.OPS, results='finish stores a fresh distinguishable result each time')

    def run(self, chk, ctx, inp, verify=True):
        I = chk.I
        lock = I.call(ctx, L, 'AnalysisLock::new', [BV(7, 32)])
        stored = None; serial = 0; log = []
        for s in range(self.k):
            op = self.OPS[choose(ctx, inp, f'op{s}', len(self.OPS))]
            try:
                if op in ('entry+finish', 'entry only'):
                    e = I.call(ctx, L, 'AnalysisLock::entry', [ValRef(lock)])
                    log.append((op, e.variant))
                    if (e.variant == 'Vacant') != (stored is None): raise Violation(f'step {s}: entry() is {e.variant} while a result is {"absent" if stored is None else "stored"}', 'lock')
                    if e.variant == 'Occupied':
                        r = I.call(ctx, L, 'ReadGuard::result', [ValRef(e.fields[0])])
                        if deref(r).e != stored: raise Violation(f'step {s}: entry() returns another result than the one stored', 'lock')
                    elif op == 'entry+finish':
                        serial += 1
                        I.call(ctx, L, 'WriteGuard::finish', [ValRef(e.fields[0]), BV(serial, 32)])
                        stored = serial
                        g = I.call(ctx, L, 'WriteGuard::downgrade', [e.fields[0]])
                        if deref(I.call(ctx, L, 'ReadGuard::result', [ValRef(g)])).e != stored: raise Violation('downgrade loses the result', 'lock')
                elif op == 'reset':
                    I.call(ctx, L, 'AnalysisLock::reset', [ValRef(lock)]); stored = None; log.append((op,))
                elif op == 'get':
                    g = I.call(ctx, L, 'AnalysisLock::get', [ValRef(lock)])
                    log.append((op, g.variant))
                    if (g.variant == 'Some') != (stored is not None): raise Violation(f'step {s}: get() is {g.variant} while a result is {"absent" if stored is None else "stored"}', 'lock')
                    an = I.call(ctx, L, 'AnalysisLock::is_analyzed', [ValRef(lock)])
                    if bool(an) != (stored is not None): raise Violation('is_analyzed disagrees with get', 'lock')
                else:
                    try:
                        g = I.call(ctx, L, 'AnalysisLock::expect_analyzed', [ValRef(lock)])
                        if stored is None: raise Violation('expect_analyzed returns although no result is stored', 'lock')
                    except Panic:
                        if stored is not None: raise Violation('expect_analyzed panics although a result is stored', 'lock')
                    log.append((op,))
            except Panic as p:
                raise Violation(f'step {s} ({op}) panics: {p}', 'panic')
        ctx.cover('compared')
        if stored is not None: ctx.cover('ends analysed')
        return log

    def harness(self, chk):
        def h(ctx): self.run(chk, ctx, SymInputs(ctx))
        return h

    def replay_case(self, chk, w, v): return 'the lock protocol has no native replay (private generic type); the unit test analysis_result_is_memoized covers one trace'


class SortedIds(Part):
    vcap = 6

    def __init__(self, name, required=()):
        self.name = name; self.required_classes = required
        self.bounds = dict(library='2 files x one of 7 contents each (solver-chosen), loaded in either order')

    def run(self, chk, ctx, inp, verify=True):
        from .c01 import CONTENTS
        kit = chk.kit; I = chk.I; ll = chk.ll
        lib = kit.new_library(ctx)
        order = [0, 1] if ctx.branch(inp.bool('order')) else [1, 0]
        cs = {}
        for f in order:
            cs[f] = choose(ctx, inp, f'c{f}', len(CONTENTS))
            I.call(ctx, L, 'Library::add_design_file', [ValRef(lib), kit.design_file(f, cs[f])])
        try:
            ids = seq_items(I.call(ctx, L, 'Library::sorted_unit_ids', [ValRef(lib)]))
        except Panic as p:
            raise Violation('panic: ' + str(p), 'panic')
        got = [kit.key_str(u) for u in ids]
        units = lib.fields[ll.S['Library'].index('units')]
        live = {}
        for k, lu in units.entries():
            uid = lu.fields[ll.fidx('LockedUnit', 'unit_id')]
            pos = deref(I.call(ctx, L, '<LockedUnit as HasSrcPos>::pos', [ValRef(lu)]))
            st = pos.fields[ll.fidx('SrcPos', 'range')].fields[0]
            live[kit.key_str(uid)] = (kit.file_of(pos.fields[ll.fidx('SrcPos', 'source')]), (st.fields[0].e, st.fields[1].e))
        if not verify: return got
        if sorted(got) != sorted(live): raise Violation(f'sorted_unit_ids yields {got} but the live units are {sorted(live)}', 'order')
        # grouped by source, ordered by position inside each source
        seen_files = []
        for k in got:
            f = live[k][0]
            if f in seen_files and seen_files[-1] != f: raise Violation('units of one source are not contiguous', 'order')
            if f not in seen_files: seen_files.append(f)
        for f in set(x[0] for x in live.values()):
            ps = [live[k][1] for k in got if live[k][0] == f]
            if ps != sorted(ps): raise Violation(f'units of file {f} are not ordered by position: {ps}', 'order')
        ctx.cover('compared')
        if len(got) >= 2: ctx.cover('two or more units')
        return got

    def harness(self, chk):
        def h(ctx): self.run(chk, ctx, SymInputs(ctx))
        return h

    def replay_case(self, chk, w, v): return 'no native replay for sorted_unit_ids'


class InternRace(Part):
    """two threads intern a name concurrently; schedules at lock granularity (lookup under the read lock and insert_new under the write
    lock are atomic, nothing is held between them): every interleaving of the two threads' steps"""
    vcap = 6

    def __init__(self, name, nbytes, required=()):
        self.name, self.nbytes = name, nbytes
        self.required_classes = required
        self.bounds = dict(threads=2, name_bytes=nbytes, names='both threads intern the same spelling, or spellings that differ only in letter case (basic), or an extended identifier',
                           schedules='all interleavings of [lookup, insert_new] x 2 at lock granularity')

    def run(self, chk, ctx, inp, verify=True):
        I = chk.I; ll = chk.ll
        table = I.call(ctx, L, '<SymbolTable as Default>::default', [])
        ext = ctx.branch(inp.bool('ext'))
        a = [inp.byte(f'n{i}') for i in range(self.nbytes)]
        if inp.symbolic:
            for x in a: ctx.assume(z3.And(x.e != 92, z3.Or(z3.And(z3.UGE(x.e, 65), z3.ULE(x.e, 90)), z3.And(z3.UGE(x.e, 97), z3.ULE(x.e, 122)), z3.UGE(x.e, 0xC0))))
        flip = (not ext) and ctx.branch(inp.bool('flipcase'))
        b = list(a)
        if flip:
            b[0] = BV(a[0].e ^ 0x20, 8)
            if inp.symbolic: ctx.assume(z3.And(a[0].e != 0xD7, a[0].e != 0xF7, a[0].e != 0xDF, a[0].e != 0xFF))
        names = [a, b]
        if ext: names = [[BV(92, 8)] + n + [BV(92, 8)] for n in names]
        lat = [Agg('Latin1String', [VecV(list(n))]) for n in names]
        # per thread: step 0 = lookup, step 1 = insert_new if the lookup missed
        pc = [0, 0]; found = [None, None]; result = [None, None]; sched = []
        while pc[0] < 2 or pc[1] < 2:
            runnable = [t for t in (0, 1) if pc[t] < 2]
            t = runnable[0] if len(runnable) == 1 else (0 if ctx.branch(inp.bool(f'sched{len(sched)}')) else 1)
            sched.append(t)
            try:
                if pc[t] == 0:
                    found[t] = I.call(ctx, L, 'SymbolTable::lookup', [ValRef(table), ValRef(lat[t])])
                    if found[t].variant == 'Some': result[t] = found[t].fields[0]; pc[t] = 2
                    else: pc[t] = 1
                else:
                    result[t] = I.call(ctx, L, 'SymbolTable::insert_new', [ValRef(table), ValRef(lat[t]), ext]); pc[t] = 2
            except Panic as p:
                raise Violation('panic: ' + str(p), 'panic')
        F = ll.S['Symbol']
        ids = [r.fields[F.index('id')] for r in result]
        if not verify: return [ctx.concretize(x) for x in ids], sched
        ctx.obligations += 1
        if ctx.feasible(b_not(bv_eq(ids[0], ids[1]))):
            raise Violation(f'two threads interning the same identifier get different ids under schedule {sched} (extended={ext}, case variant={flip})', 'race')
        ctx.cover('compared')
        if sched[:2] in ([0, 1], [1, 0]): ctx.cover('both lookups before either insert')
        return None

    def harness(self, chk):
        def h(ctx): self.run(chk, ctx, SymInputs(ctx))
        return h

    def case_of(self, w):
        ctx = Ctx()
        ids_sched = self.run(None, ctx, None, verify=False) if False else None
        return {'witness': w}

    def replay_case(self, chk, w, v):
        # both steps are atomic under the table's lock, so running them in schedule order on one native thread reproduces the interleaving
        ctx = Ctx(); inp = ConcInputs(ctx, w)
        ext = bool(w.get('ext'))
        a = [w.get(f'n{i}', 65) for i in range(self.nbytes)]
        b = list(a)
        if not ext and w.get('flipcase'): b[0] = a[0] ^ 0x20
        names = [a, b]
        if ext: names = [[92] + n + [92] for n in names]
        _, sched = self.run(chk, ctx, inp, verify=False)
        for rel in (False, True):
            out = chk.native.run('internsched', [{'names': names, 'ext': ext, 'schedule': sched}], release=rel)[0]
            if 'panic' in out: return True
            ids = out.get('ids')
            if not ids or None in ids: return f'native replay failed: {out}'
            if ids[0] != ids[1]: return True
        return False


class C04(Check):
    prop = 'C04'
    crates = (L,)

    def parts(self):
        if hasattr(self, '_parts'): return self._parts
        if not hasattr(self, 'll'): self.ll = LangLex(self)
        if not hasattr(self, 'kit'): self.kit = RootKit(self)
        req = ('compared', 'circular dependency reported', 'dependency admitted')
        if self.tier == 'quick':
            ps = [Cycle('make_use_of over all graphs on 3 units', 3, required=req), Cycle('make_use_of over all graphs on 4 units', 4, required=req),
                  LockProtocol('AnalysisLock protocol, 5 operations', 5, required=('compared', 'ends analysed')),
                  SortedIds('sorted_unit_ids', required=('compared', 'two or more units')),
                  InternRace('two threads interning one identifier, all lock-granularity interleavings', 2, required=('compared', 'both lookups before either insert'))]
        else:
            ps = [Cycle('make_use_of over all graphs on 4 units', 4, required=req), Cycle('make_use_of over all graphs on 3 units', 3, required=req),
                  LockProtocol('AnalysisLock protocol, 7 operations', 7, required=('compared', 'ends analysed')), SortedIds('sorted_unit_ids', required=('compared', 'two or more units')),
                  InternRace('two threads interning one identifier, all lock-granularity interleavings', 3, required=('compared', 'both lookups before either insert'))]
        self._parts = ps
        return ps

    def assumptions(self):
        return ['locks are transparent cells; the only interleavings explored are those of two threads interning a name, at lock granularity (SymbolTable::lookup and insert_new are each atomic under their lock); every other schedule (AnalysisLock::entry under contention, rayon) is outside this check',
                'deadlock freedom is argued from the cycle-admission result: a thread blocks on another unit only after make_use_of returned Ok',
                'unit ids are synthetic packages of one library; hash containers are modelled with insertion order']


if __name__ == '__main__':
    run_check(C04)
