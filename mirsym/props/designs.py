"""Self-contained designs (they analyse against the bundled std library only) for the checks that run the analyser and the editor queries.
Each design is a project: [(library, file, text)].  VALID designs analyse without error diagnostics (checked natively by the translator validation)."""

TYPES_PKG = """package types_pkg is
  type color_t is (red, green, blue);
  type point_t is record
    x : integer;
    y : integer;
  end record;
  type vec_t is array (natural range <>) of integer;
  constant origin : point_t := (x => 0, y => 0);
  function add(a, b : point_t) return point_t;
  function add(a, b : integer) return integer;
  function "+"(a, b : point_t) return point_t;
  procedure swap(variable p : inout point_t);
end package;

package body types_pkg is
  function add(a, b : point_t) return point_t is
  begin
    return (x => a.x + b.x, y => a.y + b.y);
  end function;

  function add(a, b : integer) return integer is
  begin
    return a + b;
  end function;

  function "+"(a, b : point_t) return point_t is
  begin
    return add(a, b);
  end function;

  procedure swap(variable p : inout point_t) is
    variable t : integer;
  begin
    t := p.x;
    p.x := p.y;
    p.y := t;
  end procedure;
end package body;
"""

SHAPE = """library lib1;
use lib1.types_pkg.all;

entity shape is
  generic (n : natural := 4);
  port (
    clk : in bit;
    sel : in color_t;
    o : out integer);
end entity;

architecture rtl of shape is
  signal p, q : point_t := origin;
  signal acc : vec_t(0 to n - 1);
  constant k : integer := add(1, 2);
begin
  main : process (clk)
    variable v : point_t;
  begin
    if clk'event and clk = '1' then
      v := p + q;
      swap(v);
      case sel is
        when red => o <= v.x;
        when green | blue => o <= add(v.x, k);
      end case;
      for i in acc'range loop
        acc(i) <= i;
      end loop;
    end if;
  end process main;
end architecture rtl;
"""

TREE = """entity leaf is
  generic (w : positive := 1);
  port (a : in bit_vector(w - 1 downto 0); y : out bit);
end entity;

architecture rtl of leaf is
begin
  y <= a(0);
end architecture;

entity tree is
  port (x : in bit_vector(3 downto 0); z : out bit_vector(1 downto 0));
end entity;

architecture structural of tree is
  component leaf is
    generic (w : positive := 1);
    port (a : in bit_vector(w - 1 downto 0); y : out bit);
  end component;
  signal t : bit;
begin
  g : for i in 0 to 1 generate
    u : leaf generic map (w => 2) port map (a => x(2 * i + 1 downto 2 * i), y => z(i));
  end generate;
  direct : entity work.leaf(rtl) generic map (w => 4) port map (a => x, y => t);
  blk : block is
    signal inner : bit;
  begin
    inner <= t;
  end block;
end architecture;

configuration cfg of tree is
  for structural
  end for;
end configuration;
"""

GENERIC = """package gen_pkg is
  generic (type elem_t; depth : positive := 2);
  type arr_t is array (0 to depth - 1) of elem_t;
  function first(a : arr_t) return elem_t;
end package;

package body gen_pkg is
  function first(a : arr_t) return elem_t is
  begin
    return a(0);
  end function;
end package body;

package int_pkg is new work.gen_pkg generic map (elem_t => integer, depth => 3);

package counter_pkg is
  type counter_t is protected
    procedure inc;
    impure function get return natural;
  end protected;
  subtype small_t is natural range 0 to 7;
  alias tiny_t is small_t;
  attribute mark : string;
  constant limit : small_t := 5;
  attribute mark of limit : constant is "lim";
end package;

package body counter_pkg is
  type counter_t is protected body
    variable n : natural := 0;
    procedure inc is
    begin
      n := n + 1;
    end procedure;
    impure function get return natural is
    begin
      return n;
    end function;
  end protected body;
end package body;

use work.counter_pkg.all;
use work.int_pkg.all;

entity user is
end entity;

architecture a of user is
  shared variable c : counter_t;
  signal s : tiny_t := limit;
  constant data : arr_t := (1, 2, 3);
begin
  process
    variable f : integer;
  begin
    c.inc;
    f := first(data) + c.get;
    s <= f mod 8;
    wait;
  end process;
end architecture;
"""

COMB = """entity comb is
  port (a, b, c : in bit; d : in bit_vector(1 downto 0); y, z : out bit);
end entity;

architecture rtl of comb is
  signal m, spare : bit;
  constant zero : natural := 0;
  function inv(x : bit) return bit is
  begin
    return not x;
  end function;
begin
  p1 : process (a, b)
  begin
    m <= a and b;
  end process;

  p2 : process (a, c)
  begin
    y <= inv(m) or a or d(0);
  end process;

  p3 : process (all)
  begin
    z <= c;
  end process;
end architecture;
"""

BROKEN_SEM = """entity half is
  port (a : in bit; y : out bit);
end entity;

architecture rtl of half is
  signal s : undefined_t;
  signal a : bit;
  signal n : natural := '1';
begin
  y <= missing(a);
  s <= '0';
  u : entity work.nothing port map (q => a);
  v : entity work.half port map (a => a, b => y);
  process (a)
    variable k : bit;
  begin
    k <= a;
    y := k;
    half(1);
  end process;
end architecture;

package body orphan is
end package body;

architecture lost of nowhere is
begin
end architecture;
"""

BROKEN_SYN = """entity half is
  port (a : in bit; y : out bit);
end entity;

architecture rtl of half is
  signal s : bit
begin
  y <= a;
  process (a
  begin
    y <= a +;
  end process;
end architecture;

entity tail is
  port (p : in
"""

ZOO = '''package zoo_pkg is
  type matrix_t is array (natural range <>, natural range <>) of bit;
  type word_t is array (natural range <>) of bit_vector;
  type level_t is (low, mid, high);
  type dist_t is range 0 to 1000
    units
      mm;
      cm = 10 mm;
    end units;
  type cell_t;
  type cell_ptr is access cell_t;
  type cell_t is record
    val : integer;
    nxt : cell_ptr;
  end record;
  type text_file is file of character;
  constant rows : natural := 2;
  constant cols : natural := 3;
  function "+" (l, r : level_t) return level_t;
  procedure "-" (l, r : level_t);
  function "-" (l, r : level_t) return level_t;
  function pick (m : matrix_t; r, c : natural) return bit;
  alias choose is pick [matrix_t, natural, natural return bit];
  procedure bump (variable n : inout natural; signal done : out bit);
end package;

package body zoo_pkg is
  function "+" (l, r : level_t) return level_t is
  begin
    if l = high or r = high then
      return high;
    end if;
    return level_t'succ(low);
  end function;

  procedure "-" (l, r : level_t) is
  begin
    null;
  end procedure;

  function "-" (l, r : level_t) return level_t is
  begin
    return l;
  end function;

  function pick (m : matrix_t; r, c : natural) return bit is
  begin
    return m(r, c);
  end function;

  procedure bump (variable n : inout natural; signal done : out bit) is
  begin
    n := n + 1;
    done <= '1';
  end procedure;
end package body;

use work.zoo_pkg.all;

entity zoo is
  generic (depth : positive := 4; nbits : positive := 8);
  port (clk, rst : in bit; sel : in level_t; q : out bit_vector(nbits - 1 downto 0); ok : out bit);
end entity zoo;

architecture mix of zoo is
  signal mat : matrix_t(0 to rows - 1, 0 to cols - 1);
  signal words : word_t(0 to depth - 1)(nbits - 1 downto 0);
  signal lvl : level_t := low;
  signal span : dist_t := 2 cm;
  signal tick, flag : bit;
  constant copy : natural := (rows);
  constant total : natural := (rows + cols) * 2;
  shared variable head : cell_ptr;
  file log : text_file;
begin
  with sel select lvl <=
    low when low,
    mid + low when mid,
    high - low when others;

  tick <= '1' when lvl = high else
          flag when (lvl) = mid else
          '0';

  flag <= choose(mat, copy - 1, 0) after 1 ns;

  gen_rows : for r in mat'range(1) generate
    gen_cols : for c in mat'range(2) generate
      signal tmp : bit;
    begin
      tmp <= clk and rst;
      mat(r, c) <= tmp;
    end generate gen_cols;
  end generate gen_rows;

  pick_width : if wide : nbits > 4 generate
    q <= words(0);
  else narrow : generate
    q <= (others => '0');
  end generate pick_width;

  by_level : case depth generate
    when 1 | 2 =>
      ok <= '0';
    when others =>
      ok <= tick;
  end generate by_level;

  guarded_blk : block (clk = '1') is
    generic (w : natural := 1);
    generic map (w => total);
    signal local : natural := w;
  begin
    local <= total;
  end block guarded_blk;

  main : process (clk) is
    variable count : natural := 0;
    variable cell : cell_ptr;
    variable ch : character;
  begin
    if clk'event and clk = '1' then
      outer : for i in words'range loop
        next outer when i = 1;
        words(i) <= words(i)(nbits - 2 downto 0) & rst;
        exit outer when count > total;
      end loop outer;
      while count < depth loop
        bump(count, ok);
      end loop;
      cell := new cell_t'(val => count, nxt => head);
      head := cell;
      assert cell.nxt = null or cell.val >= 0 report "cell " & integer'image(cell.val) severity note;
      span <= span + 5 mm;
    end if;
  end process main;

  reader : process is
    variable c : character;
  begin
    wait until clk = '1' for 10 ns;
    if not endfile(log) then
      read(log, c);
    end if;
    wait on rst;
    wait;
  end process reader;
end architecture mix;
'''

DESIGNS = [
    dict(name='records, enumerations, overloaded functions and an operator, over two libraries', valid=True,
         files=[('lib1', 'types_pkg.vhd', TYPES_PKG), ('lib2', 'shape.vhd', SHAPE)]),
    dict(name='component and entity instantiation, generate, block, configuration', valid=True, files=[('lib0', 'tree.vhd', TREE)]),
    dict(name='generic package and instance, protected type, alias, attribute', valid=True, files=[('lib0', 'generic.vhd', GENERIC)]),
    dict(name='combinational processes for the lints', valid=True, files=[('lib0', 'comb.vhd', COMB)]),
    dict(name='syntax zoo: 2-d and element constraints, physical/access/file types, operator-symbol subprograms, alias with signature, selected/conditional assignment, for/if/case generate, guarded block with generic map, loops with exit/next, allocator, assert, wait forms', valid=True, files=[('lib0', 'zoo.vhd', ZOO)]),
    dict(name='semantic errors', valid=False, files=[('lib0', 'broken_sem.vhd', BROKEN_SEM)]),
    dict(name='syntax errors', valid=False, files=[('lib0', 'broken_syn.vhd', BROKEN_SYN)]),
]

# a compact design that touches many analyser paths; every token of it gets mutated by the C03 check
MUT = """package pk is
  type st is (s0, s1);
  function f(a : bit) return bit;
end package;

package body pk is
  function f(a : bit) return bit is
  begin
    return not a;
  end function;
end package body;

use work.pk.all;

entity en is
  generic (g : natural := 1);
  port (
    i : in bit;
    o : out bit;
    n : in natural := 0);
end entity;

architecture ar of en is
  signal s : st := s0;
  signal v : bit_vector(g downto 0);
  constant hi : integer := v'left(1);
  constant sx : bit_vector(1 downto 0) := 2SX"F";
  constant ux : bit_vector(3 downto 0) := 4X"1";
begin
  u0 : entity work.en generic map (g => 0) port map (i => i, o => open);
  u1 : entity work.en generic map (0) port map (i, open, 3);
  pr : process (i)
  begin
    case s is
      when s0 => o <= f(i);
      when others => o <= v(0);
    end case;
  end process;
end architecture;
"""
MUT_DESIGN = dict(name='compact design: package with body, enumeration, entity with generic and ports, instantiation, process with case', valid=True,
                  files=[('lib0', 'mut.vhd', MUT)])

D_RECORDS, D_TREE, D_GENERIC, D_COMB, D_ZOO, D_SEM, D_SYN = DESIGNS
# a library whose only file holds no design unit, next to a file with an unfinished library clause
D_EMPTYLIB = dict(name='a library without design units and an unfinished library clause', valid=False,
                  files=[('lib1', 'empty.vhd', '-- nothing here yet\n'), ('lib0', 'c.vhd', 'library \n\nentity c is\nend entity;\n\nuse \n')])
DESIGNS.append(D_EMPTYLIB)


def ieee_design(repo):
    """ieee.std_logic_1164 (+ body) of the checkout under test and a user of the matching operators; the declared names of its types are case-permuted by C13"""
    import os
    d = os.path.join(repo, 'vhdl_libraries', 'ieee2008')
    pkg = open(os.path.join(d, 'std_logic_1164.vhdl'), encoding='latin-1').read()
    body = open(os.path.join(d, 'std_logic_1164-body.vhdl'), encoding='latin-1').read()
    user = ("library ieee;\nuse ieee.std_logic_1164.all;\n\nentity u is\n  port (a, b : in std_logic_vector(3 downto 0); c : in std_ulogic; y, z : out std_logic);\nend entity;\n\n"
            "architecture r of u is\nbegin\n  y <= a ?= b;\n  z <= c ?/= '1';\nend architecture;\n")
    lines = [i for i, l in enumerate(pkg.split('\n')) if l.lower().startswith(('  type std_ulogic', '  subtype std_logic'))]
    return dict(name='ieee.std_logic_1164 with body, and a user of ?= on std_logic_vector', valid=True, incremental=True, site_lines=lines,
                files=[('ieee', 'std_logic_1164.vhdl', pkg), ('ieee', 'std_logic_1164-body.vhdl', body), ('lib0', 'u.vhd', user)])

USE_IN_DECL = """package enum_pkg is
  type color_t is (red, green, blue);
end package;

use work.enum_pkg.all;

package user_pkg is
  constant c0 : boolean := 1 = 2;
  constant c1 : boolean := red = green;
end package;
"""
D_USE = dict(name='an enumeration type used through a use clause after another use of "="', valid=True, files=[('lib0', 'use_in_decl.vhd', USE_IN_DECL)])

OVERLOAD = """entity over is
end entity;

architecture a of over is
  function f (a : bit) return integer is
  begin
    if a = '1' then
      return f('0');
    end if;
    return 0;
  end function;
  function f (a : integer) return integer is
  begin
    return a;
  end function;
  constant c : integer := f(1);
  signal s : integer := f('1') + c;
begin
end architecture;
"""
D_OVER = dict(name='two overloaded functions, one of them recursive', valid=True, files=[('lib0', 'overload.vhd', OVERLOAD)])

NESTED = """entity nest is
end entity;

architecture a of nest is
  type color_t is (red, green, blue);
  type pair_t is record
    lo : natural;
    mid : integer;
    hi : positive;
    flag : bit;
  end record;
  signal c : color_t;
  signal y : bit;
  constant init : pair_t := (flag => '0', others => 1);
  constant zero : pair_t := (flag => '1', hi => 1, others => 0);
begin
  main : process (c)
    type mode_t is (idle, busy);
    variable m : mode_t;
  begin
    if c = green and m = idle then
      y <= init.flag;
    else
      y <= zero.flag;
    end if;
  end process;
end architecture;
"""
D_NEST = dict(name='operators of an outer enumeration inside a process with local types; record aggregates with others over differently named subtypes', valid=True,
              files=[('lib0', 'nested.vhd', NESTED)])

MULTI_PKG = "package pkg is\n  constant c0 : natural := 0;\nend package;\n"
MULTI_A = "use work.pkg.all;\npackage a is\n  constant x : natural := c0;\nend package;\n"
MULTI_B = "use work.pkg.all;\npackage b is\n  constant y : natural := c0 + 1;\nend package;\n"
D_MULTI = dict(name='one package used from two files at the same coordinates', valid=True,
               files=[('lib0', 'pkg.vhd', MULTI_PKG), ('lib0', 'a.vhd', MULTI_A), ('lib0', 'b.vhd', MULTI_B)])
