"""C18  The two front ends agree on lexing.

The same Latin-1 bytes go through the real vhdl_syntax tokenizer + merge_bit_string_literals and, decoded one char per
byte, through the real vhdl_lang Tokenizer::pop loop.  Precondition (the property's): neither lexer reports a lexical
error, no tool directive.  Obligation: equal lexeme sequences and corresponding kinds.
Parser acceptance ("both accept the same valid programs") is outside this check.
"""
import json
import z3
from ..util import Panic, Unsupported
from ..values import *
from ..interp import Violation, Ctx
from ..models import ListIt
from .common import Check, Part, SymInputs, ConcInputs, run_check
from .lang_lex import LangLex, Layout, L
from .c17 import choose
from . import corpus

S = 'vhdl_syntax'
CLASS = {'Identifier': 'Identifier', 'AbstractLiteral': 'AbstractLiteral', 'StringLiteral': 'StringLiteral',
         'BitStringLiteral': 'BitString', 'CharacterLiteral': 'Character'}


class Both(Part):
    vcap = 8

    def __init__(self, name, N=None, skeletons=None, nholes=1, required=(), time_cap=None):
        self.name, self.N, self.skeletons, self.nholes = name, N, skeletons, nholes
        self.required_classes = required; self.time_cap = time_cap
        if skeletons is None:
            self.bounds = dict(input_bytes=N, alphabet='all 256 byte values')
        else:
            self.bounds = dict(skeletons=len(skeletons), max_len=max(len(x) for x in skeletons), symbolic_bytes_per_run=nholes,
                               first_skeletons=[x.decode('latin-1') for x in skeletons[:8]])

    def input(self, ctx, inp):
        if self.skeletons is None:
            return [inp.byte(f'b{i}') for i in range(self.N)]
        k = choose(ctx, inp, 'sk', len(self.skeletons))
        sk = self.skeletons[k]
        h = choose(ctx, inp, 'hole', max(1, len(sk) - self.nholes + 1))
        holes = range(h, min(len(sk), h + self.nholes))
        return [inp.byte(f'b{i}') if i in holes else BV(sk[i], 8) for i in range(len(sk))]

    def case_of(self, w):
        if self.skeletons is None: return {'bytes': [w.get(f'b{i}', 0) for i in range(self.N)]}
        sk = self.skeletons[w.get('sk', 0) % len(self.skeletons)]
        h = w.get('hole', 0) % max(1, len(sk) - self.nholes + 1)
        holes = range(h, min(len(sk), h + self.nholes))
        return {'bytes': [w.get(f'b{i}', 0) if i in holes else sk[i] for i in range(len(sk))]}

    def syntax_side(self, chk, ctx, data):
        I = chk.I
        tk = I.call(ctx, S, 'Tokenizer::new', [ListIt(list(data))])
        toks = []
        while True:
            r = I.call(ctx, S, '<Tokenizer as Iterator>::next', [ValRef(tk)])
            if r.variant == 'None': break
            toks.append(r.fields[0])
            if len(toks) > len(data) + 2: raise Violation('vhdl_syntax: more tokens than input bytes + 1', 'shape')
        merged = seq_items(I.call(ctx, S, 'merge_bit_string_literals', [VecV(list(toks))]))
        out = []; err = False
        for pair in merged:
            t, e = pair.fields
            if e.variant == 'Some': err = True
            kind = I.call(ctx, S, 'Token::kind', [ValRef(t)])
            if kind.variant == 'Eof': continue
            text = seq_items(I.call(ctx, S, 'Token::text', [ValRef(t)]))
            kname = kind.variant if kind.variant != 'Keyword' else 'Keyword:' + kind.fields[0].variant
            out.append((kname, list(text)))
        return out, err

    def lang_side(self, chk, ctx, data):
        ll = chk.ll
        chars = [BV(b.e, 32) if b.conc() else BV(z3.ZeroExt(24, b.e), 32) for b in data]
        source, contents = ll.make_source(ctx, chars)
        tk = ll.make_tokenizer(ctx, ll.fresh_symbols(), source, contents)
        lay = Layout(ctx, chars)
        out = []; err = False
        for kind, ev in ll.pop_all(ctx, tk, len(chars)):
            if kind == 'err': err = True; continue
            t = ll.tok(ev)
            si = lay.index_of(ctx, t['start'].fields[0], t['start'].fields[1]); ei = lay.index_of(ctx, t['end'].fields[0], t['end'].fields[1])
            if si is None or ei is None: raise Violation('vhdl_lang token range off character boundaries', 'shape')
            out.append((t['kind'].variant, data[si:ei]))
        return out, err

    def run(self, chk, ctx, inp, verify=True):
        data = self.input(ctx, inp)
        try:
            syn, serr = self.syntax_side(chk, ctx, data)
            lang, lerr = self.lang_side(chk, ctx, data)
        except Panic as p:
            raise Violation('panic: ' + str(p), 'panic')
        summary = {'syntax': [k for k, _ in syn], 'lang': [k for k, _ in lang], 'errors': [serr, lerr]}
        if not verify: return summary
        if serr or lerr:
            ctx.cover('excluded: a lexer reports an error'); return summary
        if any(k == 'ToolDirective' for k, _ in syn) or any(k == 'GraveAccent' for k, _ in lang):
            ctx.cover('excluded: tool directive'); return summary
        ctx.cover('compared')
        if any(k == 'AbstractLiteral' and any(ctx.branch(bv_is(b, 58)) for b in txt) for k, txt in syn):
            ctx.notes.append('region:colon-based-literal')
        if len(syn) != len(lang):
            ctx.model()
            raise Violation(f'lexeme sequences differ: vhdl_syntax {[k for k, _ in syn]} vs vhdl_lang {[k for k, _ in lang]}', 'count')
        for (ks, ts), (kl, tl) in zip(syn, lang):
            if len(ts) != len(tl):
                ctx.model()
                raise Violation(f'lexeme lengths differ: vhdl_syntax {ks}/{len(ts)} vs vhdl_lang {kl}/{len(tl)}', 'lexeme')
            neq = False
            for a, b in zip(ts, tl): neq = b_or(neq, b_not(bv_eq(a, b)))
            ctx.obligations += 1
            if neq is not False and ctx.feasible(neq):
                ctx.solver.add(neq); raise Violation('lexeme bytes differ', 'lexeme')
            if ks in CLASS or kl in CLASS.values():
                if CLASS.get(ks) != kl: raise Violation(f'kinds do not correspond: vhdl_syntax {ks} vs vhdl_lang {kl}', 'kind')
            elif ks.startswith('Keyword:'):
                if ks[8:].lower() != kl.lower(): raise Violation(f'kinds do not correspond: vhdl_syntax {ks} vs vhdl_lang {kl}', 'kind')
            elif ks == 'Unknown':
                raise Violation(f'vhdl_syntax yields Unknown without an error where vhdl_lang lexes {kl}', 'kind')
            if len(syn) > 1: ctx.cover('two or more tokens compared')
        return summary

    def harness(self, chk):
        def h(ctx): self.run(chk, ctx, SymInputs(ctx))
        return h

    def attribute(self, chk, v, known):
        for k in known:
            if k['id'] == 'C18-colon-based-literal' and 'region:colon-based-literal' in v.get('notes', []) and v['kind'] in ('count', 'lexeme'):
                return k['id']
        return None

    def replay_case(self, chk, w, v):
        return native_differs(chk, self.case_of(w))

    def translator_validation(self, chk):
        rng = chk.rng
        alpha = list(b'ab1x_ \t\n"\'#:.-/*\\eE+<=>') + [0xE9, 0xA0]
        cases = []
        for _ in range(30 if chk.tier == 'quick' else 80):
            w = {f'b{i}': rng.choice(alpha) for i in range(self.N or 24)}
            if self.skeletons is not None:
                w['sk'] = rng.randrange(len(self.skeletons)); w['hole'] = rng.randrange(24)
            cases.append(w)
        outs = chk.native.run('twolex', [self.case_of(w) for w in cases])
        bad = []
        for w, out in zip(cases, outs):
            ctx = Ctx()
            try:
                mine = self.run(chk, ctx, ConcInputs(ctx, w), verify=False)
            except Violation as vv:
                bad.append({'case': self.case_of(w), 'interpreter': str(vv), 'native': out}); continue
            theirs = {'syntax': out.get('syntax_kinds'), 'lang': out.get('lang_kinds'), 'errors': [out.get('syntax_err'), out.get('lang_err')]}
            if mine != theirs: bad.append({'case': self.case_of(w), 'interpreter': mine, 'native': theirs})
        return len(cases), bad


def native_differs(chk, case):
    for rel in (False, True):
        out = chk.native.run('twolex', [case], release=rel)[0]
        if 'panic' in out: return True
        if 'syntax_lexemes' not in out: return f'native replay failed: {out}'
        if out['syntax_err'] or out['lang_err'] or out['directive']: continue
        if out['syntax_lexemes'] != out['lang_lexemes']: return True
        for ks, kl in zip(out['syntax_kinds'], out['lang_kinds']):
            if ks in CLASS or kl in CLASS.values():
                if CLASS.get(ks) != kl: return True
            elif ks.startswith('Keyword:') and ks[8:].lower() != kl.lower(): return True
            elif ks == 'Unknown': return True
    return False


class C18(Check):
    prop = 'C18'
    crates = (L, S)

    def parts(self):
        if hasattr(self, '_parts'): return self._parts
        if not hasattr(self, 'll'): self.ll = LangLex(self)
        req = ('compared', 'excluded: a lexer reports an error')
        sk_all = [x for x in corpus.all_lexemes() if b'vhdl_ls' not in x and b'`' not in x]
        if self.tier == 'quick':
            sk = [x for x in corpus.skeletons('both', self.seed, count=80, max_len=12) if b'`' not in x and b'vhdl_ls' not in x]
            ps = [Both('bytes N<=2', N=2, required=req),
                  Both('skeletons, 1 symbolic byte', skeletons=sk, nholes=1, required=('compared', 'two or more tokens compared'))]
        else:
            sk = [x for x in sk_all if len(x) <= 24]
            ps = [Both('bytes N<=3', N=3, required=req),
                  Both('skeletons, 1 symbolic byte', skeletons=sk, nholes=1, required=('compared', 'two or more tokens compared')),
                  Both('skeletons, 2 adjacent symbolic bytes', skeletons=[x for x in sk if len(x) <= 10][:70], nholes=2)]
        self._parts = ps
        return ps

    def replay_known(self, k):
        return native_differs(self, k['case']) is True

    def assumptions(self):
        return ['inputs on which either lexer reports a lexical error (incl. non-fatal tokenizer diagnostics) or that contain a tool directive are excluded, as the property states',
                'vhdl_lang reads the bytes decoded as ISO-8859-1 (one char per byte); vhdl_syntax reads the bytes',
                'parser acceptance of LRM-valid programs by both front ends is outside this check',
                'kind correspondence: keywords by name, literal/identifier classes by a fixed table, delimiters by equal lexemes']


if __name__ == '__main__':
    run_check(C18)
