"""C07  Names and overloaded calls resolve as VHDL visibility rules dictate.

Real code (MIR): parser + analyser (scope.rs, visibility.rs, region.rs, names.rs, overloaded.rs) + Project::find_declaration on a generated
family: two packages that both declare a constant `x`, a function `f` (integer / bit parameter) and an enumeration literal `a` (types t1 /
t2); an architecture that may use either package (`use work.p1.all`, `use work.p2.all`: 4 combinations), may declare its own `x`
(architecture and/or process level) and its own `f(integer)`; five use sites in a process.  The independent reference resolver is the
table of LRM rules written out for this family: inner hides outer; directly visible hides use-visible (homographs: same profile for
subprograms); two use-visible non-overloadable homographs conflict and are reported; overloaded names resolve by parameter / context type.
Per path: one member (32) and one site, cursor character symbolic inside the site token.
"""
from .queries import *
from .c06 import WARNING_CODES

PKGS = """package p1 is
  type t1 is (@p1a a, b);
  constant @p1x x : integer := 1;
  function @p1f f (v : integer) return integer;
end package;

package body p1 is
  function f (v : integer) return integer is
  begin
    return v;
  end function;
end package body;

package p2 is
  type t2 is (@p2a a, c);
  constant @p2x x : integer := 2;
  function @p2f f (v : bit) return integer;
end package;

package body p2 is
  function f (v : bit) return integer is
  begin
    return 0;
  end function;
end package body;

"""


def member(u1, u2, la, lp, lf):
    t = PKGS
    if u1: t += "use work.p1.all;\n"
    if u2: t += "use work.p2.all;\n"
    t += "\nentity e7 is\nend entity;\n\narchitecture r of e7 is\n"
    if la: t += "  constant @lax x : integer := 3;\n"
    if lf: t += "  function @lf f (v : integer) return integer is\n  begin\n    return v + 1;\n  end function;\n"
    t += "  signal s1, s2, s3 : integer;\n  signal e1 : work.p1.t1;\n  signal e2 : work.p2.t2;\nbegin\n  pr : process\n"
    if lp: t += "    constant @lpx x : integer := 4;\n"
    t += "  begin\n    s1 <= #X x;\n    s2 <= #F1 f(1);\n    s3 <= #F2 f('1');\n    e1 <= #A1 a;\n    e2 <= #A2 a;\n    wait;\n  end process;\nend architecture;\n"
    # strip markers, remember positions
    marks = {}; out = ''
    i = 0
    while i < len(t):
        m = re.match(r'[@#](\w+) ', t[i:])
        if m:
            line = out.count('\n'); col = len(out) - (out.rfind('\n') + 1)
            tok = re.match(r'\w+', t[i + m.end():]).group(0)
            marks[m.group(1)] = (line, col, col + len(tok))
            i += m.end(); continue
        out += t[i]; i += 1
    return out, marks


def expected(u1, u2, la, lp, lf):
    """site -> name of the declaration it must resolve to | 'error'"""
    e = {}
    e['X'] = 'lpx' if lp else 'lax' if la else ('error' if u1 and u2 else 'p1x' if u1 else 'p2x' if u2 else 'error')
    e['F1'] = 'lf' if lf else ('p1f' if u1 else 'error')
    e['F2'] = 'p2f' if u2 else 'error'
    e['A1'] = 'p1a' if u1 else 'error'
    e['A2'] = 'p2a' if u2 else 'error'
    return e


class Resolve(DesignPart):
    SITES = ['X', 'F1', 'F2', 'A1', 'A2']

    def __init__(self, name, required=(), time_cap=None):
        self.name = name; self.designs = []
        self.required_classes = required; self.time_cap = time_cap
        self.bounds = dict(members='use p1.all x use p2.all x local x in the architecture x local x in the process x local f(integer) in the architecture = 32',
                           sites='x | f(1) | f(\'1\') | a as t1 | a as t2, cursor character symbolic inside the token',
                           oracle='the table `expected` in props/c07.py (LRM 12.3/12.4 rules written out for this family)')

    def bases(self, chk): return None

    def run(self, chk, ctx, inp, verify=True):
        kit = chk.pkit; I = chk.I
        cfg = tuple(ctx.branch(inp.bool(n)) for n in ('use_p1', 'use_p2', 'local_x_arch', 'local_x_proc', 'local_f'))
        site = self.SITES[choose(ctx, inp, 'site', len(self.SITES))]
        text, marks = member(*cfg); exp = expected(*cfg)
        pr = kit.new_project(ctx, copy=not inp.symbolic)
        fname = '/p/gen07.vhd'
        try:
            pr.set_text(ctx, fname, [BV(ord(c), 32) for c in text]); pr.map_file(ctx, fname, 'lib0'); pr.update(ctx, fname)
            dobs = [obs_show(kit.diag_obs(d)) for d in pr.analyse(ctx)]
        except Panic as p:
            raise Violation('analysis panics: ' + str(p), 'panic')
        line, c0, c1 = marks[site]
        ch = inp.bv('character', 32)
        if inp.symbolic: ctx.assume(z3.And(z3.UGE(ch.e, c0), z3.ULE(ch.e, c1)))
        elif not (c0 <= ch.e <= c1): ch = BV(c0, 32)
        try:
            got = I.call(ctx, L, 'Project::find_declaration', [ValRef(pr.agg), ValRef(pr.sources[fname]), Agg('Position', [BV(line, 32), ch])])
        except Panic as p:
            ctx.model(); raise Violation('find_declaration panics: ' + str(p), 'panic')
        G = None if got.variant == 'None' else ent_info(kit, got.fields[0])
        errs = [d for d in dobs if d[1] not in WARNING_CODES and d[0][1] == line and d[0][3] == line and d[0][4] > c0 and d[0][2] >= c0]
        if not verify: return cfg, site, (None if G is None else G['decl']), [d[:3] for d in dobs if d[1] not in WARNING_CODES]
        ctx.obligations += 1
        want = exp[site]
        desc = f'member use_p1={cfg[0]} use_p2={cfg[1]} local_x_arch={cfg[2]} local_x_proc={cfg[3]} local_f={cfg[4]}, site {site} (line {line})'
        if want == 'error':
            if not errs:
                ctx.model(); raise Violation(f'{desc}: the rules give no declaration here (undeclared, not matching, or conflicting use clauses) but no error diagnostic covers the site; resolved to {G and G["decl"]}; errors: {[d[:3] for d in dobs if d[1] not in WARNING_CODES]}', 'unreported')
            ctx.cover('error expected')
        else:
            wl, wc0, wc1 = marks[want]
            if G is None or G['decl'] != (fname, wl, wc0, wl, wc1):
                ctx.model(); raise Violation(f'{desc}: must resolve to {want} at line {wl}, resolves to {G and G["decl"]}; errors at the site: {[d[:3] for d in errs]}', 'wrong-declaration')
            if errs:
                ctx.model(); raise Violation(f'{desc}: resolves to {want} as the rules dictate but an error is reported there: {[d[:3] for d in errs]}', 'false-error')
            ctx.cover('resolved')
            if want in ('lpx', 'lax', 'lf'): ctx.cover('local hides')
        ctx.cover('compared')
        return None

    def harness(self, chk):
        def h(ctx):
            ctx.step_limit = max(ctx.step_limit, 60_000_000)
            self.run(chk, ctx, SymInputs(ctx))
        return h

    def cfg_of(self, w): return tuple(bool(w.get(n, False)) for n in ('use_p1', 'use_p2', 'local_x_arch', 'local_x_proc', 'local_f'))

    def case_of(self, w):
        cfg = self.cfg_of(w); text, marks = member(*cfg)
        site = self.SITES[w.get('site', 0) % len(self.SITES)]; line, c0, c1 = marks[site]
        ch = w.get('character', c0); ch = ch if c0 <= ch <= c1 else c0
        return self.native_case(dict(name='generated', files=[('lib0', 'gen07.vhd', text)]), {'file': 'gen07.vhd', 'line': line, 'character': ch})

    def replay_case(self, chk, w, v):
        cfg = self.cfg_of(w); text, marks = member(*cfg); exp = expected(*cfg)
        site = self.SITES[w.get('site', 0) % len(self.SITES)]; line, c0, c1 = marks[site]
        case = self.case_of(w)
        for rel in (False, True):
            out = chk.native.run('query', [case], release=rel)[0]
            a = chk.native.run('analyse', [case], release=rel)[0]
            if 'panic' in out or 'panic' in a: return True
            if 'declaration' not in out or 'diagnostics' not in a: return f'native replay failed: {out}'
            errs = [d for d in a['diagnostics'] if d[1] not in WARNING_CODES and d[0][1] == line and d[0][3] == line and d[0][4] > c0 and d[0][2] >= c0]
            decl = out['declaration'] and out['declaration']['decl']
            want = exp[site]
            if want == 'error':
                if not errs: return True
            else:
                wl, wc0, wc1 = marks[want]
                if decl is None or decl[1:] != [wl, wc0, wl, wc1] or errs: return True
        return False

    def translator_validation(self, chk):
        rng = chk.rng; cases = []
        for _ in range(6):
            w = {n: rng.random() < 0.5 for n in ('use_p1', 'use_p2', 'local_x_arch', 'local_x_proc', 'local_f')}; w['site'] = rng.randrange(5)
            cases.append(w)
        outs = chk.native.run('query', [self.case_of(w) for w in cases]); outs2 = chk.native.run('analyse', [self.case_of(w) for w in cases])
        bad = []
        for w, out, a in zip(cases, outs, outs2):
            ctx = Ctx(); ctx.step_limit = 10 ** 9
            cfg, site, decl, errs = self.run(chk, ctx, ConcInputs(ctx, w), verify=False)
            tdecl = out.get('declaration') and out['declaration']['decl']
            tdecl = None if tdecl is None else tuple(['/p/' + tdecl[0].rsplit('/', 1)[-1]] + tdecl[1:]) if '/scratch/' in tdecl[0] else tuple(['/std/' + tdecl[0].rsplit('/', 1)[-1]] + tdecl[1:])
            terrs = sorted([['/p/' + d[0][0].rsplit('/', 1)[-1]] + d[0][1:], d[1], d[2]] for d in a.get('diagnostics', []) if d[1] not in WARNING_CODES)
            mine = sorted([list(d[0]), d[1], d[2]] for d in errs)
            if decl != tdecl or json.loads(json.dumps(mine)) != json.loads(json.dumps(terrs)): bad.append({'case': w, 'interpreter': [decl, mine], 'native': [tdecl, terrs]})
        return len(cases), bad


class C07(Check):
    prop = 'C07'
    crates = (L,)

    def parts(self):
        if hasattr(self, '_parts'): return self._parts
        if not hasattr(self, 'll'): self.ll = LangLex(self)
        if not hasattr(self, 'pkit'): self.pkit = ProjectKit(self, log=self.log)
        ps = [Resolve('generated scopes: which declaration each use resolves to', required=('compared', 'resolved', 'error expected', 'local hides'))]
        self._parts = ps
        return ps

    def assumptions(self):
        return ['the family of 32 programs x 5 use sites and its resolution table (props/c07.py); deeper nesting, aliases, selected names, implicit operators, several overloads per package, and conflicting subprogram homographs are outside',
                'an expected error is any error-severity diagnostic on the site token or on the rest of its statement (a mismatching actual of the only candidate is reported at the actual); its wording is not checked',
                'bundled std library; FnvHashMap modelled insertion ordered; rayon sequential']


if __name__ == '__main__':
    run_check(C07)
