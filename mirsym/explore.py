"""Exhaustive path exploration: depth-first over decision prefixes, optionally on a pool of worker processes.

A harness is a callable `h(ctx)`; it builds its symbolic inputs through ctx.fresh(), runs real MIR through the
interpreter and raises `Violation` when a final obligation `path => property` has a counter-model.  The verdict of a
run is the conjunction over all paths; `exhaustive` is true only if the work list emptied.
"""
import os, sys, time, traceback, multiprocessing as mp
import z3
from .util import Infeasible, Unsupported, Panic
from .interp import Ctx, Violation


class Result:
    def __init__(self):
        self.paths = 0; self.infeasible = 0; self.solver_calls = 0; self.solver_time = 0.0
        self.obligations = 0; self.steps = 0
        self.violations = []     # dicts: msg, kind, witness, prefix
        self.known = {}          # known-finding id -> count of counterexamples attributed to it
        self.unsupported = []    # messages
        self.classes = {}        # coverage class -> paths
        self.samples = []
        self.exhaustive = False
        self.left = 0
        self.wall = 0.0
        self.fn_hits = {}; self.model_hits = {}
        self.max_decisions = 0

    def merge(self, o):
        self.paths += o.paths; self.infeasible += o.infeasible; self.solver_calls += o.solver_calls
        self.solver_time += o.solver_time; self.obligations += o.obligations; self.steps += o.steps
        self.violations.extend(o.violations); self.unsupported.extend(o.unsupported)
        for k, v in o.known.items(): self.known[k] = self.known.get(k, 0) + v
        for k, v in o.classes.items(): self.classes[k] = self.classes.get(k, 0) + v
        for k, v in o.fn_hits.items(): self.fn_hits[k] = self.fn_hits.get(k, 0) + v
        for k, v in o.model_hits.items(): self.model_hits[k] = self.model_hits.get(k, 0) + v
        if len(self.samples) < 8: self.samples.extend(o.samples[:8 - len(self.samples)])
        self.max_decisions = max(self.max_decisions, o.max_decisions)


def witness_of(ctx, model=None):
    m = model
    if m is None:
        if ctx.solver.check() != z3.sat: return None
        m = ctx.solver.model()
    out = {}
    for name, var in ctx.vars.items():
        v = m.eval(var, model_completion=True)
        if z3.is_bool(v): out[name] = z3.is_true(v)
        else: out[name] = v.as_long()
    return out


def run_one(harness, prefix, res, interp=None, want_sample=False):
    ctx = Ctx(prefix)
    try:
        harness(ctx)
        res.paths += 1
        for c in ctx.classes: res.classes[c] = res.classes.get(c, 0) + 1
        if want_sample and len(res.samples) < 8:
            w = witness_of(ctx)
            if w is not None: res.samples.append({'witness': w, 'classes': sorted(ctx.classes), 'decisions': len(ctx.taken)})
    except Infeasible:
        res.infeasible += 1
    except Violation as v:
        res.paths += 1
        for c in ctx.classes: res.classes[c] = res.classes.get(c, 0) + 1
        vd = {'msg': str(v), 'kind': v.kind, 'witness': witness_of(ctx, ctx.last_model if getattr(v, 'use_last_model', False) else None),
              'classes': sorted(ctx.classes), 'notes': list(ctx.notes)}
        kid = _G['classify'](vd) if _G.get('classify') else None
        if kid is not None: res.known[kid] = res.known.get(kid, 0) + 1
        else: res.violations.append(vd)
    except Unsupported as u:
        res.unsupported.append(str(u))
        if os.environ.get('MIRSYM_DEBUG'):
            traceback.print_exc(); print('witness', witness_of(ctx))
    except z3.Z3Exception as e:
        res.unsupported.append('z3: ' + str(e))
    except RecursionError:
        res.unsupported.append('python recursion limit')
    except Panic as p:
        res.unsupported.append('panic outside a harness guard: ' + str(p))
    except Exception as e:
        if os.environ.get('MIRSYM_DEBUG'):
            traceback.print_exc(); print('witness', witness_of(ctx))
        res.unsupported.append('internal error of the encoder: ' + ''.join(traceback.format_exception_only(type(e), e)).strip() + ' @ ' + traceback.format_tb(e.__traceback__)[-1].strip().replace('\n', ' '))
    res.solver_calls += ctx.nsolver; res.solver_time += ctx.solver_time
    res.obligations += ctx.obligations; res.steps += ctx.steps
    res.max_decisions = max(res.max_decisions, len(ctx.taken))
    return ctx.alts


_G = {}


def run_one_isolated(harness, prefix, res, interp=None, want_sample=False):
    """run one path in a forked child: whatever the path mutates in process-wide state (a pre-built heap shared by all
    paths, statics) is discarded with the child"""
    import pickle
    r, w = os.pipe()
    pid = os.fork()
    if pid == 0:
        code = 0
        try:
            os.close(r)
            sub = Result()
            if interp is not None: interp.fn_hits = {}; interp.model_hits = {}
            alts = run_one(harness, prefix, sub, interp, want_sample)
            if interp is not None: sub.fn_hits = dict(interp.fn_hits); sub.model_hits = dict(interp.model_hits)
            with os.fdopen(w, 'wb') as f: pickle.dump((sub, alts), f)
        except BaseException:
            code = 1
        finally:
            os._exit(code)
    os.close(w)
    with os.fdopen(r, 'rb') as f: data = f.read()
    os.waitpid(pid, 0)
    if not data:
        res.unsupported.append('isolated path died without a result'); return []
    sub, alts = pickle.loads(data)
    fh, mh = sub.fn_hits, sub.model_hits
    sub.fn_hits = {}; sub.model_hits = {}
    res.merge(sub)
    if interp is not None:
        for k, v in fh.items(): interp.fn_hits[k] = interp.fn_hits.get(k, 0) + v
        for k, v in mh.items(): interp.model_hits[k] = interp.model_hits.get(k, 0) + v
    return alts


def _worker(args):
    prefixes, chunk, vcap = args
    harness = _G['harness']; interp = _G.get('interp')
    res = Result()
    if interp is not None:
        interp.fn_hits = {}; interp.model_hits = {}
    stack = list(prefixes)
    t0 = time.time()
    n = 0
    while stack and n < chunk and time.time() - t0 < 6 and len(res.violations) < vcap and not res.unsupported:
        p = stack.pop()
        stack.extend((run_one_isolated if _G.get('isolate') else run_one)(harness, p, res, interp, want_sample=(n % 7 == 0)))
        n += 1
    if interp is not None:
        res.fn_hits = dict(interp.fn_hits); res.model_hits = dict(interp.model_hits)
    return res, stack


def explore(harness, interp=None, workers=None, time_cap=None, vcap=20, chunk=64, max_paths=None, verbose=False, classify=None, isolate=False):
    """explore all paths of `harness`.  Returns Result."""
    sys.setrecursionlimit(20000)
    workers = workers or int(os.environ.get('MIRSYM_WORKERS', str(min(16, os.cpu_count() or 1))))
    total = Result()
    t0 = time.time()
    work = [[]]
    _G['classify'] = classify; _G['isolate'] = isolate
    if workers <= 1:
        if interp is not None:
            interp.fn_hits = {}; interp.model_hits = {}
        n = 0
        while work:
            if time_cap and time.time() - t0 > time_cap: break
            if len(total.violations) >= vcap or total.unsupported: break
            if max_paths and total.paths >= max_paths: break
            p = work.pop()
            work.extend((run_one_isolated if isolate else run_one)(harness, p, total, interp, want_sample=(n % 7 == 0)))
            n += 1
        if interp is not None:
            total.fn_hits = dict(interp.fn_hits); total.model_hits = dict(interp.model_hits)
    else:
        _G['harness'] = harness; _G['interp'] = interp
        ctxm = mp.get_context('fork')
        with ctxm.Pool(workers) as pool:
            pending = []
            stop = False
            while (work or pending) and not stop:
                # hand out work: split the list into up to `workers` batches
                while work and len(pending) < workers * 2:
                    k = max(1, min(len(work) // max(1, (workers * 2 - len(pending))), 8))
                    batch = [work.pop() for _ in range(min(k, len(work)))]
                    # while there is little work to share, return alternatives to the master after every few paths
                    starving = len(work) + len(pending) < workers * 3
                    pending.append(pool.apply_async(_worker, ((batch, 2 if starving else chunk, vcap),)))
                done = [p for p in pending if p.ready()]
                if not done:
                    time.sleep(0.005)
                else:
                    for p in done:
                        pending.remove(p)
                        res, left = p.get()
                        total.merge(res); work.extend(left)
                if time_cap and time.time() - t0 > time_cap: stop = True
                if len(total.violations) >= vcap or total.unsupported: stop = True
                if max_paths and total.paths >= max_paths: stop = True
                if verbose and done:
                    print(f'\r  paths={total.paths} work={len(work)} pending={len(pending)} viol={len(total.violations)} t={time.time()-t0:.0f}s', end='', file=sys.stderr)
            if stop:
                for p in pending:
                    try:
                        res, left = p.get(timeout=60)
                        total.merge(res); work.extend(left)
                    except Exception:
                        pass
            pool.terminate()
        if verbose: print(file=sys.stderr)
    total.left = len(work)
    total.exhaustive = (not work) and not total.unsupported and len(total.violations) < vcap
    total.wall = time.time() - t0
    return total
