"""More std models: formatting (`format!`, Display/ToString), additional str / iterator adaptors."""
import re
import z3
from .util import *
from .values import *
from .interp import ordering
from .models import (M, model, utf8_decode, utf8_encode, utf8_width, str_bytes, decode_all, it_next, to_iter, ListIt, values_eq,
                     lt_const, CharsIt, MapIt, py_str)


# ------------------------------------------------------------------ formatting
class Opaque:
    """a value whose content the encoder does not know (e.g. a Debug rendering); inspecting it is Unsupported"""
    def __init__(self, why): self.why = why
    def __repr__(self): return f'Opaque({self.why})'


def display_into(I, ctx, sink, v, raw_ty=''):
    """append the Display rendering of value v to sink (list of BV8); returns False if unknown"""
    v0 = deref(v)
    if isinstance(v0, Opaque): return False
    if isinstance(v0, StrV): sink.extend(v0.b); return True
    if isinstance(v0, SliceV) and v0.is_str: sink.extend(v0.items()); return True
    if isinstance(v0, BV):
        if raw_ty.endswith('char') or (v0.bits == 32 and raw_ty == '' and False):
            sink.extend(utf8_encode(ctx, v0)); return True
        if v0.conc():
            sink.extend(BV(b, 8) for b in str(v0.sval() if v0.signed else v0.e).encode()); return True
        if 'char' in raw_ty:
            sink.extend(utf8_encode(ctx, v0)); return True
        return False
    if isinstance(v0, bool):
        sink.extend(BV(b, 8) for b in (b'true' if v0 else b'false')); return True
    if isinstance(v0, Agg) and v0.name == 'ParseFloatError':
        sink.extend(BV(c, 8) for c in (b'cannot parse float from empty string' if v0.fields[0] else b'invalid float literal')); return True
    if isinstance(v0, Agg) and v0.name not in ('tuple', 'f64', 'Option', 'OpaqueFmt'):
        fm = Agg('Formatter', [sink, True])
        tgt = I.resolve_static(ctx.cur_crate, f'<{v0.name} as Display>::fmt') or I.resolve_static(ctx.cur_crate, f'<{v0.name} as std::fmt::Display>::fmt')
        if tgt is None or tgt[0] != 'fn': return False
        r = I.call_fn(ctx, tgt[1], [ValRef(v0), ValRef(fm)])
        return fm.fields[1]
    return False


@model('re:^core::fmt::rt::Argument::new_(display|debug|lower_hex|upper_hex)$')
def _(I, ctx, v):
    kind = ctx.cur_key.rsplit('_', 1)[1] if not ctx.cur_key.endswith('hex') else 'hex'
    raw = ctx.cur_raw
    ty = raw[raw.rindex('::<') + 3:-1] if '::<' in raw else ''
    return Agg('FmtArg', [kind, ty, v])
@model('re:^(core::fmt::|std::fmt::)?Arguments::new$')
def _(I, ctx, template, args):
    return Agg('FmtArgs', [seq_items(template), seq_items(args)])
@model('re:^(core::fmt::|std::fmt::)?Arguments::(from_str|new_const|from_str_nonconst)$')
def _(I, ctx, s):
    return Agg('FmtArgs', [None, [], deref(s)])


def render_args(I, ctx, fa, sink):
    """-> True if fully rendered"""
    fa = deref(fa)
    if not isinstance(fa, Agg) or fa.name != 'FmtArgs': return False
    if fa.fields[0] is None:
        sink.extend(str_bytes(fa.fields[2])); return True
    t = [ctx.concretize(b) for b in fa.fields[0]]
    args = fa.fields[1]; i = 0; nxt = 0; ok = True
    while i < len(t):
        b = t[i]
        if b == 0: break
        if b < 0x80:
            sink.extend(BV(x, 8) for x in t[i + 1:i + 1 + b]); i += 1 + b
        elif b == 0x80:
            n = t[i + 1] | (t[i + 2] << 8)
            sink.extend(BV(x, 8) for x in t[i + 3:i + 3 + n]); i += 3 + n
        elif b == 0xC0:
            a = args[nxt]; nxt += 1; i += 1
            if a.fields[0] != 'display' or not display_into(I, ctx, sink, a.fields[2], a.fields[1]): ok = False
        elif b == 0xC8:
            # placeholder with an explicit argument index (an argument that is used twice)
            k = t[i + 1] | (t[i + 2] << 8); i += 3
            if k >= len(args): return False
            a = args[k]
            if a.fields[0] != 'display' or not display_into(I, ctx, sink, a.fields[2], a.fields[1]): ok = False
        else:
            return False
    return ok


@model('std::fmt::format', 'alloc::fmt::format', 'format', 're:^(alloc|std)::fmt::format::format_inner$')
def _(I, ctx, fa):
    sink = []
    if render_args(I, ctx, fa, sink): return StrV(sink)
    return Opaque('format! with Debug / options / symbolic numbers')
@model('re:^(core::fmt::|std::fmt::)?Formatter::write_str$', 're:^<(core::fmt::|std::fmt::)?Formatter<?.*>? as (std::fmt::|core::fmt::)?Write>::write_str$')
def _(I, ctx, f, s):
    deref(f).fields[0].extend(str_bytes(s)); return OK(UNIT)
@model('re:^(core::fmt::|std::fmt::)?Formatter::write_fmt$', 're:^<(core::fmt::|std::fmt::)?Formatter<?.*>? as (std::fmt::|core::fmt::)?Write>::write_fmt$')
def _(I, ctx, f, fa):
    fm = deref(f)
    if not render_args(I, ctx, fa, fm.fields[0]): fm.fields[1] = False
    return OK(UNIT)
@model('re:^<(core::fmt::|std::fmt::)?Formatter<?.*>? as (std::fmt::|core::fmt::)?Write>::write_char$', 're:^(core::fmt::|std::fmt::)?Formatter::write_char$')
def _(I, ctx, f, c):
    deref(f).fields[0].extend(utf8_encode(ctx, c)); return OK(UNIT)
@model('re:^<(str|std::string::String|&str|&std::string::String) as (std::fmt::)?Display>::fmt$')
def _(I, ctx, s, f):
    deref(f).fields[0].extend(str_bytes(s)); return OK(UNIT)
@model('re:^<char as (std::fmt::)?Display>::fmt$')
def _(I, ctx, c, f):
    deref(f).fields[0].extend(utf8_encode(ctx, deref(c))); return OK(UNIT)
@model('re:^<(u8|u16|u32|u64|usize|i32|i64|isize) as (std::fmt::)?Display>::fmt$')
def _(I, ctx, v, f):
    fm = deref(f)
    if not display_into(I, ctx, fm.fields[0], v): fm.fields[1] = False
    return OK(UNIT)
@model('re:^<.* as (std::fmt::|core::fmt::)?Debug>::fmt$')
def _(I, ctx, v, f):
    deref(f).fields[1] = False; return OK(UNIT)
@model('re:^<.* as (std::string::)?ToString>::to_string$')
def _(I, ctx, v):
    sink = []
    if display_into(I, ctx, sink, v): return StrV(sink)
    return Opaque('to_string of ' + repr(deref(v))[:40])
@model('re:^(std::fmt::|core::fmt::)?Formatter::(debug_struct|debug_tuple|debug_list|pad|pad_integral|debug_struct_field\\d_finish|debug_tuple_field\\d_finish)$')
def _(I, ctx, f, *a):
    deref(f).fields[1] = False; return OK(UNIT)


# ------------------------------------------------------------------ str
@model('core::str::<impl str>::char_indices')
def _(I, ctx, r):
    b = list(str_bytes(r)); out = []; i = 0
    while i < len(b):
        c, n = utf8_decode(ctx, b, i); out.append(TUPLE(BV(i, 64), c)); i += n
    return ListIt(out)
@model('core::str::<impl str>::bytes')
def _(I, ctx, r): return ListIt(list(str_bytes(r)))
@model('re:^<str as (std::ops::)?Index<(std::ops::)?Range\\w*(<usize>)?>>::index$', 're:^core::str::traits::<impl (std::ops::)?Index<.*> for str>::index$',
       're:^<(std::string::)?String as (std::ops::)?Index<(std::ops::)?Range\\w*(<usize>)?>>::index$')
def _str_index(I, ctx, s, rng):
    from .models import _range_bounds
    b = str_bytes(s)
    lo, hi = _range_bounds(ctx, rng, len(b), 'str')
    for k in (lo, hi):
        if k < len(b) and ctx.branch(z3.And(z3.UGE(b[k].z(), 0x80), z3.ULT(b[k].z(), 0xC0)) if not b[k].conc() else 0x80 <= b[k].e < 0xC0):
            raise Panic('byte index is not a char boundary')
    return ValRef(StrV(list(b[lo:hi])))
@model('core::str::<impl str>::get')
def _(I, ctx, s, rng):
    try: return SOME(_str_index(I, ctx, s, rng))
    except Panic: return NONE()
@model('re:^<str as PartialEq>::(eq|ne)$', 're:^<(std::string::)?String as PartialEq(<.*>)?>::(eq|ne)$', 're:^<&*(mut )?(str|std::string::String|\\[u8\\]|Vec<u8>) as PartialEq(<.*>)?>::(eq|ne)$',
       're:^<\\[u8\\] as PartialEq>::(eq|ne)$', 're:^<Vec<u8> as PartialEq(<.*>)?>::(eq|ne)$', 're:^core::slice::cmp::<impl PartialEq<.*> for \\[.*\\]>::(eq|ne)$',
       're:^core::str::traits::<impl PartialEq for str>::(eq|ne)$', 're:^<&\\[u8\\] as PartialEq>::(eq|ne)$')
def _(I, ctx, a, b):
    xa, xb = seq_items(deref(a)) if not isinstance(deref(a), StrV) else deref(a).b, seq_items(deref(b)) if not isinstance(deref(b), StrV) else deref(b).b
    r = values_eq(I, ctx, list(xa), list(xb))
    return b_not(r) if ctx.cur_key.endswith('::ne') else r


def _pattern_matcher(ctx, pat):
    """-> function(char BV) -> bool-ish for a char / [char; N] / closure pattern"""
    p = deref(pat)
    if isinstance(p, BV): return lambda c: bv_eq(c, p)
    if isinstance(p, list):
        def f(c):
            r = False
            for q in p: r = b_or(r, bv_eq(c, q))
            return r
        return f
    raise Unsupported('pattern ' + repr(p)[:40])


@model('core::str::<impl str>::split_inclusive')
def _(I, ctx, s, pat):
    m = _pattern_matcher(ctx, pat); out = []; cur = []
    for c in decode_all(ctx, s):
        cur.extend(utf8_encode(ctx, c))
        if ctx.branch(m(c)):
            out.append(ValRef(StrV(cur))); cur = []
    if cur: out.append(ValRef(StrV(cur)))
    return ListIt(out)
@model('core::str::<impl str>::split')
def _(I, ctx, s, pat):
    m = _pattern_matcher(ctx, pat); out = []; cur = []
    for c in decode_all(ctx, s):
        if ctx.branch(m(c)):
            out.append(ValRef(StrV(cur))); cur = []
        else:
            cur.extend(utf8_encode(ctx, c))
    out.append(ValRef(StrV(cur)))
    return ListIt(out)
@model('core::str::<impl str>::lines')
def _(I, ctx, s):
    out = []; cur = []
    cs = decode_all(ctx, s)
    for c in cs:
        if ctx.branch(bv_is(c, 10)):
            if cur and ctx.branch(bv_is(cur[-1], 13)): cur = cur[:-1]
            out.append(cur); cur = []
        else:
            cur.append(c)
    if cur: out.append(cur)
    res = []
    for l in out:
        b = []
        for c in l: b.extend(utf8_encode(ctx, c))
        res.append(ValRef(StrV(b)))
    return ListIt(res)
@model('core::str::<impl str>::find', 'core::str::<impl str>::rfind')
def _(I, ctx, s, pat):
    m = _pattern_matcher(ctx, pat); b = list(str_bytes(s)); i = 0; found = None
    while i < len(b):
        c, n = utf8_decode(ctx, b, i)
        if ctx.branch(m(c)):
            found = i
            if ctx.cur_key.endswith('::find'): break
        i += n
    return NONE() if found is None else SOME(BV(found, 64))
@model('core::str::<impl str>::contains')
def _(I, ctx, s, pat):
    p = deref(pat)
    if isinstance(p, (StrV, SliceV)):
        a, b = list(str_bytes(s)), list(str_bytes(p))
        for i in range(len(a) - len(b) + 1):
            if ctx.branch(values_eq(I, ctx, a[i:i + len(b)], b)): return True
        return False
    m = _pattern_matcher(ctx, pat)
    for c in decode_all(ctx, s):
        if ctx.branch(m(c)): return True
    return False
@model('core::str::<impl str>::is_char_boundary')
def _(I, ctx, s, idx):
    b = str_bytes(s); i = ctx.concretize(idx)
    if i == 0 or i == len(b): return True
    if i > len(b): return False
    return b_not((0x80 <= b[i].e < 0xC0) if b[i].conc() else z3.And(z3.UGE(b[i].z(), 0x80), z3.ULT(b[i].z(), 0xC0)))
@model('core::str::<impl str>::trim_end_matches', 'core::str::<impl str>::trim_start_matches')
def _(I, ctx, s, pat):
    m = _pattern_matcher(ctx, pat); cs = decode_all(ctx, s)
    if ctx.cur_key.endswith('trim_end_matches'):
        while cs and ctx.branch(m(cs[-1])): cs.pop()
    else:
        while cs and ctx.branch(m(cs[0])): cs.pop(0)
    b = []
    for c in cs: b.extend(utf8_encode(ctx, c))
    return ValRef(StrV(b))
@model('core::str::<impl str>::encode_utf16')
def _(I, ctx, s):
    out = []
    for c in decode_all(ctx, s):
        if ctx.branch(lt_const(ctx, c, 0x10000)):
            out.append(BV(c.e, 16) if c.conc() else BV(z3.Extract(15, 0, c.e), 16))
        else:
            v = BV(c.e - 0x10000, 32) if c.conc() else BV(c.e - 0x10000, 32)
            hi = BV(0xD800 + (v.e >> 10), 16) if v.conc() else BV(z3.Extract(15, 0, z3.LShR(v.e, 10)) + 0xD800, 16)
            lo = BV(0xDC00 + (v.e & 0x3FF), 16) if v.conc() else BV((z3.Extract(15, 0, v.e) & 0x3FF) + 0xDC00, 16)
            out.extend([hi, lo])
    return ListIt(out)
@model('re:^(std::string::)?String::from_utf16$')
def _(I, ctx, v):
    units = seq_items(v); b = []; i = 0
    while i < len(units):
        u = units[i]
        is_hi = (0xD800 <= u.e < 0xDC00) if u.conc() else z3.And(z3.UGE(u.z(), 0xD800), z3.ULT(u.z(), 0xDC00))
        is_lo = (0xDC00 <= u.e < 0xE000) if u.conc() else z3.And(z3.UGE(u.z(), 0xDC00), z3.ULT(u.z(), 0xE000))
        if ctx.branch(is_hi):
            if i + 1 >= len(units): return ERR(Agg('FromUtf16Error', []))
            w = units[i + 1]
            lo2 = (0xDC00 <= w.e < 0xE000) if w.conc() else z3.And(z3.UGE(w.z(), 0xDC00), z3.ULT(w.z(), 0xE000))
            if not ctx.branch(lo2): return ERR(Agg('FromUtf16Error', []))
            if u.conc() and w.conc(): c = BV(0x10000 + ((u.e - 0xD800) << 10) + (w.e - 0xDC00), 32)
            else: c = BV(z3.BitVecVal(0x10000, 32) + ((z3.ZeroExt(16, u.z()) - 0xD800) << 10) + (z3.ZeroExt(16, w.z()) - 0xDC00), 32)
            b.extend(utf8_encode(ctx, c)); i += 2
        elif ctx.branch(is_lo):
            return ERR(Agg('FromUtf16Error', []))
        else:
            c = BV(u.e, 32) if u.conc() else BV(z3.ZeroExt(16, u.e), 32)
            b.extend(utf8_encode(ctx, c)); i += 1
    return OK(StrV(b))
@model('re:^(std::string::)?String::(pop)$')
def _(I, ctx, r):
    s = deref(r); cs = decode_all(ctx, s)
    if not cs: return NONE()
    w = len(utf8_encode(ctx, cs[-1])); del s.b[len(s.b) - w:]
    return SOME(cs[-1])
@model('re:^(std::string::)?String::truncate$')
def _(I, ctx, r, n):
    s = deref(r); k = ctx.concretize(n)
    if k < len(s.b): del s.b[k:]
    return UNIT
@model('re:^(std::string::)?String::insert$')
def _(I, ctx, r, idx, c):
    s = deref(r); k = ctx.concretize(idx); s.b[k:k] = utf8_encode(ctx, c); return UNIT
@model('re:^(std::string::)?String::insert_str$')
def _(I, ctx, r, idx, t):
    s = deref(r); k = ctx.concretize(idx); s.b[k:k] = list(str_bytes(t)); return UNIT
@model('re:^<(std::string::)?String as (std::ops::)?(Add|AddAssign)<&str>>::(add|add_assign)$')
def _(I, ctx, a, b):
    if ctx.cur_key.endswith('add_assign'):
        deref(a).b.extend(str_bytes(b)); return UNIT
    a.b.extend(str_bytes(b)); return a
@model('re:^<(std::string::)?String as Extend<char>>::extend$', 're:^<(std::string::)?String as FromIterator<char>>::from_iter$')
def _(I, ctx, *a):
    if ctx.cur_key.endswith('from_iter'):
        s = StrV([]); it = to_iter(I, ctx, a[0])
    else:
        s = deref(a[0]); it = to_iter(I, ctx, a[1])
    while True:
        o = it_next(I, ctx, it)
        if o.variant == 'None': break
        s.b.extend(utf8_encode(ctx, deref(o.fields[0])))
    return s if ctx.cur_key.endswith('from_iter') else UNIT
@model('re:^(std|core)::char::methods::<impl char>::(is_ascii_digit|is_ascii_alphabetic|is_ascii_alphanumeric|is_ascii_whitespace|is_ascii|is_whitespace|is_ascii_uppercase|is_ascii_lowercase)$',
       're:^char::methods::<impl char>::(is_ascii_digit|is_ascii_alphabetic|is_ascii_alphanumeric|is_ascii_whitespace|is_ascii|is_whitespace|is_ascii_uppercase|is_ascii_lowercase)$',
       're:^(?:core|std)::num::<impl u8>::(is_ascii_digit|is_ascii_alphabetic|is_ascii_alphanumeric|is_ascii_whitespace|is_ascii|is_ascii_uppercase|is_ascii_lowercase)$')
def _(I, ctx, c):
    c = deref(c); what = ctx.cur_key.rsplit('::', 1)[1]
    def rng(lo, hi): return (lo <= c.e <= hi) if c.conc() else z3.And(z3.UGE(c.z(), lo), z3.ULE(c.z(), hi))
    def one(k): return bv_is(c, k)
    dig = rng(0x30, 0x39); up = rng(0x41, 0x5A); lo = rng(0x61, 0x7A)
    if what == 'is_ascii_digit': return dig
    if what == 'is_ascii_uppercase': return up
    if what == 'is_ascii_lowercase': return lo
    if what == 'is_ascii_alphabetic': return b_or(up, lo)
    if what == 'is_ascii_alphanumeric': return b_or(dig, b_or(up, lo))
    if what == 'is_ascii': return rng(0, 0x7F)
    ws = b_or(one(0x20), b_or(one(9), b_or(one(10), b_or(one(12), one(13)))))
    if what == 'is_ascii_whitespace': return ws
    if what == 'is_whitespace':
        r = b_or(ws, one(11))
        for k in (0x85, 0xA0, 0x1680, 0x2028, 0x2029, 0x202F, 0x205F, 0x3000): r = b_or(r, one(k))
        return b_or(r, rng(0x2000, 0x200A))
    raise Unsupported(what)
@model('re:^(core::)?char::methods::<impl char>::(to_ascii_lowercase|to_ascii_uppercase)$', 're:^(?:core|std)::num::<impl u8>::(to_ascii_lowercase|to_ascii_uppercase)$')
def _(I, ctx, c):
    c = deref(c); lower = ctx.cur_key.endswith('lowercase')
    lo, hi = (0x41, 0x5A) if lower else (0x61, 0x7A)
    if c.conc(): return BV(c.e ^ 0x20 if lo <= c.e <= hi else c.e, c.bits)
    return BV(z3.If(z3.And(z3.UGE(c.z(), lo), z3.ULE(c.z(), hi)), c.z() ^ 0x20, c.z()), c.bits)
@model('re:^(core::)?char::methods::<impl char>::from_u32$', 'char::from_u32', 'std::char::from_u32', 'core::char::from_u32')
def _(I, ctx, v):
    ok = z3.And(z3.ULE(v.z(), 0x10FFFF), z3.Or(z3.ULT(v.z(), 0xD800), z3.UGT(v.z(), 0xDFFF))) if not v.conc() else (v.e <= 0x10FFFF and not 0xD800 <= v.e <= 0xDFFF)
    return SOME(v) if ctx.branch(ok) else NONE()
@model('re:^<char as From<u8>>::from$')
def _(I, ctx, v): return BV(v.e, 32) if v.conc() else BV(z3.ZeroExt(24, v.e), 32)
@model('re:^<u32 as From<char>>::from$')
def _(I, ctx, v): return v
@model('re:^<(u32|u64|usize|i32|i64) as TryFrom<.*>>::try_from$', 're:^core::convert::num::<impl TryFrom<.*> for .*>::try_from$')
def _(I, ctx, v):
    raw = ctx.cur_raw
    m = re.search(r'impl TryFrom<(\w+)> for (\w+)>', raw) or re.search(r'^<(\w+) as TryFrom<(\w+)>>', raw)
    if not m: raise Unsupported('try_from ' + raw)
    src, dst = (m.group(1), m.group(2)) if 'impl TryFrom' in raw else (m.group(2), m.group(1))
    tb = INT_BITS[dst]; tsg = dst in SIGNED
    r = I.cast_int(v, dst)
    back = I.cast_int(r, src)
    same = bv_eq(back, v)
    if tsg != v.signed:
        nonneg_v = (v.sval() >= 0) if v.conc() else ((v.z() >= 0) if v.signed else True)
        nonneg_r = (r.sval() >= 0) if r.conc() else ((r.z() >= 0) if r.signed else True)
        same = b_and(same, b_and(nonneg_v if v.signed else True, nonneg_r if r.signed else True))
    return OK(r) if ctx.branch(same) else ERR(Agg('TryFromIntError', []))


# ------------------------------------------------------------------ iterator adaptors (eager)
def _drain(I, ctx, it):
    it = to_iter(I, ctx, it); out = []
    while True:
        o = it_next(I, ctx, it)
        if o.variant == 'None': return out
        out.append(o.fields[0])
@model('re:^<.* as (std::iter::)?Iterator>::nth$')
def _(I, ctx, it, n):
    it0 = to_iter(I, ctx, it); i = 0
    while True:
        o = it_next(I, ctx, it0)
        if o.variant == 'None': return o
        if ctx.branch(bv_is(n, i)): return o
        i += 1
@model('re:^<.* as (std::iter::)?Iterator>::skip$')
def _(I, ctx, it, n):
    xs = _drain(I, ctx, it)
    for i in range(len(xs)):
        if ctx.branch(bv_is(n, i)): return ListIt(xs[i:])
    return ListIt([])
@model('re:^<.* as (std::iter::)?Iterator>::take$')
def _(I, ctx, it, n):
    it0 = to_iter(I, ctx, it); out = []
    while True:
        if ctx.branch(bv_is(n, len(out))): break
        o = it_next(I, ctx, it0)
        if o.variant == 'None': break
        out.append(o.fields[0])
    return ListIt(out)
@model('re:^<.* as (std::iter::)?Iterator>::(filter)$')
def _(I, ctx, it, f):
    return ListIt([x for x in _drain(I, ctx, it) if ctx.branch(I.call_value(ctx, ctx.cur_crate, f, [ValRef(x)]))])
@model('re:^<.* as (std::iter::)?Iterator>::(filter_map)$')
def _(I, ctx, it, f):
    out = []
    for x in _drain(I, ctx, it):
        o = I.call_value(ctx, ctx.cur_crate, f, [x])
        if o.variant == 'Some': out.append(o.fields[0])
    return ListIt(out)
@model('re:^<.* as (std::iter::)?Iterator>::(take_while)$')
def _(I, ctx, it, f):
    it0 = to_iter(I, ctx, it); out = []
    while True:
        o = it_next(I, ctx, it0)
        if o.variant == 'None' or not ctx.branch(I.call_value(ctx, ctx.cur_crate, f, [ValRef(o.fields[0])])): break
        out.append(o.fields[0])
    return ListIt(out)
@model('re:^<.* as (std::iter::)?Iterator>::(skip_while)$')
def _(I, ctx, it, f):
    xs = _drain(I, ctx, it); i = 0
    while i < len(xs) and ctx.branch(I.call_value(ctx, ctx.cur_crate, f, [ValRef(xs[i])])): i += 1
    return ListIt(xs[i:])
@model('re:^<.* as (std::iter::)?Iterator>::(position)$')
def _(I, ctx, it, f):
    it0 = to_iter(I, ctx, it); i = 0
    while True:
        o = it_next(I, ctx, it0)
        if o.variant == 'None': return NONE()
        if ctx.branch(I.call_value(ctx, ctx.cur_crate, f, [o.fields[0]])): return SOME(BV(i, 64))
        i += 1
@model('re:^<.* as (std::iter::)?Iterator>::(find)$')
def _(I, ctx, it, f):
    it0 = to_iter(I, ctx, it)
    while True:
        o = it_next(I, ctx, it0)
        if o.variant == 'None': return NONE()
        if ctx.branch(I.call_value(ctx, ctx.cur_crate, f, [ValRef(o.fields[0])])): return o
@model('re:^<.* as (std::iter::)?Iterator>::(find_map)$')
def _(I, ctx, it, f):
    it0 = to_iter(I, ctx, it)
    while True:
        o = it_next(I, ctx, it0)
        if o.variant == 'None': return NONE()
        r = I.call_value(ctx, ctx.cur_crate, f, [o.fields[0]])
        if r.variant == 'Some': return r
@model('re:^<.* as (std::iter::)?Iterator>::(zip)$')
def _(I, ctx, a, b):
    xa, xb = _drain(I, ctx, a), _drain(I, ctx, b)
    return ListIt([TUPLE(x, y) for x, y in zip(xa, xb)])
@model('re:^<.* as (std::iter::)?Iterator>::(for_each)$')
def _(I, ctx, it, f):
    for x in _drain(I, ctx, it): I.call_value(ctx, ctx.cur_crate, f, [x])
    return UNIT
@model('re:^<.* as (std::iter::)?Iterator>::(flatten|flat_map)$')
def _(I, ctx, it, *f):
    out = []
    for x in _drain(I, ctx, it):
        if f: x = I.call_value(ctx, ctx.cur_crate, f[0], [x])
        out.extend(_drain(I, ctx, x))
    return ListIt(out)
@model('re:^<.* as (std::iter::)?Iterator>::(max|min)$')
def _(I, ctx, it):
    xs = _drain(I, ctx, it)
    if not xs: return NONE()
    best = xs[0]; mx = ctx.cur_key.endswith('max')
    for x in xs[1:]:
        lt = I.binop(ctx, 'Lt', deref(best), deref(x))
        if ctx.branch(lt) == mx or (mx and ctx.branch(values_eq(I, ctx, best, x))): best = x
    return SOME(best)
@model('re:^<.* as (std::iter::)?Iterator>::(size_hint)$')
def _(I, ctx, it): return TUPLE(BV(0, 64), NONE())
@model('re:^<.* as (std::iter::)?ExactSizeIterator>::len$')
def _(I, ctx, it):
    it0 = deref(it)
    def ln(x):
        if isinstance(x, ListIt): return x.j - x.i
        if isinstance(x, MapIt): return ln(x.it)          # map / cloned / copied keep the length
        if isinstance(x, EnumIt): return ln(x.it)
        if isinstance(x, RevIt): return ln(x.it)
        raise Unsupported('len of iterator ' + type(x).__name__)
    return BV(ln(it0), 64)
@model('re:^(std::iter::|core::iter::)?(repeat_n|repeat_n::<.*>)$', 'std::iter::repeat_n', 'core::iter::repeat_n')
def _(I, ctx, v, n): return ListIt([copy_value(v) for _ in range(ctx.concretize(n))])
@model('re:^(std::iter::|core::iter::)once$')
def _(I, ctx, v): return ListIt([v])
@model('re:^(std::iter::|core::iter::)empty$')
def _(I, ctx): return ListIt([])
@model('re:^(?:(?:core|std|alloc)::)?slice::<impl \\[.*\\]>::(split_at|split_at_mut)$')
def _(I, ctx, r, n):
    l, lo, hi = seq_view(r); k = ctx.concretize(n)
    if k > hi - lo: raise Panic('mid > len')
    return TUPLE(ValRef(SliceV(l, lo, lo + k)), ValRef(SliceV(l, lo + k, hi)))
@model('re:^(?:(?:core|std|alloc)::)?slice::<impl \\[.*\\]>::(split_first|split_last|split_first_mut|split_last_mut)$')
def _(I, ctx, r):
    l, lo, hi = seq_view(r)
    if hi == lo: return NONE()
    if 'split_first' in ctx.cur_key: return SOME(TUPLE(ElemRef(l, lo), ValRef(SliceV(l, lo + 1, hi))))
    return SOME(TUPLE(ElemRef(l, hi - 1), ValRef(SliceV(l, lo, hi - 1))))
@model('re:^(?:(?:core|std|alloc)::)?slice::<impl \\[.*\\]>::(ends_with)$')
def _(I, ctx, r, p):
    a, b = seq_items(r), seq_items(p)
    if len(b) > len(a): return False
    return ctx.branch(values_eq(I, ctx, a[len(a) - len(b):], b)) if b else True
@model('re:^(?:(?:core|std|alloc)::)?slice::<impl \\[.*\\]>::(reverse)$')
def _(I, ctx, r):
    l, lo, hi = seq_view(r); l[lo:hi] = l[lo:hi][::-1]; return UNIT
@model('re:^(?:(?:core|std|alloc)::)?slice::<impl \\[.*\\]>::(swap)$')
def _(I, ctx, r, a, b):
    l, lo, hi = seq_view(r); i, j = ctx.concretize(a), ctx.concretize(b)
    if i >= hi - lo or j >= hi - lo: raise Panic('index out of bounds')
    l[lo + i], l[lo + j] = l[lo + j], l[lo + i]; return UNIT
@model('re:^(?:(?:core|std|alloc)::)?slice::<impl \\[.*\\]>::(concat|join)$', 're:^alloc::slice::<impl \\[.*\\]>::(concat|join)$', 're:^std::slice::<impl \\[.*\\]>::(concat|join)$')
def _(I, ctx, r, *sep):
    out = []; first = True
    for x in seq_items(r):
        if not first and sep: out.extend(str_bytes(sep[0]))
        out.extend(str_bytes(x)); first = False
    return StrV(out)
@model('Vec::last_mut', 'Vec::first_mut')
def _(I, ctx, r):
    l, lo, hi = seq_view(r)
    if hi == lo: return NONE()
    return SOME(ElemRef(l, hi - 1 if ctx.cur_key.endswith('last_mut') else lo))
@model('Vec::retain', 'Vec::retain_mut')
def _(I, ctx, r, f):
    v = deref(r); keep = []
    for i, x in enumerate(v.items):
        if ctx.branch(I.call_value(ctx, ctx.cur_crate, f, [ElemRef(v.items, i)])): keep.append(x)
    v.items[:] = keep; return UNIT
@model('Vec::swap_remove')
def _(I, ctx, r, i):
    v = deref(r); k = ctx.concretize(i)
    if k >= len(v.items): raise Panic('swap_remove index out of bounds')
    x = v.items[k]; v.items[k] = v.items[-1]; v.items.pop(); return x
@model('Vec::reserve', 'Vec::shrink_to_fit', 're:^(std::string::)?String::(reserve|shrink_to_fit)$')
def _(I, ctx, *a): return UNIT
@model('Vec::resize')
def _(I, ctx, r, n, x):
    v = deref(r); k = ctx.concretize(n)
    if k < len(v.items): del v.items[k:]
    while len(v.items) < k: v.items.append(copy_value(x))
    return UNIT
@model('Vec::dedup')
def _(I, ctx, r):
    v = deref(r); out = []
    for x in v.items:
        if out and ctx.branch(values_eq(I, ctx, out[-1], x)): continue
        out.append(x)
    v.items[:] = out; return UNIT
@model('Vec::into_boxed_slice', 're:^<Box<\\[.*\\]> as From<Vec<.*>>>::from$', 're:^<Box<\\[.*\\]> as FromIterator<.*>>::from_iter$')
def _(I, ctx, v):
    if ctx.cur_key.endswith('from_iter'): return VecV(_drain(I, ctx, v))
    return v
@model('re:^<Vec<.*> as FromIterator<.*>>::from_iter$')
def _(I, ctx, it): return VecV(_drain(I, ctx, it))
@model('re:^<Vec<.*> as PartialEq(<.*>)?>::(eq|ne)$', 're:^<\\[.*\\] as PartialEq(<.*>)?>::(eq|ne)$')
def _(I, ctx, a, b):
    xa, xb = seq_items(a), seq_items(b)
    if len(xa) != len(xb): r = False
    else:
        r = True
        for x, y in zip(xa, xb):
            x0, y0 = deref(x), deref(y)
            if isinstance(x0, Agg) and x0.name not in ('tuple', 'Option'):
                e = I.call(ctx, ctx.cur_crate, f'<{x0.name} as PartialEq>::eq', [ValRef(x0), ValRef(y0)])
            else:
                e = values_eq(I, ctx, x0, y0)
            if not ctx.branch(e): r = False; break
    return b_not(r) if ctx.cur_key.endswith('::ne') else r


@model('re:^(std|core)::hint::must_use$', 'must_use')
def _(I, ctx, v): return v


# ------------------------------------------------------------------ VecDeque (same representation as Vec)
@model('re:^(std::collections::)?VecDeque::(new|with_capacity)$', 're:^<(std::collections::)?VecDeque<.*> as Default>::default$')
def _(I, ctx, *a): return VecV([])
@model('re:^(std::collections::)?VecDeque::pop_front$')
def _(I, ctx, r):
    v = deref(r); return SOME(v.items.pop(0)) if v.items else NONE()
@model('re:^(std::collections::)?VecDeque::pop_back$')
def _(I, ctx, r):
    v = deref(r); return SOME(v.items.pop()) if v.items else NONE()
@model('re:^(std::collections::)?VecDeque::push_back$')
def _(I, ctx, r, x): deref(r).items.append(x); return UNIT
@model('re:^(std::collections::)?VecDeque::push_front$')
def _(I, ctx, r, x): deref(r).items.insert(0, x); return UNIT
@model('re:^(std::collections::)?VecDeque::(front|front_mut)$')
def _(I, ctx, r):
    v = deref(r); return SOME(ElemRef(v.items, 0)) if v.items else NONE()
@model('re:^(std::collections::)?VecDeque::(back|back_mut)$')
def _(I, ctx, r):
    v = deref(r); return SOME(ElemRef(v.items, len(v.items) - 1)) if v.items else NONE()
@model('re:^(std::collections::)?VecDeque::(get|get_mut)$')
def _(I, ctx, r, idx):
    v = deref(r); n = len(v.items)
    if ctx.branch((idx.e < n) if idx.conc() else z3.ULT(idx.z(), n)):
        return SOME(ElemRef(v.items, ctx.concretize(idx)))
    return NONE()
@model('re:^(std::collections::)?VecDeque::len$')
def _(I, ctx, r): return BV(len(deref(r).items), 64)
@model('re:^(std::collections::)?VecDeque::is_empty$')
def _(I, ctx, r): return len(deref(r).items) == 0
@model('re:^(std::collections::)?VecDeque::(iter|iter_mut)$')
def _(I, ctx, r):
    v = deref(r); return ListIt([ElemRef(v.items, i) for i in range(len(v.items))])
@model('re:^<(std::collections::)?VecDeque<.*> as From<Vec<.*>>>::from$', 're:^<Vec<.*> as From<(std::collections::)?VecDeque<.*>>>::from$')
def _(I, ctx, v): return v
@model('re:^<(std::collections::)?VecDeque<.*> as FromIterator<.*>>::from_iter$')
def _(I, ctx, it): return VecV(_drain(I, ctx, it))
@model('re:^(std::option::)?Option::or$')
def _(I, ctx, a, b): return a if a.variant == 'Some' else b
@model('re:^(std::option::)?Option::(filter)$')
def _(I, ctx, o, f):
    if o.variant == 'None': return o
    return o if ctx.branch(I.call_value(ctx, ctx.cur_crate, f, [FieldRef(o, 0)])) else NONE()
@model('re:^(std::option::)?Option::(zip)$')
def _(I, ctx, a, b): return SOME(TUPLE(a.fields[0], b.fields[0])) if a.variant == 'Some' and b.variant == 'Some' else NONE()
@model('re:^(std::option::)?Option::(xor)$')
def _(I, ctx, a, b):
    if (a.variant == 'Some') != (b.variant == 'Some'): return a if a.variant == 'Some' else b
    return NONE()
@model('re:^(std::option::)?Option::(unwrap_unchecked)$')
def _(I, ctx, o): return o.fields[0]
@model('re:^(std::option::)?Option::(get_or_insert_with)$')
def _(I, ctx, r, f):
    o = deref(r)
    if o.variant == 'None':
        v = I.call_value(ctx, ctx.cur_crate, f, [])
        o.variant, o.vidx, o.fields = 'Some', 1, [v]
    return FieldRef(o, 0)
@model('re:^(std::option::)?Option::(insert)$')
def _(I, ctx, r, v):
    o = deref(r); o.variant, o.vidx, o.fields = 'Some', 1, [v]; return FieldRef(o, 0)
@model('re:^(std::option::)?Option::(replace)$')
def _(I, ctx, r, v):
    o = deref(r); old = Agg('Option', list(o.fields), o.variant, o.vidx)
    o.variant, o.vidx, o.fields = 'Some', 1, [v]; return old


@model('re:^<(?:Box|Rc|Arc|std::boxed::Box|std::rc::Rc|std::sync::Arc)<(.*)> as (PartialEq|PartialOrd|Ord|Eq)(<.*>)?>::(\\w+)$',
       're:^<&+(?:mut )?(.*) as (PartialEq|PartialOrd|Ord)(<.*>)?>::(\\w+)$')
def _fwd_cmp(I, ctx, a, b):
    m = re.match(r'^<(?:(?:std::\w+::)?(?:Box|Rc|Arc)<(.*)>|&+(?:mut )?(.*)) as (\w+)(<.*>)?>::(\w+)$', ctx.cur_key)
    inner = m.group(1) or m.group(2); trait = m.group(3); meth = m.group(5)
    a1 = deref1(a); b1 = deref1(b)
    if not isinstance(a1, Ref): a1 = ValRef(a1)
    if not isinstance(b1, Ref): b1 = ValRef(b1)
    key = f'<{inner} as {trait}>::{meth}'
    if I.resolve_static(ctx.cur_crate, key) is not None:
        return I.call(ctx, ctx.cur_crate, key, [a1, b1])
    if trait == 'PartialEq':
        r = values_eq(I, ctx, a1, b1)
        return b_not(r) if meth == 'ne' else r
    raise Unsupported('forwarded comparison ' + key)


@model('re:^<(.*) as PartialOrd(<.*>)?>::(lt|le|gt|ge)$')
def _(I, ctx, a, b):
    m = re.match(r'^<(.*) as PartialOrd(<.*>)?>::(\w+)$', ctx.cur_key)
    ty, op = m.group(1), m.group(3)
    a0, b0 = deref(a), deref(b)
    if isinstance(a0, BV):
        return I.binop(ctx, {'lt': 'Lt', 'le': 'Le', 'gt': 'Gt', 'ge': 'Ge'}[op], a0, b0)
    o = I.call(ctx, ctx.cur_crate, f'<{ty} as PartialOrd>::partial_cmp', [a, b])
    if o.variant == 'None': return False
    v = o.fields[0].variant
    return {'lt': v == 'Less', 'le': v in ('Less', 'Equal'), 'gt': v == 'Greater', 'ge': v in ('Greater', 'Equal')}[op]
@model('re:^<(.*) as Ord>::(max|min)$')
def _(I, ctx, a, b):
    m = re.match(r'^<(.*) as Ord>::(\w+)$', ctx.cur_key)
    o = I.call(ctx, ctx.cur_crate, f'<{m.group(1)} as Ord>::cmp', [ValRef(a), ValRef(b)])
    if m.group(2) == 'max': return a if o.variant == 'Greater' else b
    return b if o.variant == 'Greater' else a
@model('re:^<(std::cmp::)?Ordering as PartialEq>::(eq|ne)$')
def _(I, ctx, a, b):
    r = deref(a).variant == deref(b).variant
    return (not r) if ctx.cur_key.endswith('ne') else r
@model('re:^(std::cmp::)?Ordering::(is_lt|is_le|is_gt|is_ge|is_eq|is_ne)$')
def _(I, ctx, o):
    v = deref(o).variant; w = ctx.cur_key.rsplit('::', 1)[1]
    return {'is_lt': v == 'Less', 'is_le': v != 'Greater', 'is_gt': v == 'Greater', 'is_ge': v != 'Less', 'is_eq': v == 'Equal', 'is_ne': v != 'Equal'}[w]
@model('re:^(std::cmp::)?Ordering::(then|then_with|reverse)$')
def _(I, ctx, o, *r):
    w = ctx.cur_key.rsplit('::', 1)[1]
    if w == 'reverse': return ordering({'Less': 1, 'Equal': 0, 'Greater': -1}[o.variant])
    if o.variant != 'Equal': return o
    return r[0] if w == 'then' else I.call_value(ctx, ctx.cur_crate, r[0], [])


def default_of(I, ctx, ty):
    ty = ty.strip()
    base = re.sub(r'^(\w+::)+', '', ty.split('<')[0])
    inner = ty[ty.index('<') + 1:ty.rindex('>')] if '<' in ty else ''
    if base in ('RwLock', 'Mutex', 'RefCell', 'Cell'):
        args = split_top(inner)
        return Agg('CellLike', [default_of(I, ctx, args[-1] if base in ('RwLock', 'Mutex') and len(args) > 1 else args[0])])
    if base in ('HashMap', 'FnvHashMap', 'BTreeMap'): return HMap()
    if base in ('HashSet', 'FnvHashSet', 'BTreeSet'): return HSet()
    if base in ('Vec', 'VecDeque'): return VecV([])
    if base == 'String': return StrV([])
    if base == 'Option': return NONE()
    if base in ('Arc', 'Rc', 'Box'): return default_of(I, ctx, inner)
    if base in INT_BITS: return BV(0, INT_BITS[base], base in SIGNED)
    if base == 'bool': return False
    if ty == '()': return UNIT
    tgt = I.resolve_static(ctx.cur_crate, f'<{base} as Default>::default')
    if tgt is not None and tgt[0] == 'fn': return I.call_fn(ctx, tgt[1], [])
    raise Unsupported('Default::default for ' + ty)


from .models import HMap, HSet


@model('re:^<(.*) as (std::default::)?Default>::default$')
def _(I, ctx):
    m = re.match(r'^<(.*) as (std::default::)?Default>::default$', ctx.cur_raw if ctx.cur_raw.startswith('<') else ctx.cur_key)
    return default_of(I, ctx, m.group(1))


@model('re:^<(.*) as (std::convert::)?Into<(.*)>>::into$')
def _(I, ctx, v):
    m = re.match(r'^<(.*) as (?:std::convert::)?Into<(.*)>>::into$', ctx.cur_key)
    src, dst = m.group(1), m.group(2)
    if src == dst: return v
    key = f'<{dst} as From<{src}>>::from'
    tgt = I.resolve_static(ctx.cur_crate, key)
    if tgt is not None: return I.call(ctx, ctx.cur_crate, key, [v])
    if src in INT_BITS and dst in INT_BITS: return I.cast_int(v, dst)
    if re.match(r'^(std::num::|core::num::)?NonZero', src) or re.match(r'^(std::num::|core::num::)?NonZero', dst): return v
    if re.match(r'^(std::sync::atomic::)?Atomic', dst) or re.match(r'^(std::cell::)?(Cell|RefCell)<', dst): return Agg('CellLike', [v])
    if re.match(r'^(Box|Rc|Arc|std::\w+::(Box|Rc|Arc))<', dst): return v
    if dst.startswith(('String', 'std::string::String')) and src in ('&str', 'str'): return StrV(list(str_bytes(v)))
    if dst.startswith('Option<'): return SOME(v)
    raise Unsupported('Into::into ' + ctx.cur_key)
@model('re:^<(u16|u32|u64|usize|i32|i64|u128) as From<(u8|u16|u32|bool|char|i32)>>::from$')
def _(I, ctx, v):
    m = re.match(r'^<(\w+) as From<(\w+)>>::from$', ctx.cur_key)
    return I.cast_int(v, m.group(1))


@model('char::methods::<impl char>::encode_utf8')
def _(I, ctx, c, buf):
    bs = utf8_encode(ctx, c)
    l, lo, hi = seq_view(buf)
    for i, b in enumerate(bs): l[lo + i] = b
    return ValRef(SliceV(l, lo, lo + len(bs), True))
@model('re:^(std::result::)?Result::err$')
def _(I, ctx, r): return SOME(r.fields[0]) if r.variant == 'Err' else NONE()
@model('re:^(std::result::)?Result::(unwrap_or)$')
def _(I, ctx, r, d): return r.fields[0] if r.variant == 'Ok' else d
@model('re:^(std::result::)?Result::(unwrap_or_else)$')
def _(I, ctx, r, f): return r.fields[0] if r.variant == 'Ok' else I.call_value(ctx, ctx.cur_crate, f, [r.fields[0]])
@model('re:^(std::result::)?Result::(and_then)$')
def _(I, ctx, r, f): return I.call_value(ctx, ctx.cur_crate, f, [r.fields[0]]) if r.variant == 'Ok' else r
@model('core::str::<impl str>::parse')
def _(I, ctx, r):
    raw = ctx.cur_raw
    b = list(str_bytes(r))
    if 'f64' in raw or 'f32' in raw:
        # <f64 as FromStr>: success on the decimal forms the tokenizer lets through; the value is an uninterpreted function of the digit text
        def isdig(x): return ctx.branch((48 <= x.e <= 57) if x.conc() else z3.And(z3.UGE(x.e, 48), z3.ULE(x.e, 57)))
        i = 0; nd = 0
        while i < len(b) and isdig(b[i]): i += 1; nd += 1
        ok = nd > 0
        if i < len(b) and ctx.branch(bv_is(b[i], 46)):
            i += 1; nf = 0
            while i < len(b) and isdig(b[i]): i += 1; nf += 1
            ok = nd > 0 or nf > 0
        if ok and i == len(b): return OK(Agg('f64', [('parse', tuple(b))]))
        # leftover text: an error for every byte that cannot start an exponent / sign / inf / nan
        for x in b[i:] + (b[:1] if i == 0 else []):
            plain = z3.Or(z3.And(z3.UGE(x.z(), 48), z3.ULE(x.z(), 57)), x.z() == 46, z3.And(z3.UGE(x.z(), 97), z3.ULE(x.z(), 100)), x.z() == 102, x.z() == 95) if not x.conc() \
                else (48 <= x.e <= 57 or x.e in (46, 102, 95) or 97 <= x.e <= 100)
            if not ctx.branch(plain): raise Unsupported('f64 parse of text outside the modelled alphabet [0-9a-df._]')
        return ERR(Agg('ParseFloatError', [len(b) == 0]))
    m = re.search(r'parse::<(\w+)>', raw)
    if m and m.group(1) in INT_BITS:
        if all(x.conc() for x in b):
            try: return OK(BV(int(bytes(x.e for x in b).decode()), INT_BITS[m.group(1)], m.group(1) in SIGNED))
            except ValueError: return ERR(Agg('ParseIntError', []))
    raise Unsupported('str::parse ' + raw)
@model('re:^(std|core)::f64::<impl f64>::(powi|powf|sqrt|abs|floor|ceil)$', 're:^<f64 as (std::ops::)?(Mul|Add|Sub|Div)(<f64>)?>::(mul|add|sub|div)$')
def _(I, ctx, *a): return Agg('f64', [(ctx.cur_key.rsplit('::', 1)[1],) + tuple(a)])
@model('re:^<.* as (itertools::)?Itertools>::find_position$')
def _(I, ctx, it, f):
    it0 = to_iter(I, ctx, it); i = 0
    while True:
        o = it_next(I, ctx, it0)
        if o.variant == 'None': return NONE()
        if ctx.branch(I.call_value(ctx, ctx.cur_crate, f, [ValRef(o.fields[0])])): return SOME(TUPLE(BV(i, 64), o.fields[0]))
        i += 1
@model('re:^<.* as (itertools::)?Itertools>::(collect_vec)$')
def _(I, ctx, it): return VecV(_drain(I, ctx, it))
@model('re:^<.* as (itertools::)?Itertools>::(join)$')
def _(I, ctx, it, sep):
    out = []; first = True
    for x in _drain(I, ctx, it):
        if not first: out.extend(str_bytes(sep))
        first = False
        if not display_into(I, ctx, out, x): return Opaque('join of non-displayable')
    return StrV(out)
@model('core::str::<impl str>::trim', 'core::str::<impl str>::trim_start')
def _(I, ctx, s):
    cs = decode_all(ctx, s)
    def is_ws(c):
        ws = [0x20, 0x85, 0xA0, 0x1680, 0x2028, 0x2029, 0x202F, 0x205F, 0x3000]
        if c.conc(): return c.e in ws or 9 <= c.e <= 13 or 0x2000 <= c.e <= 0x200A
        return z3.Or([c.z() == w for w in ws] + [z3.And(z3.UGE(c.z(), 9), z3.ULE(c.z(), 13)), z3.And(z3.UGE(c.z(), 0x2000), z3.ULE(c.z(), 0x200A))])
    lo, hi = 0, len(cs)
    while lo < hi and ctx.branch(is_ws(cs[lo])): lo += 1
    if ctx.cur_key.endswith('::trim'):
        while hi > lo and ctx.branch(is_ws(cs[hi - 1])): hi -= 1
    b = []
    for c in cs[lo:hi]: b.extend(utf8_encode(ctx, c))
    return ValRef(StrV(b))


@model('re:^<impl (.*) as (.*)>::(\\w+)$')
def _(I, ctx, *args):
    m = re.match(r'^<impl (.*) as (.*)>::(\w+)$', ctx.cur_key)
    a0 = deref(args[0])
    if isinstance(a0, Agg) and not a0.name.startswith(('tuple', 'fnitem')):
        key = f'<{a0.name} as {m.group(2)}>::{m.group(3)}'
        if I.resolve_static(ctx.cur_crate, key) is not None:
            a = list(args)
            if not isinstance(a[0], Ref): a[0] = ValRef(a0)
            return I.call(ctx, ctx.cur_crate, key, a)
    tr = m.group(2).split('<')[0].split('::')[-1]
    if tr in ('AsRef', 'Borrow', 'Into', 'AsMut'): return args[0]
    raise Unsupported('dispatch on impl Trait argument: ' + ctx.cur_key)
@model('re:^<.* as (itertools::)?Itertools>::get$')
def _(I, ctx, it, rng):
    xs = _drain(I, ctx, it); n = len(xs); rng = deref1(rng)
    def clamp(v):
        if v.conc(): return min(v.e, n)
        for k in range(n):
            if ctx.branch(bv_is(v, k)): return k
        return n
    nm = rng.name
    if nm == 'Range': lo, hi = clamp(rng.fields[0]), clamp(rng.fields[1])
    elif nm == 'RangeFrom': lo, hi = clamp(rng.fields[0]), n
    elif nm == 'RangeTo': lo, hi = 0, clamp(rng.fields[0])
    elif nm == 'RangeFull': lo, hi = 0, n
    else: raise Unsupported('Itertools::get with ' + nm)
    return ListIt(xs[lo:hi] if lo <= hi else [])


# ------------------------------------------------------------------ file system as a nondeterministic environment
@model('re:^(std::fs::)?File::open$')
def _(I, ctx, path):
    data = getattr(ctx, 'env_file_bytes', None)
    if data is None: raise Unsupported('File::open without an environment provided by the harness')
    return OK(Agg('File', [list(data), 0]))
@model('re:^<(std::fs::)?File as (std::io::)?Read>::read_to_end$')
def _(I, ctx, f, buf):
    fl = deref(f); v = deref(buf)
    rest = fl.fields[0][fl.fields[1]:]
    v.items.extend(rest); fl.fields[1] = len(fl.fields[0])
    return OK(BV(len(rest), 64))
@model('re:^<(std::fs::)?File as (std::io::)?Read>::read_to_string$')
def _(I, ctx, f, buf):
    raise Unsupported('read_to_string: UTF-8 validation of environment bytes is not modelled')
@model('re:^<(std::result::)?Result<.*, std::io::Error> as (std::ops::)?FromResidual<.*>>::from_residual$')
def _(I, ctx, r): return ERR(r.fields[0])


def utf8_valid(ctx, b):
    """UTF-8 validation of a list of BV8 exactly as core::str::from_utf8 (forks on byte classes)"""
    def rng(x, lo, hi): return ctx.branch((lo <= x.e <= hi) if x.conc() else z3.And(z3.UGE(x.z(), lo), z3.ULE(x.z(), hi)))
    i, n = 0, len(b)
    while i < n:
        x = b[i]
        if rng(x, 0, 0x7F): i += 1; continue
        if rng(x, 0xC2, 0xDF):
            if i + 1 >= n or not rng(b[i + 1], 0x80, 0xBF): return False
            i += 2; continue
        if rng(x, 0xE0, 0xEF):
            if i + 2 >= n: return False
            if ctx.branch(bv_is(x, 0xE0)): lo, hi = 0xA0, 0xBF
            elif ctx.branch(bv_is(x, 0xED)): lo, hi = 0x80, 0x9F
            else: lo, hi = 0x80, 0xBF
            if not rng(b[i + 1], lo, hi) or not rng(b[i + 2], 0x80, 0xBF): return False
            i += 3; continue
        if rng(x, 0xF0, 0xF4):
            if i + 3 >= n: return False
            if ctx.branch(bv_is(x, 0xF0)): lo, hi = 0x90, 0xBF
            elif ctx.branch(bv_is(x, 0xF4)): lo, hi = 0x80, 0x8F
            else: lo, hi = 0x80, 0xBF
            if not rng(b[i + 1], lo, hi) or not rng(b[i + 2], 0x80, 0xBF) or not rng(b[i + 3], 0x80, 0xBF): return False
            i += 4; continue
        return False
    return True


@model('re:^(std::string::)?String::from_utf8$')
def _(I, ctx, v):
    b = list(seq_items(v))
    if utf8_valid(ctx, b): return OK(StrV(b))
    return ERR(Agg('FromUtf8Error', [VecV(b)]))
@model('std::str::from_utf8', 'core::str::from_utf8')
def _(I, ctx, v):
    b = list(seq_items(v))
    if utf8_valid(ctx, b): return OK(ValRef(StrV(b)))
    return ERR(Agg('Utf8Error', []))
@model('re:^(std::string::)?String::from_utf8_lossy$')
def _(I, ctx, v):
    b = list(seq_items(v))
    if utf8_valid(ctx, b): return Agg('Cow', [ValRef(StrV(b))], 'Borrowed', 0)
    raise Unsupported('from_utf8_lossy on invalid UTF-8')
@model('re:^(std::string::)?FromUtf8Error::into_bytes$')
def _(I, ctx, e): return e.fields[0]


@model('re:^<dyn (.*) as (.*)>::(\\w+)$')
def _(I, ctx, *args):
    m = re.match(r'^<dyn (.*) as (.*)>::(\w+)$', ctx.cur_key)
    a0 = deref(args[0])
    name = a0.name if isinstance(a0, Agg) else ('Vec' if isinstance(a0, VecV) else None)
    if name is None: raise Unsupported('dyn dispatch on ' + repr(a0)[:40])
    key = f'<{name} as {m.group(2)}>::{m.group(3)}'
    if I.resolve_static(ctx.cur_crate, key) is None: raise Unsupported('dyn dispatch: no ' + key)
    return I.call(ctx, ctx.cur_crate, key, list(args))


@model('re:^(std::sync::atomic::)?(Atomic|AtomicUsize|AtomicU64|AtomicBool|AtomicU32)::new$')
def _(I, ctx, v): return Agg('CellLike', [v])
@model('re:^(std::sync::atomic::)?(Atomic|AtomicUsize|AtomicU64|AtomicBool|AtomicU32)::load$')
def _(I, ctx, r, o): return deref(r).fields[0]
@model('re:^(std::sync::atomic::)?(Atomic|AtomicUsize|AtomicU64|AtomicBool|AtomicU32)::store$')
def _(I, ctx, r, v, o): deref(r).fields[0] = v; return UNIT
@model('re:^(std::sync::atomic::)?(Atomic|AtomicUsize|AtomicU64|AtomicU32)::fetch_add$')
def _(I, ctx, r, v, o):
    c = deref(r); old = c.fields[0]; c.fields[0] = I.binop(ctx, 'Add', old, v); return old


@model('re:^<(.*) as PartialEq(<.*>)?>::ne$')
def _(I, ctx, a, b):
    key = ctx.cur_key[:-4] + '::eq'
    if I.resolve_static(ctx.cur_crate, key) is not None and I.resolve_static(ctx.cur_crate, key)[0] == 'fn':
        return b_not(I.call(ctx, ctx.cur_crate, key, [a, b]))
    return b_not(values_eq(I, ctx, a, b))


@model('re:^(std::result::)?Result::(inspect_err|inspect)$')
def _(I, ctx, r, f):
    want = 'Err' if ctx.cur_key.endswith('inspect_err') else 'Ok'
    if r.variant == want: I.call_value(ctx, ctx.cur_crate, f, [FieldRef(r, 0)])
    return r
@model('re:^(std::option::)?Option::(inspect)$')
def _(I, ctx, o, f):
    if o.variant == 'Some': I.call_value(ctx, ctx.cur_crate, f, [FieldRef(o, 0)])
    return o
@model('re:^(std::result::)?Result::(or_else)$')
def _(I, ctx, r, f): return r if r.variant == 'Ok' else I.call_value(ctx, ctx.cur_crate, f, [r.fields[0]])
@model('re:^(std::option::)?Option::(or_else)$')
def _(I, ctx, o, f): return o if o.variant == 'Some' else I.call_value(ctx, ctx.cur_crate, f, [])
@model('re:^(std::option::)?Option::(ok_or_else)$')
def _(I, ctx, o, f): return OK(o.fields[0]) if o.variant == 'Some' else ERR(I.call_value(ctx, ctx.cur_crate, f, []))
@model('re:^(std::option::)?Option::(map_or_else)$')
def _(I, ctx, o, d, f): return I.call_value(ctx, ctx.cur_crate, f, [o.fields[0]]) if o.variant == 'Some' else I.call_value(ctx, ctx.cur_crate, d, [])
@model('re:^(std::option::)?Option::(and)$')
def _(I, ctx, a, b): return b if a.variant == 'Some' else NONE()
@model('re:^(std::option::)?Option::(flatten)$')
def _(I, ctx, o): return o.fields[0] if o.variant == 'Some' else o
@model('re:^(std::option::)?Option::(is_some_and|is_none_or)$')
def _(I, ctx, o, f):
    o = deref(o)
    if o.variant == 'None': return ctx.cur_key.endswith('is_none_or')
    return I.call_value(ctx, ctx.cur_crate, f, [o.fields[0]])
@model('re:^(std::result::)?Result::(is_ok_and|is_err_and)$')
def _(I, ctx, r, f):
    want = 'Ok' if ctx.cur_key.endswith('is_ok_and') else 'Err'
    if r.variant != want: return False
    return I.call_value(ctx, ctx.cur_crate, f, [r.fields[0]])
@model('re:^(std::result::)?Result::(as_ref|as_mut)$')
def _(I, ctx, r):
    r0 = deref(r); return Agg('Result', [FieldRef(r0, 0)], r0.variant, r0.vidx)
@model('re:^(std::result::)?Result::(ok_or)$')
def _(I, ctx, *a): raise Unsupported(ctx.cur_key)
@model('re:^(std::result::)?Result::(unwrap_err|expect_err)$')
def _(I, ctx, r, *a):
    if r.variant == 'Err': return r.fields[0]
    raise Panic('unwrap_err on Ok')
@model('re:^(std::option::)?Option::(as_deref_mut|as_slice)$')
def _(I, ctx, o):
    o0 = deref(o); return NONE() if o0.variant == 'None' else SOME(FieldRef(o0, 0))


@model('re:^<(std::option::)?Option<.*> as Clone>::clone$', 're:^<(std::result::)?Result<.*> as Clone>::clone$', 're:^<\\(.*\\) as Clone>::clone$',
       're:^<\\[.*\\] as Clone>::clone$', 're:^<(std::collections::)?(VecDeque|HashMap|HashSet|FnvHashMap|FnvHashSet|BTreeMap)<.*> as Clone>::clone$',
       're:^<&.* as Clone>::clone$')
def _(I, ctx, r):
    from .props.lang_lex import clone_deep
    v = deref1(r)
    if ctx.cur_key.startswith('<&'): return v
    return clone_deep(v) if not isinstance(v, Ref) else v


@model('re:^<(std::path::)?(PathBuf|Path) as PartialEq(<.*>)?>::(eq|ne)$', 're:^<(std::ffi::)?(OsString|OsStr) as PartialEq(<.*>)?>::(eq|ne)$')
def _(I, ctx, a, b):
    r = values_eq(I, ctx, list(str_bytes(a)), list(str_bytes(b)))
    return b_not(r) if ctx.cur_key.endswith('::ne') else r
@model('re:^<(std::path::)?PathBuf as (Deref|AsRef<.*>|Borrow<.*>)>::(deref|as_ref|borrow)$', 're:^(std::path::)?(PathBuf|Path)::(as_path|as_os_str)$')
def _(I, ctx, r): return r
@model('re:^<(std::path::)?(PathBuf|Path) as (Partial)?Ord>::(partial_)?cmp$')
def _(I, ctx, a, b):
    xa, xb = list(str_bytes(a)), list(str_bytes(b))
    for x, y in zip(xa, xb):
        o = I.binop(ctx, 'Cmp', x, y)
        if o.variant != 'Equal': return SOME(o) if 'partial' in ctx.cur_key else o
    o = ordering(-1 if len(xa) < len(xb) else (1 if len(xa) > len(xb) else 0))
    return SOME(o) if 'partial' in ctx.cur_key else o


@model('Vec::as_ptr', 'Vec::as_mut_ptr', 're:^(?:(?:core|std|alloc)::)?slice::<impl \\[.*\\]>::(as_ptr|as_mut_ptr)$')
def _(I, ctx, r):
    l, lo, hi = seq_view(r)
    return Agg('RawPtr', [l, lo])
@model('std::mem::size_of', 'core::mem::size_of')
def _(I, ctx): return BV(ctx.ELEM_STRIDE, 64)


@model('re:^<.* as (std::ops::)?Drop>::drop$', 're:^(std|core)::ptr::drop_in_place$')
def _(I, ctx, *a): return UNIT


@model('re:^(std::boxed::)?Box::(into_raw|from_raw|leak|into_inner|into_pin|pin)$', 're:^(Rc|Arc|std::rc::Rc|std::sync::Arc)::(into_raw|from_raw|as_ptr)$')
def _(I, ctx, v): return v


@model('re:^<(std::path::)?(Path|PathBuf) as AsRef<.*>>::as_ref$', 're:^<(std::path::)?(Path|PathBuf) as (Deref|Borrow<.*>)>::(deref|borrow)$',
       're:^<(std::ffi::)?(OsStr|OsString) as AsRef<.*>>::as_ref$', 're:^(std::path::)?Path::new$', 're:^(std::path::)?Path::(to_path_buf|to_owned)$',
       're:^<(std::path::)?(Path|PathBuf) as (Partial)?Ord>::cmp_unused$')
def _(I, ctx, r, *a): return r


# ------------------------------------------------------------------ HashSet algebra
from .models import _hs_insert as _hsi
@model('re:^(std::collections::)?(Fnv)?HashSet::(union|intersection|difference|symmetric_difference)$')
def _(I, ctx, a, b):
    op = ctx.cur_key.rsplit('::', 1)[1]
    A, B = deref(a), deref(b)
    out = []
    def inb(x, S): return S.find(I, ctx, x) is not None
    if op == 'union':
        out = [ValRef(x) for x in A.items] + [ValRef(y) for y in B.items if not inb(y, A)]
    elif op == 'intersection': out = [ValRef(x) for x in A.items if inb(x, B)]
    elif op == 'difference': out = [ValRef(x) for x in A.items if not inb(x, B)]
    else: out = [ValRef(x) for x in A.items if not inb(x, B)] + [ValRef(y) for y in B.items if not inb(y, A)]
    return ListIt(out)
@model('re:^(std::collections::)?(Fnv)?HashSet::(is_subset|is_superset|is_disjoint)$')
def _(I, ctx, a, b):
    op = ctx.cur_key.rsplit('::', 1)[1]
    A, B = deref(a), deref(b)
    if op == 'is_superset': A, B = B, A
    if op == 'is_disjoint': return not any(B.find(I, ctx, x) is not None for x in A.items)
    return all(B.find(I, ctx, x) is not None for x in A.items)
@model('re:^<(std::collections::)?(Fnv)?HashSet<.*> as FromIterator<.*>>::from_iter$')
def _(I, ctx, it):
    s = HSet()
    for x in _drain(I, ctx, it): _hsi(I, ctx, ValRef(s), x)
    return s
@model('re:^(std::collections::)?(Fnv)?HashSet::(get|take)$')
def _(I, ctx, s, k):
    S = deref(s); i = S.find(I, ctx, deref(k))
    if i is None: return NONE()
    return SOME(ValRef(S.items[i])) if ctx.cur_key.endswith('get') else SOME(S.items.pop(i))


@model('re:^([\\w:]+::)?(RwLockWriteGuard|RwLockReadGuard|MutexGuard)::map$')
def _(I, ctx, g, f): return I.call_value(ctx, ctx.cur_crate, f, [g])
@model('re:^([\\w:]+::)?(RwLockWriteGuard|RwLockUpgradableReadGuard)::(downgrade|upgrade|downgrade_to_upgradable)$')
def _(I, ctx, g): return g
@model('re:^<([\\w:]+::)?(MappedRwLockWriteGuard|MappedRwLockReadGuard|MappedMutexGuard)<.*> as Deref(Mut)?>::deref(_mut)?$')
def _(I, ctx, r): return deref1(r)


@model('re:^(std::option::)?Option::(iter|iter_mut)$')
def _(I, ctx, o):
    o0 = deref(o)
    return ListIt([FieldRef(o0, 0)] if o0.variant == 'Some' else [])
@model('re:^(std::option::)?Option::(into_iter)$')
def _(I, ctx, o): return ListIt(list(o.fields))
@model('re:^(std::result::)?Result::(iter|into_iter)$')
def _(I, ctx, o):
    o0 = deref(o); return ListIt([FieldRef(o0, 0)] if o0.variant == 'Ok' else [])


def cmp_values(I, ctx, a, b):
    """three-way comparison of two values -> -1/0/1 (forks on symbolic data); aggregates use their own Ord impl"""
    a0, b0 = deref(a), deref(b)
    if isinstance(a0, BV):
        return {'Less': -1, 'Equal': 0, 'Greater': 1}[I.binop(ctx, 'Cmp', a0, b0).variant]
    if isinstance(a0, bool) or isinstance(b0, bool):
        return (int(bool(a0)) > int(bool(b0))) - (int(bool(a0)) < int(bool(b0)))
    if isinstance(a0, Agg) and a0.name == 'tuple':
        for x, y in zip(a0.fields, b0.fields):
            c = cmp_values(I, ctx, x, y)
            if c: return c
        return 0
    if isinstance(a0, Agg) and a0.name == 'Option':
        if a0.variant != b0.variant: return -1 if a0.variant == 'None' else 1
        return 0 if a0.variant == 'None' else cmp_values(I, ctx, a0.fields[0], b0.fields[0])
    if isinstance(a0, Agg):
        o = I.call(ctx, ctx.cur_crate, f'<{a0.name} as Ord>::cmp', [ValRef(a0), ValRef(b0)])
        return {'Less': -1, 'Equal': 0, 'Greater': 1}[o.variant]
    if isinstance(a0, (StrV, SliceV, VecV, list)):
        xa, xb = seq_items(a0), seq_items(b0)
        for x, y in zip(xa, xb):
            c = cmp_values(I, ctx, x, y)
            if c: return c
        return (len(xa) > len(xb)) - (len(xa) < len(xb))
    raise Unsupported('comparison of ' + repr(a0)[:40])


def _stable_sort(I, ctx, l, lo, hi, less):
    items = l[lo:hi]; out = []
    for x in items:
        k = len(out)
        while k > 0 and less(x, out[k - 1]): k -= 1
        out.insert(k, x)
    l[lo:hi] = out


@model('re:^(?:(?:core|std|alloc)::)?slice::<impl \\[.*\\]>::(sort|sort_unstable)$')
def _(I, ctx, r):
    l, lo, hi = seq_view(r)
    _stable_sort(I, ctx, l, lo, hi, lambda a, b: cmp_values(I, ctx, a, b) < 0); return UNIT
@model('re:^(?:(?:core|std|alloc)::)?slice::<impl \\[.*\\]>::(sort_by_key|sort_unstable_by_key|sort_by_cached_key)$')
def _(I, ctx, r, f):
    l, lo, hi = seq_view(r)
    keys = {}
    def key(x):
        if id(x) not in keys: keys[id(x)] = I.call_value(ctx, ctx.cur_crate, f, [ValRef(x)])
        return keys[id(x)]
    _stable_sort(I, ctx, l, lo, hi, lambda a, b: cmp_values(I, ctx, key(a), key(b)) < 0); return UNIT
@model('re:^(?:(?:core|std|alloc)::)?slice::<impl \\[.*\\]>::(sort_by|sort_unstable_by)$')
def _(I, ctx, r, f):
    l, lo, hi = seq_view(r)
    _stable_sort(I, ctx, l, lo, hi, lambda a, b: I.call_value(ctx, ctx.cur_crate, f, [ValRef(a), ValRef(b)]).variant == 'Less'); return UNIT
@model('re:^(?:(?:core|std|alloc)::)?slice::<impl \\[.*\\]>::(binary_search_by_key|binary_search_by|binary_search)$')
def _(I, ctx, r, *a): raise Unsupported('binary search')


@model('re:^nonzero_ext::<impl NonZeroLiteral<.*>>::into_nonzero$', 're:^nonzero_ext::.*::into_nonzero$')
def _(I, ctx, v): return deref(v).fields[0] if isinstance(deref(v), Agg) else v
@model('re:^(std|core)::num::NonZero::(get|new_unchecked)$', 're:^(std|core)::num::(NonZero\\w*|NonZero)::(get|new_unchecked)$', 're:^NonZero::(get|new_unchecked)$')
def _(I, ctx, v): return v
@model('re:^(std|core)::num::(NonZero\\w*|NonZero)::new$', 're:^NonZero::new$')
def _(I, ctx, v): return NONE() if ctx.branch(bv_is(v, 0)) else SOME(v)


@model('re:^<.* as (std::iter::)?Iterator>::scan$')
def _(I, ctx, it, init, f):
    st = ValRef(init); out = []
    it0 = to_iter(I, ctx, it)
    while True:
        o = it_next(I, ctx, it0)
        if o.variant == 'None': break
        r = I.call_value(ctx, ctx.cur_crate, f, [st, o.fields[0]])
        if r.variant == 'None': break
        out.append(r.fields[0])
    return ListIt(out)
@model('re:^<.* as (std::iter::)?Iterator>::(map_while)$')
def _(I, ctx, it, f):
    out = []; it0 = to_iter(I, ctx, it)
    while True:
        o = it_next(I, ctx, it0)
        if o.variant == 'None': break
        r = I.call_value(ctx, ctx.cur_crate, f, [o.fields[0]])
        if r.variant == 'None': break
        out.append(r.fields[0])
    return ListIt(out)
@model('re:^<.* as (std::iter::)?Iterator>::(step_by|fuse|by_ref|inspect)$')
def _(I, ctx, it, *a):
    if ctx.cur_key.endswith(('fuse', 'by_ref')): return it if ctx.cur_key.endswith('by_ref') else to_iter(I, ctx, it)
    raise Unsupported(ctx.cur_key)
@model('re:^<.* as (std::iter::)?Iterator>::partition$')
def _(I, ctx, it, f):
    yes, no = [], []
    for x in _drain(I, ctx, it):
        (yes if ctx.branch(I.call_value(ctx, ctx.cur_crate, f, [ValRef(x)])) else no).append(x)
    return TUPLE(VecV(yes), VecV(no))
@model('re:^<.* as (std::iter::)?Iterator>::unzip$')
def _(I, ctx, it):
    xs = _drain(I, ctx, it)
    return TUPLE(VecV([x.fields[0] for x in xs]), VecV([x.fields[1] for x in xs]))
@model('re:^<.* as (std::iter::)?Iterator>::reduce$')
def _(I, ctx, it, f):
    xs = _drain(I, ctx, it)
    if not xs: return NONE()
    acc = xs[0]
    for x in xs[1:]: acc = I.call_value(ctx, ctx.cur_crate, f, [acc, x])
    return SOME(acc)
@model('re:^<.* as (std::iter::)?Iterator>::(min_by_key|max_by_key)$')
def _(I, ctx, it, f):
    xs = _drain(I, ctx, it)
    if not xs: return NONE()
    mx = ctx.cur_key.endswith('max_by_key')
    best = xs[0]; bk = I.call_value(ctx, ctx.cur_crate, f, [ValRef(best)])
    for x in xs[1:]:
        k = I.call_value(ctx, ctx.cur_crate, f, [ValRef(x)])
        c = cmp_values(I, ctx, k, bk)
        if (mx and c >= 0) or (not mx and c < 0): best, bk = x, k
    return SOME(best)
@model('re:^<.* as (std::iter::)?Iterator>::(min_by|max_by)$')
def _(I, ctx, it, f):
    xs = _drain(I, ctx, it)
    if not xs: return NONE()
    mx = ctx.cur_key.endswith('max_by'); best = xs[0]
    for x in xs[1:]:
        o = I.call_value(ctx, ctx.cur_crate, f, [ValRef(x), ValRef(best)]).variant
        if (mx and o != 'Less') or (not mx and o == 'Less'): best = x
    return SOME(best)
def _try_wrap(raw, acc):
    """the success value of the `R: Try` type named last in the generic arguments of try_fold / try_for_each"""
    from .util import split_top
    m = re.search(r'::<(.*)>$', raw or '')
    last = split_top(m.group(1))[-1].strip() if m else ''
    last = re.sub(r'^(std|core)::\w+::', '', last)
    if last.startswith('Result<'): return OK(acc)
    if last.startswith('Option<'): return SOME(acc)
    if last.startswith('ControlFlow<'): return Agg('ControlFlow', [acc], 'Continue', 0)
    raise Unsupported('try_fold with an unknown Try type: ' + (raw or ''))


@model('re:^<.* as (std::iter::)?Iterator>::(try_fold|try_for_each)$')
def _(I, ctx, it, *a):
    raw = ctx.cur_raw; crate = ctx.cur_crate
    fold = ctx.cur_key.endswith('try_fold')
    acc, f = (a[0], a[1]) if fold else (UNIT, a[0])
    while True:
        x = it_next(I, ctx, it)
        if x.variant == 'None': return _try_wrap(raw, acc)
        r = I.call_value(ctx, crate, f, [acc, x.fields[0]] if fold else [x.fields[0]])
        if r.variant in ('Ok', 'Some', 'Continue'): acc = r.fields[0] if r.fields else UNIT
        else: return r


@model('re:^<.* as (std::iter::)?Iterator>::(rposition|last_mut)$')
def _(I, ctx, *a): raise Unsupported('iterator adaptor ' + ctx.cur_key)


# ------------------------------------------------------------------ pinned_vec::PinnedVec (append-only, stable addresses) as a list
@model('re:^(pinned_vec::)?PinnedVec::(new|default)$', 're:^<(pinned_vec::)?PinnedVec<.*> as Default>::default$')
def _(I, ctx): return VecV([])
@model('re:^(pinned_vec::)?PinnedVec::len$')
def _(I, ctx, r): return BV(len(deref(r).items), 64)
@model('re:^(pinned_vec::)?PinnedVec::is_empty$')
def _(I, ctx, r): return len(deref(r).items) == 0
@model('re:^(pinned_vec::)?PinnedVec::push$')
def _(I, ctx, r, v): deref(r).items.append(v); return UNIT
@model('re:^(pinned_vec::)?PinnedVec::(get|get_mut)$')
def _(I, ctx, r, idx):
    v = deref(r); n = len(v.items)
    if ctx.branch((idx.e < n) if idx.conc() else z3.ULT(idx.z(), n)): return SOME(ElemRef(v.items, ctx.concretize(idx)))
    return NONE()
@model('re:^(std|core)::pin::Pin::(into_inner|get_ref|get_mut|into_ref|new|new_unchecked|get_unchecked_mut|as_ref|as_mut)$', 're:^Pin::(into_inner|get_ref|get_mut|new|new_unchecked|get_unchecked_mut)$')
def _(I, ctx, v): return v
@model('std::mem::transmute', 'core::mem::transmute', 'std::intrinsics::transmute', 'core::intrinsics::transmute', 'transmute')
def _(I, ctx, v): return v


@model('re:^(std::cell::)?(RefCell|Cell|UnsafeCell)::(as_ptr|get_mut|get)$')
def _(I, ctx, r):
    if ctx.cur_key.endswith('Cell::get') and not ctx.cur_key.endswith(('RefCell::get', 'UnsafeCell::get')): return copy_value(deref(r).fields[0])
    return FieldRef(deref(r), 0)
@model('re:^(std::cell::)?(RefCell|Cell|UnsafeCell)::into_inner$', 're:^([\\w:]+::)?(RwLock|Mutex)::into_inner$')
def _(I, ctx, c): return c.fields[0]


@model('std::io::_eprint', 'std::io::_print', 're:^std::io::(_eprint|_print|stdio::_eprint|stdio::_print)$')
def _(I, ctx, *a): return UNIT


@model('re:^(std::collections::hash_map::)?VacantEntry::(key|into_key)$')
def _(I, ctx, e):
    e0 = deref(e); return ValRef(e0.fields[1]) if ctx.cur_key.endswith('::key') else e0.fields[1]
@model('re:^(std::collections::hash_map::)?OccupiedEntry::key$')
def _(I, ctx, e):
    e0 = deref(e); return ElemRef(e0.fields[0].keys, e0.fields[1])
@model('re:^(std::collections::hash_map::)?Entry::(key)$')
def _(I, ctx, e):
    e0 = deref(e)
    return ElemRef(e0.fields[0].fields[0].keys, e0.fields[0].fields[1]) if e0.variant == 'Occupied' else ValRef(e0.fields[0].fields[1])
@model('re:^(std::collections::hash_map::)?Entry::(and_modify)$')
def _(I, ctx, e, f):
    if e.variant == 'Occupied': I.call_value(ctx, ctx.cur_crate, f, [ElemRef(e.fields[0].fields[0].vals, e.fields[0].fields[1])])
    return e


@model('re:^<(std::collections::)?(Fnv)?HashMap<.*> as (std::ops::)?Index<.*>>::index$')
def _(I, ctx, m, k):
    m0 = deref(m); i = m0.find(I, ctx, deref(k))
    if i is None: raise Panic('HashMap index: key not found: ' + repr(deref(k))[:80] + ' keys=' + repr(m0.keys)[:200])
    return ElemRef(m0.vals, i)


@model('re:^(std::rc::|std::sync::)?(Rc|Arc)::(try_unwrap|into_inner)$')
def _(I, ctx, v): return OK(v) if ctx.cur_key.endswith('try_unwrap') else SOME(v)     # reference counts are not tracked: assumed unique
@model('re:^(std::rc::|std::sync::)?(Rc|Arc)::ptr_eq$')
def _(I, ctx, a, b): return deref(a) is deref(b)
@model('re:^(std::rc::|std::sync::)?(Rc|Arc)::(get_mut|make_mut)$')
def _(I, ctx, r): return SOME(r) if ctx.cur_key.endswith('get_mut') else r
@model('re:^(std::rc::|std::sync::)?(Rc|Arc)::(strong_count|weak_count)$')
def _(I, ctx, r): raise Unsupported('reference counts are not tracked')


@model('read_volatile', 'std::ptr::read_volatile', 'core::ptr::read_volatile', 'std::ptr::read', 'core::ptr::read')
def _(I, ctx, p): return deref1(p)
@model('std::ptr::write', 'core::ptr::write', 'std::ptr::write_volatile')
def _(I, ctx, p, v): p.set(v); return UNIT
@model('re:^(std|core)::ptr::(null|null_mut)$')
def _(I, ctx): return Agg('NullPtr', [])
@model('re:^(std|core)::ptr::eq$')
def _(I, ctx, a, b): return deref(a) is deref(b)


# ------------------------------------------------------------------ rayon: a parallel iterator is run sequentially in item order (one schedule)
@model('re:^<.* as (rayon::iter::)?IntoParallelRefIterator>::par_iter$', 're:^<.* as (rayon::iter::)?IntoParallelRefMutIterator>::par_iter_mut$')
def _(I, ctx, r):
    l, lo, hi = seq_view(r)
    return ListIt([ElemRef(l, k) for k in range(lo, hi)])
@model('re:^<.* as (rayon::iter::)?IntoParallelIterator>::into_par_iter$')
def _(I, ctx, v): return to_iter(I, ctx, v)
@model('re:^<.* as (rayon::iter::)?ParallelIterator>::for_each$')
def _(I, ctx, it, f):
    for x in _drain(I, ctx, it): I.call_value(ctx, ctx.cur_crate, f, [x])
    return UNIT
@model('re:^<.* as (rayon::iter::)?ParallelIterator>::(map)$')
def _(I, ctx, it, f): return MapIt(to_iter(I, ctx, it), f)
@model('re:^<.* as (rayon::iter::)?ParallelIterator>::(collect)$')
def _(I, ctx, it): return VecV(_drain(I, ctx, it))


@model('re:^<&?(bool|u8|u16|u32|u64|usize|i8|i16|i32|i64|isize) as (std::ops::|core::ops::)?Not>::not$')
def _(I, ctx, v):
    v = deref(v)
    if isinstance(v, bool): return not v
    if isinstance(v, BV): return BV((~v.e) & ((1 << v.bits) - 1), v.bits, v.signed) if v.conc() else BV(~v.e, v.bits, v.signed)
    return b_not(v)


@model('re:^<.* as (itertools::)?Itertools>::(unique)$')
def _(I, ctx, it):
    out = []
    for x in _drain(I, ctx, it):
        if not any(ctx.branch(values_eq(I, ctx, x, y)) for y in out): out.append(x)
    return ListIt(out)


@model('itertools::chain', 're:^itertools::(free::)?chain$')
def _(I, ctx, a, b):
    from .models import ChainIt
    return ChainIt(to_iter(I, ctx, a), to_iter(I, ctx, b))


@model('re:^<(std::string::)?String as (std::fmt::|core::fmt::)?Write>::write_fmt$')
def _(I, ctx, s, fa):
    sink = []
    if not render_args(I, ctx, fa, sink): raise Unsupported('write! into a String with Debug / options / symbolic numbers')
    deref(s).b.extend(sink); return OK(UNIT)
@model('re:^<(std::string::)?String as (std::fmt::|core::fmt::)?Write>::write_str$')
def _(I, ctx, s, t):
    deref(s).b.extend(str_bytes(t)); return OK(UNIT)
@model('re:^<(std::string::)?String as (std::fmt::|core::fmt::)?Write>::write_char$')
def _(I, ctx, s, c):
    deref(s).b.extend(utf8_encode(ctx, c)); return OK(UNIT)


@model('re:^(std|core)::array::<impl \\[.*; \\d+\\]>::map$')
def _(I, ctx, arr, f):
    crate = ctx.cur_crate
    return [I.call_value(ctx, crate, f, [x]) for x in seq_items(arr)]


@model('re:^<Vec<u8> as From<&(mut )?str>>::from$', 're:^<Vec<u8> as From<(std::string::)?String>>::from$')
def _(I, ctx, s): return VecV(list(str_bytes(s)))


@model('re:^<(std::option::)?Option<.*> as (std::cmp::)?(Ord|PartialOrd)>::(cmp|partial_cmp)$', 're:^<\\(.*\\) as (std::cmp::)?(Ord|PartialOrd)>::(cmp|partial_cmp)$')
def _(I, ctx, a, b):
    c = cmp_values(I, ctx, a, b)
    from .interp import ordering
    o = ordering(c)
    return SOME(o) if ctx.cur_key.endswith('partial_cmp') else o


@model('re:^<.* as (itertools::)?Itertools>::(dedup)$')
def _(I, ctx, it):
    out = []
    for x in _drain(I, ctx, it):
        if not out or not ctx.branch(values_eq(I, ctx, out[-1], x)): out.append(x)
    return ListIt(out)


@model('re:^(std|alloc)::vec::from_elem$')
def _(I, ctx, elem, n):
    k = n.e if n.conc() else ctx.concretize(n)
    return VecV([copy_value(elem) if isinstance(elem, (Agg, list)) else elem for _ in range(k)])
