import json, subprocess, sys, time, os, threading, queue
root = '/tmp/probe/ls1'
p = subprocess.Popen(['/tmp/probe/lsbuild/debug/vhdl_ls'], stdin=subprocess.PIPE, stdout=subprocess.PIPE, stderr=open('/tmp/probe/ls_err.log','w'), cwd=root)
q = queue.Queue()
def reader():
    while True:
        h = b''
        while not h.endswith(b'\r\n\r\n'):
            c = p.stdout.read(1)
            if not c: return
            h += c
        n = int([l for l in h.decode().split('\r\n') if l.lower().startswith('content-length')][0].split(':')[1])
        q.put(json.loads(p.stdout.read(n)))
threading.Thread(target=reader, daemon=True).start()
def send(m):
    b = json.dumps(m).encode()
    p.stdin.write(b'Content-Length: %d\r\n\r\n' % len(b) + b); p.stdin.flush()
def drain(t=2.0):
    out = []; end = time.time() + t
    while time.time() < end:
        try: out.append(q.get(timeout=0.2))
        except queue.Empty: pass
    return out
send({'jsonrpc': '2.0', 'id': 1, 'method': 'initialize', 'params': {'processId': None, 'rootUri': 'file://' + root, 'capabilities': {}}})
send({'jsonrpc': '2.0', 'method': 'initialized', 'params': {}})
def show(msgs, tag):
    for m in msgs:
        if m.get('method') == 'textDocument/publishDiagnostics':
            print(tag, m['params']['uri'].split('/')[-1], [(d['severity'], d['message'][:40]) for d in m['params']['diagnostics']])
show(drain(3), 'after init:')
open(root + '/vhdl_ls.toml', 'w').write("[libraries]\nlib.files = ['a.vhd']\n[lint]\nunused = 'error'\n")
send({'jsonrpc': '2.0', 'method': 'workspace/didChangeWatchedFiles', 'params': {'changes': [{'uri': 'file://' + root + '/vhdl_ls.toml', 'type': 2}]}})
msgs = drain(3)
show(msgs, 'after severity change:')
print('publishDiagnostics after reload:', sum(1 for m in msgs if m.get('method') == 'textDocument/publishDiagnostics'))
p.kill()
