use std::path::Path;
use vhdl_lang::{Source, VHDLParser, VHDLStandard};
fn main() {
    let code = std::env::args().nth(1).unwrap();
    let parser = VHDLParser::new(VHDLStandard::default());
    let source = Source::inline(Path::new("/tmp/y.vhd"), &code);
    let mut diags = Vec::new();
    let df = parser.parse_design_source(&source, &mut diags);
    println!("parsed {:?}: {} units, {} diags", code, df.design_units.len(), diags.len());
}
