use vhdl_syntax::syntax::rewrite::{TokenRewrite, TokenRewriteAction, TokenRewriter};
use vhdl_syntax::syntax::node::SyntaxToken;
use vhdl_syntax::syntax::AstNode;
struct KeepAll;
impl TokenRewrite for KeepAll {
    fn token(&mut self, _t: &SyntaxToken) -> TokenRewriteAction { TokenRewriteAction::Keep }
}
fn main() {
    let src = "entity e is end;";
    let (file, diags) = vhdl_syntax::parser::parse(src);
    let root = file.raw();
    let mut before = Vec::new(); root.write_to(&mut before).unwrap();
    let new_root = TokenRewriter::new(KeepAll).rewrite(root.clone());
    let mut after = Vec::new(); new_root.write_to(&mut after).unwrap();
    println!("diags={} before={:?} after={:?}", diags.len(), String::from_utf8_lossy(&before), String::from_utf8_lossy(&after));
}
