use std::path::Path;
use vhdl_lang::{Position, Range, Source, VHDLParser, VHDLFormatter, VHDLStandard};

fn flat(s: &Source) -> String {
    let c = s.contents();
    let mut out = String::new();
    let mut i = 0;
    while let Some(l) = c.get_line(i) { out.push_str(l); i += 1; }
    out
}
fn change(doc: &str, r: (u32,u32,u32,u32), rep: &str) -> Result<String, String> {
    let doc = doc.to_string(); let rep = rep.to_string();
    std::panic::catch_unwind(move || {
        let s = Source::inline(Path::new("/tmp/x.vhd"), &doc);
        s.change(Some(&Range::new(Position::new(r.0, r.1), Position::new(r.2, r.3))), &rep);
        flat(&s)
    }).map_err(|e| format!("PANIC {:?}", e.downcast_ref::<String>()))
}
fn main() {
    println!("A start line beyond doc: {:?}", change("a", (4,1,6,0), "M"));
    println!("B end col beyond last line w/ newline: {:?}", change("a\n", (0,0,0,9), "X"));
    println!("B2 same, in range: {:?}", change("a\n", (0,0,0,1), "X"));
    println!("C start col beyond line end (non-last line): {:?}", change("ab\ncd", (0,9,0,9), "X"));
    println!("C2 on last line: {:?}", change("ab\ncd", (1,9,1,9), "X"));
    // vhdl_syntax round trip
    for src in ["/*", "/**", "/*ab", "a /* x", "entity e is end;"] {
        let (file, diags) = vhdl_syntax::parser::parse(src);
        let mut out = Vec::new();
        use vhdl_syntax::syntax::AstNode;
        file.raw().write_to(&mut out).unwrap();
        println!("D roundtrip {:?} -> {:?} diags={}", src, String::from_utf8_lossy(&out), diags.len());
    }
    // lexer disagreement
    {
        use vhdl_syntax::tokens::tokenizer::Tokenize;
        let toks: Vec<String> = "1:a:".tokenize().map(|(t, e)| format!("{:?}:{}{}", t.kind(), t.text(), if e.is_some() {"!"} else {""})).collect();
        println!("F vhdl_syntax 1:a: -> {:?}", toks);
        let toks: Vec<String> = "x:=16:FF:;".tokenize().map(|(t, e)| format!("{:?}:{}{}", t.kind(), t.text(), if e.is_some() {"!"} else {""})).collect();
        println!("F vhdl_syntax x:=16:FF:; -> {:?}", toks);
    }
    // formatter & extended identifiers
    {
        let code = "entity \\a\\\\b\\ is\nend entity;\n";
        let parser = VHDLParser::new(VHDLStandard::default());
        let source = Source::inline(Path::new("/tmp/y.vhd"), code);
        let mut diags = Vec::new();
        let df = parser.parse_design_source(&source, &mut diags);
        println!("G parse diags: {}", diags.len());
        let out = VHDLFormatter::format_design_file(&df);
        println!("G formatted: {:?}", out);
        let source2 = Source::inline(Path::new("/tmp/z.vhd"), &out);
        let mut diags2 = Vec::new();
        let _ = parser.parse_design_source(&source2, &mut diags2);
        println!("G reparse diags: {} {:?}", diags2.len(), diags2.iter().map(|d| d.message.clone()).collect::<Vec<_>>());
    }
}
