#[cfg(kani)]
mod proofs {
    use vhdl_lang::verif_hooks::*;

    // reader lockstep over a 3-byte ASCII-or-newline document
    #[kani::proof]
    #[kani::unwind(6)]
    fn reader3() {
        let b: [u8; 3] = kani::any();
        kani::assume(b[0] < 128 && b[1] < 128 && b[2] < 128);
        let s = unsafe { std::str::from_utf8_unchecked(&b) };
        let c = Contents::from_str(s);
        let mut r = ContentReader::new(&c);
        let mut n = 0usize;
        let mut prev = r.pos();
        while let Some(ch) = r.pop_char() {
            let expect = if b[n] == b'\r' { b'\n' } else { b[n] };
            // CRLF collapses: skip the LF after CR
            assert!(ch as u32 == expect as u32);
            if b[n] == b'\r' && n + 1 < 3 && b[n + 1] == b'\n' { n += 1; }
            n += 1;
            let p = r.pos();
            assert!(p > prev);
            prev = p;
        }
        assert!(n == 3);
        std::mem::forget(c);
    }
}
