#[cfg(kani)]
mod proofs {
    use fnv::{FnvHashMap, FnvHashSet};

    fn get_all_affected(
        users_of: &FnvHashMap<u8, FnvHashSet<u8>>,
        mut affected: FnvHashSet<u8>,
    ) -> FnvHashSet<u8> {
        let mut all_affected = FnvHashSet::default();
        let mut next_affected = FnvHashSet::default();
        while !affected.is_empty() {
            for user in affected.drain() {
                all_affected.insert(user.clone());
                if let Some(users) = users_of.get(&user) {
                    for new_user in users.iter() {
                        if all_affected.insert(new_user.clone()) {
                            next_affected.insert(new_user.clone());
                        }
                    }
                }
            }
            affected = std::mem::replace(&mut next_affected, affected);
        }
        all_affected
    }

    #[kani::proof]
    #[kani::unwind(5)]
    fn closure3() {
        // symbolic adjacency on 3 nodes
        let adj: [[bool; 3]; 3] = kani::any();
        let mut users_of: FnvHashMap<u8, FnvHashSet<u8>> = FnvHashMap::default();
        for a in 0..3u8 { for b in 0..3u8 { if adj[a as usize][b as usize] {
            users_of.entry(a).or_default().insert(b);
        }}}
        let seed: u8 = kani::any(); kani::assume(seed < 3);
        let mut s = FnvHashSet::default(); s.insert(seed);
        let r = get_all_affected(&users_of, s);
        assert!(r.contains(&seed));
        // one-step closure check
        for a in 0..3u8 { for b in 0..3u8 { if adj[a as usize][b as usize] && r.contains(&a) { assert!(r.contains(&b)); } } }
        std::mem::forget(r); std::mem::forget(users_of);
    }
}
