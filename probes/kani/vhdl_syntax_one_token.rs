#[cfg(kani)]
mod proofs {
    use vhdl_syntax::tokens::Tokenizer;

    #[kani::proof]
    #[kani::unwind(3)]
    fn one_tok_1() {
        let input: [u8; 1] = kani::any();
        let mut t = Tokenizer::new(input.into_iter());
        let r = t.next();
        assert!(r.is_some());
        let (tok, _e) = r.unwrap();
        assert!(tok.byte_len() <= 1);
        std::mem::forget(tok);
    }

    #[kani::proof]
    #[kani::unwind(4)]
    fn one_tok_2() {
        let input: [u8; 2] = kani::any();
        let mut t = Tokenizer::new(input.into_iter());
        let r = t.next();
        assert!(r.is_some());
        let (tok, _e) = r.unwrap();
        assert!(tok.byte_len() <= 2);
        std::mem::forget(tok);
    }
}
