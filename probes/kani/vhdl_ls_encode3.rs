#[cfg(kani)]
mod proofs {
    use vhdl_ls::verif_hooks::{encode, CachedToken};
    use vhdl_lang::{Position, Range};

    fn any_tok() -> CachedToken {
        let l: u32 = kani::any(); let s: u32 = kani::any(); let e: u32 = kani::any();
        kani::assume(s <= e);
        CachedToken { range: Range::new(Position::new(l, s), Position::new(l, e)), token_type: kani::any(), modifiers: kani::any() }
    }

    #[kani::proof]
    #[kani::unwind(5)]
    fn encode3_sorted_no_underflow_and_decodes() {
        let toks = [any_tok(), any_tok(), any_tok()];
        // sorted by start, as map_and_sort establishes
        kani::assume(toks[0].range.start <= toks[1].range.start && toks[1].range.start <= toks[2].range.start);
        let out = encode(&toks, None);
        assert!(out.len() == 3);
        // decode
        let mut line = 0u32; let mut col = 0u32;
        let mut i = 0;
        while i < 3 {
            let t = &out[i];
            if t.delta_line == 0 { col += t.delta_start; } else { line += t.delta_line; col = t.delta_start; }
            assert!(line == toks[i].range.start.line && col == toks[i].range.start.character);
            assert!(t.length == toks[i].range.end.character - toks[i].range.start.character);
            i += 1;
        }
        std::mem::forget(out);
    }
}
