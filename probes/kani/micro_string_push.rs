#[cfg(kani)]
mod proofs {
    #[kani::proof]
    #[kani::unwind(6)]
    fn pushes_string() {
        let input: [u8; 3] = kani::any();
        let mut v = String::new();
        for b in input { if b.is_ascii_alphabetic() { v.push(b as char); } else { break; } }
        let mut n = 0; for c in v.chars() { if c == 'a' { n += 1; } }
        assert!(n <= 3);
        std::mem::forget(v);
    }
}
