import sys, time, itertools
import proto_c11 as P
from interp import *
from mslib import model, ArrIt, M
import z3
I = P.I
deref = P.deref

for k in [k for k in list(M) if 'HashMap' in k or 'RwLock' in k and 'Guard' in k]: del M[k]
# ---- hash set / map models with structural keys (Symbol compares by id, as its PartialEq does) ----
def canon(v):
    v = deref(v)
    if isinstance(v, BV): return ('bv', v.e)
    if isinstance(v, Agg):
        if v.name.endswith('Symbol'): return ('sym', canon(v.fields[0]))
        return (v.name.split('::')[-1], v.variant, tuple(canon(f) for f in v.fields))
    return ('o', id(v))
class SetV:
    def __init__(self): self.items = []
    def has(self, k): return any(canon(x) == canon(k) for x in self.items)
class MapK:
    def __init__(self): self.kv = []
    def find(self, k):
        for i, (kk, vv) in enumerate(self.kv):
            if canon(kk) == canon(k): return i
        return -1
@model('re:^<HashSet<.*> as std::default::Default>::default$')
def _(I, ctx): return SetV()
@model('re:^HashSet::is_empty$')
def _(I, ctx, r): return len(deref(r).items) == 0
@model('re:^HashSet::insert$')
def _(I, ctx, r, k):
    s = deref(r)
    if s.has(k): return False
    s.items.append(k); return True
@model('re:^HashSet::contains$')
def _(I, ctx, r, k): return deref(r).has(k)
@model('re:^HashSet::drain$')
def _(I, ctx, r):
    s = deref(r); it = ArrIt(list(s.items)); s.items.clear(); return it
@model('re:^HashSet::iter$')
def _(I, ctx, r):
    s = deref(r); return ArrIt([Ref((lambda x: (lambda: x))(x), None) for x in s.items])
@model('re:^HashMap::get$')
def _(I, ctx, m, k):
    mp = deref(m); i = mp.find(k)
    if i < 0: return NONE()
    v = mp.kv[i][1]; return SOME(Ref(lambda: v, None))
@model('re:^HashMap::entry$')
def _(I, ctx, m, k):
    mp = deref(m); i = mp.find(k)
    if i >= 0: return Agg('Entry', [Agg('OccupiedEntry', [mp, i])], 'Occupied', 0)
    return Agg('Entry', [Agg('VacantEntry', [mp, k])], 'Vacant', 1)
@model('re:^std::collections::hash_map::OccupiedEntry::get_mut$')
def _(I, ctx, r):
    e = deref(r); mp, i = e.fields; v = mp.kv[i][1]; return Ref(lambda: v, None)
@model('re:^std::collections::hash_map::VacantEntry::insert$')
def _(I, ctx, e, v):
    mp, k = e.fields; mp.kv.append((k, v)); return Ref(lambda: v, None)
@model('re:^<parking_lot::lock_api::RwLock(Read|Write)Guard<.*> as Deref(Mut)?>::deref(_mut)?$')
def _(I, ctx, g):
    mp = deref(g).fields[0]; return Ref(lambda: mp, None)

def sym(i): return Agg('Symbol', [BV(i, 64), Agg('Latin1String', [VecV([BV(97 + i, 8)])])])
def unit(i):
    # entity e_i in library 0
    return Agg('UnitId', [sym(100), Agg('AnyKind', [Agg('PrimaryKind', [], 'Entity', 0)], 'Primary', 0), Agg('UnitKey', [sym(i)], 'Primary', 0)])

def harness(NU):
    units = [unit(i) for i in range(NU)]
    def h(ctx):
        adj = [[z3.Bool(f'e{a}_{b}') for b in range(NU)] for a in range(NU)]   # users_of[a] contains b
        user = z3.BitVec('user', 8); used = z3.BitVec('used', 8)
        ctx.assume(z3.And(z3.ULT(user, NU), z3.ULT(used, NU)))
        def wit(m):
            return dict(edges=[(a, b) for a in range(NU) for b in range(NU) if z3.is_true(m.eval(adj[a][b], model_completion=True))],
                        user=m.eval(user, model_completion=True).as_long(), used=m.eval(used, model_completion=True).as_long())
        # reachability oracle over the boolean matrix (Warshall, symbolic)
        def closure(mat):
            r = [[mat[a][b] for b in range(NU)] for a in range(NU)]
            for k in range(NU):
                r = [[z3.Or(r[a][b], z3.And(r[a][k], r[k][b])) for b in range(NU)] for a in range(NU)]
            return r
        # pre-state must be acyclic (the invariant)
        c0 = closure(adj)
        ctx.assume(z3.And([z3.Not(c0[a][a]) for a in range(NU)]))
        users_of = MapK()
        for a in range(NU):
            s = None
            for b in range(NU):
                if ctx.branch(adj[a][b]):
                    if s is None:
                        s = SetV(); users_of.kv.append((I.deepcopy(units[a]), s))
                    s.items.append(I.deepcopy(units[b]))
        u = ctx.concretize(BV(user, 8)); d = ctx.concretize(BV(used, 8))
        root = Agg('DesignRoot', [None] * 8 + [users_of, MapK(), MapK()])
        res = I.call(ctx, 'DesignRoot::make_use_of', [Ref(lambda: root, None), NONE(), Ref(lambda: units[u], None), Ref(lambda: units[d], None)])
        # post-state adjacency: users_of[d] now contains u
        i = users_of.find(units[d])
        if i < 0 or not users_of.kv[i][1].has(units[u]): raise Violation('edge not recorded', wit)
        # oracle: adding edge d->u closes a cycle iff u reaches d already, or u == d
        closes = z3.Or(c0[u][d], z3.BoolVal(u == d))
        is_err = res.variant == 'Err'
        bad = z3.Not(closes) if is_err else closes
        if ctx.feasible(bad):
            ctx.solver.add(bad); raise Violation(f'make_use_of returned {res.variant} but cycle-closing is the opposite', wit)
    return h

if __name__ == '__main__':
    NU = int(sys.argv[1]); t = time.time()
    st = explore(harness(NU))
    print(f'C04 units={NU} paths={st["paths"]} infeasible={st["infeasible"]} solver_calls={st["solver"]} exhausted={st["exhausted"]} time={time.time()-t:.1f}s')
    for v in st['violations'][:5]: print('VIOLATION', v)
