import sys, time, z3
sys.path.insert(0, '/tmp/probe/mirsym')
from interp import *

# ---------------- std models ----------------
M = {}
def model(name):
    def deco(f): M[name] = f; return f
    return deco

def deref(v): return v.get() if isinstance(v, Ref) else v

@model('Vec::new')
def _(I, ctx): return VecV([])
@model('Vec::is_empty')
def _(I, ctx, r): return len(deref(r).items) == 0
@model('Vec::len')
def _(I, ctx, r): return BV(len(deref(r).items), 64)
@model('Vec::push')
def _(I, ctx, r, v): deref(r).items.append(v); return UNIT
@model('<Vec<std::string::String> as Deref>::deref')
def _(I, ctx, r): return Ref(lambda: deref(r), None)
@model('<std::string::String as Deref>::deref')
def _(I, ctx, r): return Ref(lambda: deref(r), None)
@model('re:^core::slice::<impl \\[.*\\]>::get$')
def _(I, ctx, r, idx):
    v = deref(r)
    items = v.items if isinstance(v, VecV) else (v.items() if isinstance(v, SliceV) else v)
    n = len(items)
    if ctx.branch(z3.ULT(idx.z(), n) if not idx.conc() else idx.e < n):
        i = ctx.concretize(idx)
        it = items[i]
        return SOME(Ref(lambda: it, None))
    return NONE()
@model('std::string::String::new')
def _(I, ctx): return StrV([])
@model('core::str::<impl str>::chars')
def _(I, ctx, r): return CharsIt(deref(r))
@model("<std::str::Chars<'_> as IntoIterator>::into_iter")
def _(I, ctx, it): return it
def decode(ctx, s, i):
    b0 = s.b[i]
    def lt(b, k): return (b.e < k) if b.conc() else z3.ULT(b.e, k)
    def zx(b): return BV(b.e, 32) if b.conc() else BV(z3.ZeroExt(24, b.e), 32)
    def comb(parts):
        # parts: list of (BV8, mask, shift)
        if all(p[0].conc() for p in parts):
            return BV(sum((p[0].e & p[1]) << p[2] for p in parts), 32)
        e = z3.BitVecVal(0, 32)
        for b, mask, sh in parts: e = e | ((zx(b).z() & mask) << sh)
        return BV(z3.simplify(e), 32)
    if ctx.branch(lt(b0, 0x80)): return zx(b0), 1
    if ctx.branch(lt(b0, 0xE0)): return comb([(b0, 0x1F, 6), (s.b[i+1], 0x3F, 0)]), 2
    if ctx.branch(lt(b0, 0xF0)): return comb([(b0, 0x0F, 12), (s.b[i+1], 0x3F, 6), (s.b[i+2], 0x3F, 0)]), 3
    return comb([(b0, 0x07, 18), (s.b[i+1], 0x3F, 12), (s.b[i+2], 0x3F, 6), (s.b[i+3], 0x3F, 0)]), 4
@model("<std::str::Chars<'_> as Iterator>::next")
def _(I, ctx, r):
    it = deref(r)
    if it.i >= len(it.s.b): return NONE()
    c, n = decode(ctx, it.s, it.i); it.i += n
    return SOME(c)
@model("<std::str::Chars<'_> as Iterator>::last")
def _(I, ctx, it):
    last = NONE()
    while it.i < len(it.s.b):
        c, n = decode(ctx, it.s, it.i); it.i += n; last = SOME(c)
    return last
def encode(ctx, c):
    def lt(k): return (c.e < k) if c.conc() else z3.ULT(c.e, k)
    def byte(shift, mask, orv):
        if c.conc(): return BV(((c.e >> shift) & mask) | orv, 8)
        return BV(z3.simplify(z3.Extract(7, 0, (z3.LShR(c.e, shift) & mask) | orv)), 8)
    if ctx.branch(lt(0x80)): return [byte(0, 0x7F, 0)]
    if ctx.branch(lt(0x800)): return [byte(6, 0x1F, 0xC0), byte(0, 0x3F, 0x80)]
    if ctx.branch(lt(0x10000)): return [byte(12, 0x0F, 0xE0), byte(6, 0x3F, 0x80), byte(0, 0x3F, 0x80)]
    return [byte(18, 0x07, 0xF0), byte(12, 0x3F, 0x80), byte(6, 0x3F, 0x80), byte(0, 0x3F, 0x80)]
@model('std::string::String::push')
def _(I, ctx, r, c): deref(r).b.extend(encode(ctx, c)); return UNIT
@model('std::string::String::push_str')
def _(I, ctx, r, s): deref(r).b.extend(list(deref(s).b)); return UNIT
@model('char::methods::<impl char>::len_utf16')
def _(I, ctx, c):
    return BV(1 if ctx.branch((c.e < 0x10000) if c.conc() else z3.ULT(c.e, 0x10000)) else 2, 64)
@model('Option::unwrap_or')
def _(I, ctx, o, d): return o.fields[0] if o.variant == 'Some' else d
@model('core::num::<impl usize>::saturating_sub')
def _(I, ctx, a, b):
    if a.conc() and b.conc(): return BV(max(0, a.e - b.e), 64)
    return BV(z3.If(z3.ULT(a.z(), b.z()), z3.BitVecVal(0, 64), a.z() - b.z()), 64)
@model('std::cmp::min')
def _(I, ctx, a, b):
    if a.conc() and b.conc(): return BV(min(a.e, b.e), 64)
    # Ord::min: if b < a {b} else {a}
    return b if ctx.branch(z3.ULT(b.z(), a.z())) else a
@model('std::ops::RangeInclusive::new')
def _(I, ctx, a, b): return Agg('RangeInclusive', [a, b])
@model('Vec::splice')
def _(I, ctx, r, rng, repl):
    v = deref(r)
    lo = ctx.concretize(rng.fields[0]); hi = ctx.concretize(rng.fields[1])
    n = len(v.items)
    # RangeInclusive -> exclusive end = hi+1 (overflow at usize::MAX panics)
    end = hi + 1
    if lo > end: raise Panic(f'slice index starts at {lo} but ends at {end}')
    if end > n: raise Panic(f'range end index {end} out of range for slice of length {n}')
    v.items[lo:end] = repl.items
    return Agg('Splice', [])
@model("<std::vec::Splice<'_, std::vec::IntoIter<std::string::String>> as Iterator>::count")
def _(I, ctx, s): return BV(0, 64)
@model('core::str::<impl str>::as_bytes')
def _(I, ctx, r):
    s = deref(r); return Ref(lambda: SliceV(s.b, 0, len(s.b)), None)
def slice_of(v):
    v = deref(v)
    return v if isinstance(v, SliceV) else SliceV(v.items if isinstance(v, VecV) else v.b, 0, len(v.items if isinstance(v, VecV) else v.b))
@model('<[u8] as std::ops::Index<std::ops::Range<usize>>>::index')
def _(I, ctx, r, rng):
    s = slice_of(r); lo = ctx.concretize(rng.fields[0]); hi = ctx.concretize(rng.fields[1])
    if lo > hi or hi > s.hi - s.lo: raise Panic('slice range')
    ns = SliceV(s.base, s.lo + lo, s.lo + hi); return Ref(lambda: ns, None)
@model('<[u8] as std::ops::Index<std::ops::RangeFrom<usize>>>::index')
def _(I, ctx, r, rng):
    s = slice_of(r); lo = ctx.concretize(rng.fields[0])
    if lo > s.hi - s.lo: raise Panic('slice range')
    ns = SliceV(s.base, s.lo + lo, s.hi); return Ref(lambda: ns, None)
@model('<[u8] as ToOwned>::to_owned')
def _(I, ctx, r): return VecV(list(slice_of(r).items()))
@model('std::string::String::from_utf8_unchecked')
def _(I, ctx, v): return StrV(v.items)
@model('<Vec<u8> as IndexMut<usize>>::index_mut')
def _(I, ctx, r, idx):
    v = deref(r); i = ctx.concretize(idx)
    if i >= len(v.items): raise Panic('index out of bounds')
    return Ref(lambda: v.items[i], lambda x: v.items.__setitem__(i, x))
@model('<Option<&u8> as PartialEq>::eq')
def _(I, ctx, a, b):
    a, b = deref(a), deref(b)
    if a.variant != b.variant: return False
    if a.variant == 'None': return True
    x, y = deref(a.fields[0]), deref(b.fields[0])
    return (x.e == y.e) if (x.conc() and y.conc()) else (x.z() == y.z())

# ---------------- harness for C10 ----------------
fns = load('/tmp/probe/vhdl_lang.mir')
I = Interp(fns, M)
CHANGE = [n for n in fns if n.endswith('::change') and 'contents.rs:19' in n][0]

def sym_char(ctx, name):
    c = z3.BitVec(name, 32)
    ctx.assume(z3.And(z3.ULE(c, 0x10FFFF), z3.Or(z3.ULT(c, 0xD800), z3.UGT(c, 0xDFFF))))
    return BV(c, 32)

def sym_str(ctx, chars):
    b = []
    for c in chars: b.extend(encode(ctx, c))
    return StrV(b)

def is_(ctx, c, k): return ctx.branch((c.e == k) if c.conc() else (c.e == k))

def normalise(ctx, chars):
    out = []; i = 0
    while i < len(chars):
        c = chars[i]
        if is_(ctx, c, 13):
            out.append(BV(10, 32))
            if i + 1 < len(chars) and is_(ctx, chars[i+1], 10): i += 1
        else: out.append(c)
        i += 1
    return out

def width16(ctx, c): return 1 if ctx.branch((c.e < 0x10000) if c.conc() else z3.ULT(c.e, 0x10000)) else 2

def offset_of(ctx, doc, line, col):
    """LSP position -> char index in normalised doc (list of chars); None if col splits a surrogate pair"""
    # split into lines
    starts = [0]
    for i, c in enumerate(doc):
        if is_(ctx, c, 10): starts.append(i + 1)
    nlines = len(starts)
    L = None
    for k in range(nlines):
        if ctx.branch(line.z() == k): L = k; break
    if L is None: return len(doc)          # line beyond end -> end of document
    i = starts[L]; end = (starts[L+1] - 1) if L + 1 < nlines else len(doc)
    u = 0
    while i < end:
        if ctx.branch(z3.ULE(col.z(), u)): return i if ctx.branch(col.z() == u) else None
        u += width16(ctx, doc[i]); i += 1
    if ctx.branch(z3.ULT(col.z(), u)): return None
    return end                               # col beyond line end -> line end

def decode_all(ctx, s):
    out = []; i = 0
    while i < len(s.b):
        c, n = decode(ctx, s, i); out.append(c); i += n
    return out

def harness(N, R):
    def h(ctx):
        doc0 = [sym_char(ctx, f'd{i}') for i in range(N)]
        rep = [sym_char(ctx, f'r{i}') for i in range(R)]
        sl, sc, el, ec = [BV(z3.BitVec(n, 32), 32) for n in ('sl', 'sc', 'el', 'ec')]
        # LSP well-formedness: start <= end
        ctx.assume(z3.Or(z3.ULT(sl.e, el.e), z3.And(sl.e == el.e, z3.ULE(sc.e, ec.e))))
        def wit(m):
            g = lambda v: m.eval(v.z(), model_completion=True).as_long()
            return dict(doc=[g(c) for c in doc0], rep=[g(c) for c in rep], range=[g(sl), g(sc), g(el), g(ec)])
        import os
        if os.environ.get('MAXLINE'): ctx.assume(z3.ULE(sl.e, int(os.environ['MAXLINE'])))
        if os.environ.get('MAXCOL'): ctx.assume(z3.And(z3.ULE(sc.e, int(os.environ['MAXCOL'])), z3.ULE(ec.e, int(os.environ['MAXCOL']))))
        docstr = sym_str(ctx, doc0)
        lines = I.call(ctx, 'split_lines', [Ref(lambda: docstr, None)])
        contents = Agg('Contents', [lines])
        rng = Agg('Range', [Agg('Position', [sl, sc]), Agg('Position', [el, ec])])
        repstr = sym_str(ctx, rep)
        try:
            I.call_fn(ctx, fns[CHANGE], [Ref(lambda: contents, None), Ref(lambda: rng, None), Ref(lambda: repstr, None)])
        except Panic as p:
            raise Violation('panic: ' + str(p), wit)
        got = []
        for l in contents.fields[0].items: got.extend(decode_all(ctx, l))
        # reference
        doc = normalise(ctx, doc0)
        a = offset_of(ctx, doc, sl, sc); b = offset_of(ctx, doc, el, ec)
        if a is None or b is None: return     # position inside a surrogate pair: outside the claim
        if a > b: b = a
        want = normalise(ctx, doc[:a] + rep + doc[b:])
        if len(got) != len(want): raise Violation(f'length {len(got)} != {len(want)}', wit)
        neq = z3.Or([g.z() != w.z() for g, w in zip(got, want)]) if got else z3.BoolVal(False)
        if ctx.feasible(neq):
            ctx.solver.add(neq); raise Violation('content differs', wit)
    return h

if __name__ == '__main__':
    N, R = int(sys.argv[1]), int(sys.argv[2])
    t = time.time()
    st = explore(harness(N, R))
    print(f'N={N} R={R} paths={st["paths"]} infeasible={st["infeasible"]} solver_calls={st["solver"]} exhausted={st["exhausted"]} time={time.time()-t:.1f}s')
    for v in st['violations']: print('VIOLATION', v)
