import sys, time, copy, os
import proto_c11 as P
from interp import *
from mslib import model, M, call_callable, ArrIt
import z3
I = P.I
deref = P.deref

@model('re:^<.*Symbol as ToString>::to_string$')
def _(I, ctx, r): return I.call(ctx, 'Symbol::name_utf8', [r])
@model('re:^<.*Latin1String>? as ToString>::to_string$')
def _(I, ctx, r):
    l = deref(r); return I.call(ctx, 'iso_8859_1_to_utf8', [Ref(lambda: SliceV(l.fields[0].items, 0, len(l.fields[0].items)), None)])
for k in [k for k in list(M) if k == 're:^<.* as ToString>::to_string$']: 
    M[k + '_zz'] = M.pop(k)   # generic opaque model goes last
@model('re:^core::str::<impl str>::to_string$|^<str as ToString>::to_string$|^<str as ToOwned>::to_owned$')
def _(I, ctx, r): return StrV(list(deref(r).b))
@model('re:^core::str::<impl str>::trim_end$')
def _(I, ctx, r):
    b = deref(r).b; hi = len(b)
    while hi > 0 and P._is_ws(ctx, b[hi-1]): hi -= 1
    s = StrV(b[:hi]); return Ref(lambda: s, None)
@model('re:^<Vec<.*> as Deref>::deref$')
def _(I, ctx, r): return Ref(lambda: deref(r), None)
@model('re:^core::slice::<impl \\[.*\\]>::len$|^Vec::len$')
def _(I, ctx, r): return BV(I.seq_len(deref(r)), 64)
@model('re:^core::slice::<impl \\[.*\\]>::is_empty$')
def _(I, ctx, r): return I.seq_len(deref(r)) == 0
@model('re:^<.* as Iterator>::enumerate$')
def _(I, ctx, it): return ArrIt([Agg('tuple', [BV(i, 64), x]) for i, x in enumerate(it.items[it.i:])])
@model('re:^std::iter::repeat_n$')
def _(I, ctx, v, n): return ArrIt([v] * ctx.concretize(n))
@model('re:^<std::string::String as Extend<char>>::extend$')
def _(I, ctx, r, it):
    from proto_c10 import encode
    for c in it.items[it.i:]: deref(r).b.extend(encode(ctx, c))
    return UNIT
@model('re:^std::cmp::max$')
def _(I, ctx, a, b):
    if a.conc() and b.conc(): return BV(max(a.e, b.e), a.bits)
    return a if ctx.branch(z3.UGT(a.z(), b.z())) else b

@model('<tokens::tokenizer::Kind as Into<&str>>::into')
def _(I, ctx, k):
    fn = [f for n, f in I.fns.items() if 'tokenizer.rs:15:45' in n and n.endswith('::from')][0]
    return I.call_fn(ctx, fn, [Ref(lambda: k, None)])
def fully(v):
    v = deref(v)
    while isinstance(v, Ref): v = v.get()
    return v
@model('re:^<&+(.*) as PartialEq(<.*>)?>::(eq|ne)$')
def _(I, ctx, a, b):
    import re as _re
    m = _re.match(r'^<&+(.*) as PartialEq(<.*>)?>::(eq|ne)$', ctx.cur_key)
    ty, op = m.group(1), m.group(3)
    x, y = fully(a), fully(b)
    if isinstance(x, BV):
        r = (x.e == y.e) if (x.conc() and y.conc()) else (x.z() == y.z())
    elif isinstance(x, bool) or z3.is_bool(x):
        r = (x == y)
    elif isinstance(x, Agg) and x.name == 'f64':
        r = repr(x.fields) == repr(y.fields)
    else:
        fn = I.find_fn(f'<{ty.split("::")[-1]} as PartialEq>::eq')
        r = I.call_fn(ctx, fn, [Ref(lambda: x, None), Ref(lambda: y, None)])
    if op == 'ne': r = (not r) if isinstance(r, bool) else z3.Not(r)
    return r
@model('re:^<(u8|u16|u32|u64|usize|i32|i64|bool|char) as PartialEq>::(eq|ne)$')
def _(I, ctx, a, b):
    x, y = fully(a), fully(b)
    r = (x.e == y.e) if (x.conc() and y.conc()) else (x.z() == y.z())
    return r
@model('re:^<f64 as PartialEq>::eq$')
def _(I, ctx, a, b): return repr(fully(a).fields) == repr(fully(b).fields)
def lex(ctx, s, symbols):
    lines = I.call(ctx, 'split_lines', [Ref(lambda: s, None)])
    contents = Agg('Contents', [lines])
    reader = I.call(ctx, 'ContentReader::new', [Ref(lambda: contents, None)])
    source = Agg('Source', [Agg('UniqueSource', [])])
    tk = I.call(ctx, 'Tokenizer::new', [Ref(lambda: symbols, None), Ref(lambda: source, None), reader])
    toks = []
    for _ in range(len(s.b) + 2):
        r = I.call(ctx, 'Tokenizer::pop', [Ref(lambda: tk, None)])
        if r.variant == 'Err': return None
        o = r.fields[0]
        if o.variant == 'None':
            return None if tk.fields[6].items else toks
        toks.append(o.fields[0])
    return None

def harness(N):
    from proto_c10 import sym_str
    if P.SYMBOLS is None: P.SYMBOLS = P.build_symbols()
    def h(ctx):
        chars = [P.sym_char(ctx, f'c{i}') for i in range(N)]
        if os.environ.get('C0'): ctx.assume(chars[0].z() == int(os.environ['C0']))
        def wit(m): return ''.join(chr(m.eval(c.z(), model_completion=True).as_long()) for c in chars)
        symbols = copy.deepcopy(P.SYMBOLS)
        toks = lex(ctx, sym_str(ctx, chars), symbols)
        if not toks: return
        if any(t.fields[0].variant == 'GraveAccent' for t in toks): return
        buf = I.call(ctx, 'Buffer::new', [])
        for i, t in enumerate(toks):
            if i: I.call(ctx, 'Buffer::push_whitespace', [Ref(lambda: buf, None)])
            I.call(ctx, 'Buffer::push_token', [Ref(lambda: buf, None), Ref((lambda v: (lambda: v))(t), None)])
        out = buf.fields[0]
        toks2 = lex(ctx, StrV(list(out.b)), symbols)
        def show(m): return bytes(m.eval(b.z(), model_completion=True).as_long() for b in out.b)
        w2 = lambda m: (wit(m), show(m))
        if toks2 is None: raise Violation('formatted text does not lex cleanly', w2)
        if len(toks2) != len(toks): raise Violation(f'{len(toks)} tokens became {len(toks2)}', w2)
        for a, b in zip(toks, toks2):
            eq = I.call(ctx, 'Token::equal_format', [Ref((lambda v: (lambda: v))(a), None), Ref((lambda v: (lambda: v))(b), None)])
            if not isinstance(eq, bool): eq = not ctx.feasible(z3.Not(eq))
            if not eq: raise Violation(f'token {a.fields[0].variant} changed', w2)
    return h

if __name__ == '__main__':
    N = int(sys.argv[1]); t = time.time()
    st = explore(harness(N))
    print(f'C12 N={N} paths={st["paths"]} solver_calls={st["solver"]} exhausted={st["exhausted"]} time={time.time()-t:.1f}s')
    for msg, w in st['violations'][:8]: print('VIOLATION', w, msg)
