import os, sys, time, re
os.environ['MIR'] = '/tmp/probe/vhdl_lang.mir'
os.environ['ENUM_FILES'] = ','.join('vhdl_lang/src/' + f for f in [
    'syntax/tokens/tokenizer.rs', 'ast.rs', 'data/error_codes.rs', 'data/diagnostic.rs', 'standard.rs', 'data/message.rs'])
sys.path.insert(0, '/tmp/probe/mirsym')
import z3
from mslib import *
import mslib

# ---- additional models for the vhdl_lang tokenizer ----
@model('re:^<.* as Clone>::clone$')
def _(I, ctx, r):
    v = deref(r)
    if isinstance(v, VecV): return VecV(list(v.items))
    if isinstance(v, StrV): return StrV(list(v.b))
    if isinstance(v, Agg): return I.deepcopy(v)
    return v
@model('re:^<.* as Into<.*>>::into$')
def _(I, ctx, v): return v
@model('re:^<.* as From<.*>>::from$')
def _(I, ctx, v):
    m = re.match(r'^<(u8|u16|u32|u64|usize|i32|i64|char) as From<(\w+)>>::from$', ctx.cur_key)
    if m and isinstance(v, BV):
        tb = INT_BITS[m.group(1)]
        if v.conc(): return BV(v.e, tb)
        return BV(z3.ZeroExt(tb - v.bits, v.e), tb) if tb > v.bits else v
    return v
@model('re:^<.* as AsRef<.*>>::as_ref$')
def _(I, ctx, r): return r
@model('alloc::fmt::format')
def _(I, ctx, args): return StrV([BV(ord('?'), 8)])
@model('re:^std::fmt::Arguments::<\'_>::new.*$')
def _(I, ctx, *a): return Agg('Arguments', [])
@model('re:^core::fmt::rt::.*$')
def _(I, ctx, *a): return Agg('FmtArg', [])
@model('re:^Arguments(::<.*>)?::.*$')
def _(I, ctx, *a): return Agg('Arguments', [])
@model('std::fmt::format')
def _(I, ctx, args): return StrV([BV(ord('?'), 8)])
@model('re:^<.* as ToString>::to_string$')
def _(I, ctx, r): return StrV([BV(ord('?'), 8)])
@model('Vec::clear')
def _(I, ctx, r): deref(r).items.clear(); return UNIT
@model('Vec::append')
def _(I, ctx, a, b): deref(a).items.extend(deref(b).items); deref(b).items.clear(); return UNIT
@model('Vec::is_empty')
def _(I, ctx, r): return len(deref(r).items) == 0
@model('re:^Vec::<.*>::from$|^<Vec<.*> as From<&\\[.*\\]>>::from$')
def _(I, ctx, r):
    v = deref(r); return VecV(list(v.items() if isinstance(v, SliceV) else v))
@model('re:^core::slice::<impl \\[.*\\]>::to_vec$')
def _(I, ctx, r):
    v = deref(r); return VecV(list(v.items() if isinstance(v, SliceV) else (v.items if isinstance(v, VecV) else v)))
@model('re:^<Vec<.*> as (std::ops::)?Index<usize>>::index$')
def _(I, ctx, r, idx):
    v = deref(r); i = ctx.concretize(idx)
    if i >= len(v.items): raise Panic('index out of bounds')
    return Ref(lambda: v.items[i], None)
@model('re:^core::slice::<impl \\[.*\\]>::first$')
def _(I, ctx, r):
    v = deref(r); items = v.items if isinstance(v, VecV) else v
    return SOME(Ref(lambda: items[0], None)) if items else NONE()
@model('re:^Box(::<.*>)?::new$')
def _(I, ctx, v): return v
@model('re:^Option::<.*>::is_some$|^Option::is_some$')
def _(I, ctx, r): return deref(r).variant == 'Some'
@model('re:^Option::is_none$')
def _(I, ctx, r): return deref(r).variant == 'None'
@model('re:^Option::map$')
def _(I, ctx, o, f):
    if o.variant == 'None': return NONE()
    return SOME(call_callable(I, ctx, f, [o.fields[0]]))
@model('re:^Option::unwrap$|^Option::expect$')
def _(I, ctx, o, *a):
    if o.variant == 'None': raise Panic('unwrap on None')
    return o.fields[0]
@model('re:^Result::<.*>::unwrap$|^Result::unwrap$')
def _(I, ctx, o):
    if o.variant == 'Err': raise Panic('unwrap on Err')
    return o.fields[0]
@model('re:^<Result<.*> as Try>::branch$')
def _(I, ctx, r):
    return Agg('ControlFlow', [r.fields[0]], 'Continue', 0) if r.variant == 'Ok' else Agg('ControlFlow', [Agg('Result', [r.fields[0]], 'Err', 1)], 'Break', 1)
@model('re:^<Result<.*> as FromResidual<Result<Infallible, .*>>>::from_residual$')
def _(I, ctx, r):
    e = r.fields[0]
    key = ctx.cur_key
    m = re.match(r'^<Result<(.*)> as FromResidual<Result<Infallible, (.*)>>>::from_residual$', key)
    tgt = split_top(m.group(1))[-1].split('::')[-1]; src = m.group(2).split('::')[-1]
    if tgt != src:
        fn = I.find_fn(f'<{tgt} as From<{src}>>::from')
        e = I.call_fn(ctx, fn, [e])
    return Agg('Result', [e], 'Err', 1)
@model('re:^char::methods::<impl char>::len_utf8$')
def _(I, ctx, c):
    def lt(k): return (c.e < k) if c.conc() else z3.ULT(c.e, k)
    if ctx.branch(lt(0x80)): return BV(1, 64)
    if ctx.branch(lt(0x800)): return BV(2, 64)
    if ctx.branch(lt(0x10000)): return BV(3, 64)
    return BV(4, 64)
@model('re:^char::methods::<impl char>::encode_utf8$')
def _(I, ctx, c, buf):
    from proto_c10 import encode
    bs = encode(ctx, c)
    l = deref(buf)
    for i, b in enumerate(bs): l[i] = b
    return Ref(lambda: StrV(bs), None)
@model('re:^(core::str::|std::str::)?from_utf8_unchecked$')
def _(I, ctx, r):
    v = deref(r); items = v.items() if isinstance(v, SliceV) else (v.items if isinstance(v, VecV) else v)
    s = StrV(list(items)); return Ref(lambda: s, None)
@model('re:^<.*Range.* as RangeBounds<.*>>::contains$|^std::ops::Range::contains$|^core::ops::range::.*contains.*$')
def _(I, ctx, r, x):
    rg = deref(r); v = deref(x)
    lo, hi = rg.fields
    return z3.And(z3.ULE(lo.z(), v.z()), z3.ULT(v.z(), hi.z()))
@model('re:^core::num::<impl u32>::saturating_sub$')
def _(I, ctx, a, b):
    if a.conc() and b.conc(): return BV(max(0, a.e - b.e), 32)
    return BV(z3.If(z3.ULT(a.z(), b.z()), z3.BitVecVal(0, 32), a.z() - b.z()), 32)

@model('re:^<(u8|u16|u32|u64|usize|i32|i64) as std::default::Default>::default$')
def _(I, ctx): return BV(0, 32)
@model('<u32 as std::default::Default>::default')
def _(I, ctx): return BV(0, 32)
@model('<usize as std::default::Default>::default')
def _(I, ctx): return BV(0, 64)
@model('std::string::String::as_str')
def _(I, ctx, r): return Ref(lambda: deref(r), None)
@model('std::string::String::as_bytes')
def _(I, ctx, r):
    s = deref(r); return Ref(lambda: SliceV(s.b, 0, len(s.b)), None)
@model('core::str::<impl str>::len')
def _(I, ctx, r): return BV(len(deref(r).b), 64)
@model('std::string::String::len')
def _(I, ctx, r): return BV(len(deref(r).b), 64)
@model('re:^<Option<.*> as Try>::branch$')
def _(I, ctx, o):
    if o.variant == 'Some': return Agg('ControlFlow', [o.fields[0]], 'Continue', 0)
    return Agg('ControlFlow', [NONE()], 'Break', 1)
@model('re:^<Option<.*> as FromResidual<Option<Infallible>>>::from_residual$')
def _(I, ctx, r): return NONE()

# ---------- hash map model: association list, structural key equality (forks on symbolic keys) ----------
class MapV:
    def __init__(self): self.kv = []
def key_bytes(k):
    k = deref(k)
    # Arc<Latin1String> / Latin1String{bytes: Vec<u8>}
    while isinstance(k, Agg) and k.fields and not isinstance(k.fields[0], VecV): k = deref(k.fields[0])
    if isinstance(k, Agg): return k.fields[0].items
    raise Unsupported('key ' + repr(k))
def key_eq(ctx, a, b):
    x, y = key_bytes(a), key_bytes(b)
    if len(x) != len(y): return False
    conds = []
    for p, q in zip(x, y):
        if p.conc() and q.conc():
            if p.e != q.e: return False
        else: conds.append(p.z() == q.z())
    if not conds: return True
    return ctx.branch(z3.And(conds))
@model('re:^(std::collections::)?HashMap::.*::get$|^HashMap::get$')
def _(I, ctx, m, k):
    mp = deref(m)
    for kk, vv in mp.kv:
        if key_eq(ctx, kk, k):
            return SOME(Ref((lambda v: (lambda: v))(vv), None))
    return NONE()
@model('re:^HashMap::insert$')
def _(I, ctx, m, k, v):
    mp = deref(m)
    for i, (kk, vv) in enumerate(mp.kv):
        if key_eq(ctx, kk, k):
            mp.kv[i] = (kk, v); return SOME(vv)
    mp.kv.append((k, v)); return NONE()
@model('re:^HashMap::len$')
def _(I, ctx, m): return BV(len(deref(m).kv), 64)
@model('re:^parking_lot::lock_api::RwLock::(read|write)$')
def _(I, ctx, r): return Agg('Guard', [deref(r)])
@model('re:^<parking_lot::lock_api::RwLock(Read|Write)Guard<.*> as Deref(Mut)?>::deref(_mut)?$')
def _(I, ctx, g): 
    mp = deref(g).fields[0]; return Ref(lambda: mp, None)
@model('re:^Option::cloned$')
def _(I, ctx, o):
    if o.variant == 'None': return NONE()
    v = deref(o.fields[0]); return SOME(I.deepcopy(v) if isinstance(v, Agg) else v)
@model('re:^<Arc<.*> as From<.*>>::from$|^Arc::<.*>::new$|^Arc::new$')
def _(I, ctx, v): return v
@model('re:^<Arc<.*> as Clone>::clone$|^Arc::clone$')
def _(I, ctx, r): return deref(r)
@model('re:^<Arc<.*> as AsRef<.*>>::as_ref$|^<Arc<.*> as Deref>::deref$')
def _(I, ctx, r): 
    v = deref(r); return Ref(lambda: v, None)
@model('re:^<Arc<.*> as PartialEq>::ne$')
def _(I, ctx, a, b): return not key_eq(ctx, a, b)
@model('re:^<Arc<.*> as PartialEq>::eq$')
def _(I, ctx, a, b): return key_eq(ctx, a, b)
@model('re:^Vec::with_capacity$')
def _(I, ctx, n): return VecV([])
@model('re:^Vec::extend_from_slice$')
def _(I, ctx, r, s):
    v = deref(s); deref(r).items.extend(v.items() if isinstance(v, SliceV) else (v.b if isinstance(v, StrV) else v)); return UNIT
@model('re:^<\\[.*\\] as PartialEq>::eq$|^<Vec<u8> as PartialEq>::eq$')
def _(I, ctx, a, b):
    def items(v):
        v = deref(v)
        while isinstance(v, Ref): v = v.get()
        return v.items if isinstance(v, VecV) else (v.items() if isinstance(v, SliceV) else (v.b if isinstance(v, StrV) else v))
    x, y = items(a), items(b)
    if len(x) != len(y): return False
    conds = []
    for p, q in zip(x, y):
        if p.conc() and q.conc():
            if p.e != q.e: return False
        else: conds.append(p.z() == q.z())
    return z3.And(conds) if conds else True
@model('<&tokens::tokenizer::Kind as Into<&str>>::into')
def _(I, ctx, r):
    fn = [f for n, f in I.fns.items() if 'tokenizer.rs:15:45' in n and n.endswith('::from')][0]
    return I.call_fn(ctx, fn, [r])
@model('re:^<.* as Fn(Mut|Once)?<.*>>::call(_mut|_once)?$')
def _(I, ctx, f, args):
    a = args.fields if isinstance(args, Agg) else []
    return call_callable(I, ctx, f, a)
@model('re:^Option::and_then$')
def _(I, ctx, o, f):
    if o.variant == 'None': return NONE()
    return call_callable(I, ctx, f, [o.fields[0]])
def _chk(ctx, a, b, op):
    bits = a.bits
    if a.conc() and b.conc():
        v = a.e * b.e if op == 'mul' else a.e + b.e
        return SOME(BV(v, bits)) if v < (1 << bits) else NONE()
    x, y = a.z(), b.z()
    no = z3.BVMulNoOverflow(x, y, False) if op == 'mul' else z3.BVAddNoOverflow(x, y, False)
    if ctx.branch(no): return SOME(BV(x * y if op == 'mul' else x + y, bits))
    return NONE()
@model('re:^core::num::<impl u64>::checked_mul$')
def _(I, ctx, a, b): return _chk(ctx, a, b, 'mul')
@model('re:^core::num::<impl u64>::checked_add$')
def _(I, ctx, a, b): return _chk(ctx, a, b, 'add')
@model('re:^Option::unwrap_or_else$')
def _(I, ctx, o, f):
    if o.variant == 'Some': return o.fields[0]
    return call_callable(I, ctx, f, [])
@model('re:^<.* as Iterator>::copied$')
def _(I, ctx, it): return ArrIt([deref(x) for x in it.items[it.i:]])
def _u8cls(ctx, b, ranges):
    v = deref(b)
    if v.conc(): return any(lo <= v.e <= hi for lo, hi in ranges)
    return z3.Or([z3.And(z3.UGE(v.e, lo), z3.ULE(v.e, hi)) for lo, hi in ranges])
@model('re:^core::num::<impl u8>::is_ascii_alphabetic$')
def _(I, ctx, b): return _u8cls(ctx, b, [(65, 90), (97, 122)])
@model('re:^core::num::<impl u8>::is_ascii_alphanumeric$')
def _(I, ctx, b): return _u8cls(ctx, b, [(65, 90), (97, 122), (48, 57)])
@model('re:^Result::err$')
def _(I, ctx, r): return SOME(r.fields[0]) if r.variant == 'Err' else NONE()
@model('re:^Result::map_err$')
def _(I, ctx, r, f):
    return r if r.variant == 'Ok' else Agg('Result', [call_callable(I, ctx, f, [r.fields[0]])], 'Err', 1)
@model('re:^Result::map$')
def _(I, ctx, r, f):
    return r if r.variant == 'Err' else Agg('Result', [call_callable(I, ctx, f, [r.fields[0]])], 'Ok', 0)
@model('re:^(std::hint::)?must_use$')
def _(I, ctx, v): return v
@model('re:^<.* as PartialOrd>::(lt|le|gt|ge)$')
def _(I, ctx, a, b):
    m = re.match(r'^<(.*) as PartialOrd>::(\w+)$', ctx.cur_key)
    ty = m.group(1).split('::')[-1]; op = m.group(2)
    fn = I.find_fn(f'<{ty} as PartialOrd>::partial_cmp')
    o = I.call_fn(ctx, fn, [a, b])
    if o.variant == 'None': return False
    v = o.fields[0].variant
    return {'lt': v == 'Less', 'le': v in ('Less', 'Equal'), 'gt': v == 'Greater', 'ge': v in ('Greater', 'Equal')}[op]
def _cmp_bv(ctx, x, y):
    x, y = deref(x), deref(y)
    if x.conc() and y.conc(): lt, eq = x.e < y.e, x.e == y.e
    else: lt, eq = z3.ULT(x.z(), y.z()), x.z() == y.z()
    if ctx.branch(lt): return Agg('Ordering', [], 'Less', (1 << 64) - 1)
    if ctx.branch(eq): return Agg('Ordering', [], 'Equal', 0)
    return Agg('Ordering', [], 'Greater', 1)
@model('re:^<(u8|u16|u32|u64|usize) as PartialOrd>::partial_cmp$')
def _(I, ctx, a, b): return SOME(_cmp_bv(ctx, a, b))
@model('re:^<(u8|u16|u32|u64|usize) as Ord>::cmp$')
def _(I, ctx, a, b): return _cmp_bv(ctx, a, b)
@model('re:^core::num::<impl u64>::checked_pow$')
def _(I, ctx, base, exp):
    e = ctx.concretize(exp)
    acc = SOME(BV(1, 64))
    if e > 64:
        # base >= 2 overflows; 0/1 stay
        if ctx.branch((base.e <= 1) if base.conc() else z3.ULE(base.z(), 1)):
            return SOME(base if e > 0 else BV(1, 64))
        return NONE()
    for _ in range(e):
        if acc.variant == 'None': return acc
        acc = _chk(ctx, acc.fields[0], base, 'mul')
    return acc
@model('re:^core::str::<impl str>::parse$')
def _(I, ctx, r):
    b = deref(r).b
    # model of <f64 as FromStr> restricted to the alphabet the tokenizer lets through: ok iff [0-9]+(\.[0-9]*)?
    def isdig(x): return ctx.branch((48 <= x.e <= 57) if x.conc() else z3.And(z3.UGE(x.e, 48), z3.ULE(x.e, 57)))
    def isdot(x): return ctx.branch((x.e == 46) if x.conc() else x.e == 46)
    i = 0; nd = 0
    while i < len(b) and isdig(b[i]): i += 1; nd += 1
    ok = nd > 0
    if ok and i < len(b):
        if isdot(b[i]):
            i += 1
            while i < len(b) and isdig(b[i]): i += 1
            ok = i == len(b)
        else: ok = False
    if ok: return Agg('Result', [Agg('f64', [tuple(id(x) for x in b)])], 'Ok', 0)
    return Agg('Result', [Agg('ParseFloatError', [])], 'Err', 1)
@model('re:^std::f64::<impl f64>::powi$')
def _(I, ctx, x, n): return Agg('f64', [('powi', x, n)])
@model('std::ops::RangeInclusive::contains')
def _(I, ctx, r, x):
    rg = deref(r); v = deref(x)
    lo, hi = rg.fields[0], rg.fields[1]
    return z3.And(z3.ULE(lo.z(), v.z()), z3.ULE(v.z(), hi.z()))
@model('re:^<.* as Itertools>::find_position$')
def _(I, ctx, it, f):
    i = 0
    while True:
        o = it_next(ctx, it)
        if o.variant == 'None': return NONE()
        x = o.fields[0]
        keep = call_callable(I, ctx, f, [Ref((lambda v: (lambda: v))(x), None)])
        if not isinstance(keep, bool): keep = ctx.branch(keep)
        if keep: return SOME(Agg('tuple', [BV(i, 64), x]))
        i += 1
@model('re:^<.* as Iterator>::any$')
def _(I, ctx, it, f):
    it = deref(it)
    while True:
        o = it_next(ctx, it)
        if o.variant == 'None': return False
        keep = call_callable(I, ctx, f, [o.fields[0]])
        if not isinstance(keep, bool): keep = ctx.branch(keep)
        if keep: return True
def _is_ws(ctx, b):
    # char::is_whitespace restricted to one-byte chars (multi-byte whitespace: U+0085, U+00A0 ... handled as non-ws bytes here; spike only)
    if b.conc(): return b.e in (9, 10, 11, 12, 13, 32)
    return ctx.branch(z3.Or([b.z() == k for k in (9, 10, 11, 12, 13, 32)]))
@model('re:^core::str::<impl str>::trim$')
def _(I, ctx, r):
    b = deref(r).b; lo, hi = 0, len(b)
    while lo < hi and _is_ws(ctx, b[lo]): lo += 1
    while hi > lo and _is_ws(ctx, b[hi-1]): hi -= 1
    s = StrV(b[lo:hi]); return Ref(lambda: s, None)
@model('re:^<str as PartialEq>::eq$|^<&str as PartialEq>::eq$|^<&str as PartialEq<&str>>::eq$')
def _(I, ctx, a, b):
    x, y = deref(a), deref(b)
    while isinstance(x, Ref): x = x.get()
    while isinstance(y, Ref): y = y.get()
    if len(x.b) != len(y.b): return False
    conds = []
    for p, q in zip(x.b, y.b):
        if p.conc() and q.conc():
            if p.e != q.e: return False
        else: conds.append(p.z() == q.z())
    return z3.And(conds) if conds else True
@model('re:^Option::is_some_and$')
def _(I, ctx, o, f):
    o = deref(o)
    if o.variant == 'None': return False
    return call_callable(I, ctx, f, [o.fields[0]])
@model('re:^Option::as_ref$')
def _(I, ctx, r):
    o = deref(r)
    if o.variant == 'None': return NONE()
    v = o.fields[0]; return SOME(Ref(lambda: v, None))
@model('re:^<Option<.*> as Deref>::deref$|^<Box<.*> as Deref>::deref$')
def _(I, ctx, r):
    v = deref(r); return Ref(lambda: v, None)
I = mslib.I

def sym_char(ctx, name):
    c = z3.BitVec(name, 32)
    ctx.assume(z3.And(z3.ULE(c, 0x10FFFF), z3.Or(z3.ULT(c, 0xD800), z3.UGT(c, 0xDFFF))))
    return BV(c, 32)

def harness(N):
    from proto_c10 import sym_str
    def h(ctx):
        chars = [sym_char(ctx, f'c{i}') for i in range(N)]
        def wit(m): return [m.eval(c.z(), model_completion=True).as_long() for c in chars]
        s = sym_str(ctx, chars)
        lines = I.call(ctx, 'split_lines', [Ref(lambda: s, None)])
        contents = Agg('Contents', [lines])
        reader = I.call(ctx, 'ContentReader::new', [Ref(lambda: contents, None)])
        # exercise the reader alone first: pop_char until None, check lock-step of pos
        n = 0
        while True:
            o = I.call(ctx, 'ContentReader::pop_char', [Ref(lambda: reader, None)])
            if o.variant == 'None': break
            n += 1
            if n > N + 1: raise Violation('reader yields more chars than input', wit)
    return h

if __name__ == '__main__':
    N = int(sys.argv[1]); t = time.time()
    st = explore(harness(N))
    print(f'N={N} paths={st["paths"]} solver_calls={st["solver"]} exhausted={st["exhausted"]} time={time.time()-t:.1f}s')
    for v in st['violations']: print('VIOLATION', v)

# ---------------- tokenizer harness ----------------
import copy as _copy
def build_symbols():
    ctx = Ctx([])
    symtab = Agg('SymbolTable', [MapV()])     # RwLock is transparent
    kws = I.call(ctx, 'VHDLStandard::keywords', [Ref(lambda: Agg('VHDLStandard', [], 'VHDL2008', ENUMS['VHDLStandard'].index('VHDL2008')), None)])
    kwl = deref(kws)
    kwl = kwl.items() if isinstance(kwl, SliceV) else kwl
    keywords = VecV([])
    for k in kwl:
        name = I.call(ctx, 'Kind::as_str', [Ref((lambda v: (lambda: v))(k), None)])
        lat = Agg('Latin1String', [VecV(list(deref(name).b))])
        sym = I.call(ctx, 'SymbolTable::insert', [Ref(lambda: symtab, None), Ref((lambda v: (lambda: v))(lat), None)])
        assert sym.fields[0].e == len(keywords.items), (sym, len(keywords.items))
        keywords.items.append(k)
    return Agg('Symbols', [symtab, keywords, MapV()])

SYMBOLS = None
def tok_harness(N):
    from proto_c10 import sym_str
    global SYMBOLS
    if SYMBOLS is None:
        t = time.time(); SYMBOLS = build_symbols(); print(f'symbols built: {len(SYMBOLS.fields[1].items)} keywords, {len(SYMBOLS.fields[0].fields[0].kv)} map entries, {time.time()-t:.1f}s')
    def h(ctx):
        chars = [sym_char(ctx, f'c{i}') for i in range(N)]
        def wit(m): return ''.join(chr(m.eval(c.z(), model_completion=True).as_long()) for c in chars)
        s = sym_str(ctx, chars)
        lines = I.call(ctx, 'split_lines', [Ref(lambda: s, None)])
        contents = Agg('Contents', [lines])
        reader = I.call(ctx, 'ContentReader::new', [Ref(lambda: contents, None)])
        symbols = _copy.deepcopy(SYMBOLS)
        source = Agg('Source', [Agg('UniqueSource', [])])
        tk = I.call(ctx, 'Tokenizer::new', [Ref(lambda: symbols, None), Ref(lambda: source, None), reader])
        toks = []; errs = 0
        prev_end = None
        for _ in range(N + 2):
            try:
                r = I.call(ctx, 'Tokenizer::pop', [Ref(lambda: tk, None)])
            except Panic as p:
                raise Violation('panic: ' + str(p), wit)
            if r.variant == 'Err': errs += 1; continue
            o = r.fields[0]
            if o.variant == 'None': break
            t = o.fields[0]
            toks.append(t)
            pos = t.fields[2]                       # Token{kind,value,pos,comments}
            rng = pos.fields[1]
            st, en = rng.fields
            lt = z3.Or(z3.ULT(st.fields[0].z(), en.fields[0].z()), z3.And(st.fields[0].z() == en.fields[0].z(), z3.ULT(st.fields[1].z(), en.fields[1].z())))
            if ctx.feasible(z3.Not(lt)): raise Violation('empty or inverted token range', wit)
            if prev_end is not None:
                le = z3.Or(z3.ULT(prev_end.fields[0].z(), st.fields[0].z()), z3.And(prev_end.fields[0].z() == st.fields[0].z(), z3.ULE(prev_end.fields[1].z(), st.fields[1].z())))
                if ctx.feasible(z3.Not(le)): raise Violation('tokens overlap', wit)
            prev_end = en
        else:
            raise Violation('tokenizer did not terminate within N+2 pops', wit)
        ctx.stat = (len(toks), errs)
    return h

if __name__ == '__main__' and len(sys.argv) > 2 and sys.argv[2] == 'tok':
    N = int(sys.argv[1]); t = time.time()
    st = explore(tok_harness(N))
    print(f'TOK N={N} paths={st["paths"]} solver_calls={st["solver"]} exhausted={st["exhausted"]} time={time.time()-t:.1f}s')
    for v in st['violations']: print('VIOLATION', v)
