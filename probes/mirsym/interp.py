"""Prototype path-wise symbolic interpreter for rustc MIR text (subset)."""
import re, sys, copy
import z3
from mir import load, split_top

class Panic(Exception): pass
class Infeasible(Exception): pass
class Unsupported(Exception): pass

# ---------------- values ----------------
class BV:
    __slots__ = ('e', 'bits')
    def __init__(self, e, bits):
        if isinstance(e, int): e &= (1 << bits) - 1
        self.e, self.bits = e, bits
    def z(self):
        return z3.BitVecVal(self.e, self.bits) if isinstance(self.e, int) else self.e
    def conc(self): return isinstance(self.e, int)
    def __repr__(self): return f'BV({self.e}:{self.bits})'

class Agg:
    """struct / tuple / enum variant"""
    def __init__(self, name, fields, variant=None, vidx=None):
        self.name, self.fields, self.variant, self.vidx = name, fields, variant, vidx
    def __repr__(self): return f'{self.name}{"::"+self.variant if self.variant else ""}{self.fields}'

class VecV:
    def __init__(self, items): self.items = items
    def __repr__(self): return f'Vec{self.items}'
class StrV:
    def __init__(self, b): self.b = b      # list of BV(8)
    def __repr__(self): return f'Str{self.b}'
class SliceV:
    def __init__(self, base, lo, hi): self.base, self.lo, self.hi = base, lo, hi
    def items(self): return self.base[self.lo:self.hi]
class Ref:
    def __init__(self, get, set): self.get, self.set = get, set
class Cell:
    def __init__(self, v=None): self.v = v
class CharsIt:
    def __init__(self, s, i=0): self.s, self.i = s, i
class UninitBox:
    def __init__(self): self.arr = None
class Unit: pass
UNIT = Unit()

def NONE(): return Agg('Option', [], 'None', 0)
def SOME(v): return Agg('Option', [v], 'Some', 1)

INT_BITS = {'u8': 8, 'i8': 8, 'u16': 16, 'i16': 16, 'u32': 32, 'i32': 32, 'u64': 64, 'i64': 64,
            'usize': 64, 'isize': 64, 'char': 32, 'u128': 128, 'i128': 128}

# ---------------- context (path + solver) ----------------
class Ctx:
    def __init__(self, prefix):
        self.prefix, self.taken, self.alts = prefix, [], []
        self.solver = z3.Solver()
        self.steps = 0
        self.nsolver = 0
    def assume(self, c):
        if isinstance(c, bool):
            if not c: raise Infeasible()
            return
        self.solver.add(c)
    def feasible(self, c):
        self.nsolver += 1
        self.solver.push(); self.solver.add(c)
        r = self.solver.check(); self.solver.pop()
        if r == z3.unknown: raise Unsupported('solver unknown')
        return r == z3.sat
    def feasible_m(self, c):
        self.nsolver += 1
        self.solver.push(); self.solver.add(c)
        r = self.solver.check()
        if r == z3.sat: self.last_model = self.solver.model()
        self.solver.pop()
        if r == z3.unknown: raise Unsupported('solver unknown')
        return r == z3.sat
    def branch(self, c):
        if isinstance(c, bool): return c
        c = z3.simplify(c)
        if z3.is_true(c): return True
        if z3.is_false(c): return False
        i = len(self.taken)
        if i < len(self.prefix):
            d = self.prefix[i]
        else:
            # model cache: the last model already witnesses one side
            side = None
            m = getattr(self, 'last_model', None)
            if m is not None:
                try:
                    v = m.eval(c, model_completion=True)
                    side = True if z3.is_true(v) else (False if z3.is_false(v) else None)
                except z3.Z3Exception:
                    side = None
            if side is None:
                t = self.feasible_m(c); f = self.feasible_m(z3.Not(c))
            elif side:
                t = True; f = self.feasible_m(z3.Not(c))
            else:
                f = True; t = self.feasible_m(c)
            if t and f:
                d = True; self.alts.append(self.taken + [False])
            elif t: d = True
            elif f: d = False
            else: raise Infeasible()
        self.taken.append(d)
        cc = c if d else z3.Not(c)
        self.solver.add(cc)
        m = getattr(self, 'last_model', None)
        if m is not None:
            try:
                if not z3.is_true(m.eval(cc, model_completion=True)): self.last_model = None
            except z3.Z3Exception:
                self.last_model = None
        return d
    def concretize(self, v):
        """fork until BV v is a concrete python int (choices are recorded so replays are deterministic)"""
        if v.conc(): return v.e
        sv = z3.simplify(v.e)
        if z3.is_bv_value(sv): return sv.as_long()
        while True:
            i = len(self.taken)
            if i < len(self.prefix):
                val, eq = self.prefix[i]
            else:
                self.nsolver += 1
                if self.solver.check() != z3.sat: raise Infeasible()
                val = self.solver.model().eval(v.e, model_completion=True).as_long()
                eq = True
                if self.feasible(v.e != val): self.alts.append(self.taken + [(val, False)])
            self.taken.append((val, eq))
            self.solver.add(v.e == val if eq else v.e != val)
            if eq: return val

# ---------------- place / operand parsing ----------------
LOCAL = re.compile(r'^_(\d+)$')

def match_paren(s, i):
    """s[i] is an opening bracket; return index of matching close"""
    op = s[i]; cl = {'(': ')', '[': ']', '{': '}'}[op]
    d = 0
    for j in range(i, len(s)):
        if s[j] == op: d += 1
        elif s[j] == cl:
            d -= 1
            if d == 0: return j
    raise ValueError(s)

def top_find(s, sub, last=False):
    d = 0; res = -1
    for i, c in enumerate(s):
        if c in '([{<': d += 1
        elif c in ')]}' or (c == '>' and i > 0 and s[i-1] != '-'): d -= 1
        if d == 0 and s.startswith(sub, i):
            if not last: return i
            res = i
    return res

def parse_place(s):
    s = s.strip()
    if s.startswith('(fake) '): s = s[7:]
    if s.startswith('fake shallow '): s = s[13:]
    m = LOCAL.match(s)
    if m: return ('local', int(m.group(1)))
    if s.endswith(']'):
        # find matching '['
        d = 0
        for j in range(len(s) - 1, -1, -1):
            if s[j] == ']': d += 1
            elif s[j] == '[':
                d -= 1
                if d == 0: break
        return ('index', parse_place(s[:j]), s[j+1:-1].strip())
    if s.startswith('(*') and match_paren(s, 0) == len(s) - 1:
        return ('deref', parse_place(s[2:-1]))
    if s.startswith('(') and match_paren(s, 0) == len(s) - 1:
        inner = s[1:-1]
        k = top_find(inner, ': ')
        if k >= 0:
            left = inner[:k]
            dot = top_find(left, '.', last=True)
            return ('field', parse_place(left[:dot]), int(left[dot+1:]))
        k = top_find(inner, ' as ')
        if k >= 0:
            return ('downcast', parse_place(inner[:k]), inner[k+4:].strip())
    raise Unsupported('place ' + s)

CONST_INT = re.compile(r"^const (-?\d+)_(\w+)$")

def parse_char(body):
    if body.startswith('\\'):
        esc = {'n': 10, 'r': 13, 't': 9, '0': 0, '\\': 92, "'": 39, '"': 34}
        if body[1] in esc: return esc[body[1]]
        if body[1] == 'u': return int(body[3:-1], 16)
        if body[1] == 'x': return int(body[2:], 16)
    return ord(body)

def mask_literals(st):
    out = list(st); i = 0
    while i < len(st):
        c = st[i]
        if c == '"':
            j = i + 1
            while j < len(st) and st[j] != '"':
                if st[j] == '\\': out[j] = 'x'; j += 1
                out[j] = 'x'; j += 1
            i = j
        elif c == "'" and i + 2 < len(st) and st[i+2] == "'":
            out[i+1] = 'x'; i += 2
        elif c == "'" and i + 3 < len(st) and st[i+1] == '\\' and st[i+3] == "'":
            out[i+1] = out[i+2] = 'x'; i += 3
        i += 1
    return ''.join(out)

class Interp:
    def __init__(self, fns, models, enums=None):
        self.fns, self.models = fns, models
        self.enums = enums or {}
        self.by_suffix = {}
        for n in fns:
            self.by_suffix.setdefault(n.split('::')[-1], []).append(n)

    # ---- operands / rvalues ----
    def eval_const(self, ctx, s, frame):
        m = CONST_INT.match(s)
        if m: return BV(int(m.group(1)), INT_BITS[m.group(2)])
        body = s[6:]
        if re.match(r'^-?[\d\.eE+-]+f(32|64)$', body): return Agg('f64', [body])
        if body == 'true': return True
        if body == 'false': return False
        if body == '()': return UNIT
        if body.startswith("'"): return BV(parse_char(body[1:-1]), 32)
        if body.startswith('"'):
            return StrV([BV(b, 8) for b in eval(body).encode('utf-8')])
        mnum = re.match(r'^(?:core::num::<impl )?(\w+?)>?::(MAX|MIN)$', body)
        if mnum and mnum.group(1) not in INT_BITS: mnum = None
        if mnum:
            t = mnum.group(1); b = INT_BITS[t]
            if t.startswith('i'): return BV(((1 << (b-1)) - 1) if mnum.group(2) == 'MAX' else (1 << (b-1)), b)
            return BV(((1 << b) - 1) if mnum.group(2) == 'MAX' else 0, b)
        last = body.split('::')[-1]
        if re.match(r'^[A-Z][A-Z0-9_]+$', last) and last in self.by_suffix and len(self.by_suffix[last]) == 1:
            return self.call_fn(ctx, self.fns[self.by_suffix[last][0]], [])
        mvv = re.match(r'^([\w:]+)::(\w+)$', self.strip_generics(body))
        if mvv and mvv.group(2)[0].isupper() and 'promoted[' not in body:
            return Agg(mvv.group(1), [], mvv.group(2), self.variant_index(mvv.group(1), mvv.group(2)))
        if 'promoted[' in body:
            name = body
            fn = self.find_fn(name)
            return self.call_fn(ctx, fn, [])
        raise Unsupported('const ' + s)

    def place_ref(self, ctx, p, frame):
        """returns (get, set) for place"""
        k = p[0]
        if k == 'local':
            cell = frame[p[1]]
            return (lambda: cell.v), (lambda v: setattr(cell, 'v', v))
        if k == 'deref':
            g, _ = self.place_ref(ctx, p[1], frame)
            r = g()
            if isinstance(r, Ref): return r.get, r.set
            # boxes / direct objects
            return (lambda: r), (lambda v: (_ for _ in ()).throw(Unsupported('assign through non-ref')))
        if k == 'field':
            g, _ = self.place_ref(ctx, p[1], frame)
            idx = p[2]
            def get():
                o = g()
                while isinstance(o, Ref): o = o.get()
                if isinstance(o, UninitBox): return o
                if not isinstance(o, Agg) and idx == 0: return o   # transparent newtype over a slice (Latin1Str)
                return o.fields[idx]
            def set(v):
                o = g()
                if isinstance(o, UninitBox): o.arr = v; return
                o.fields[idx] = v
            return get, set
        if k == 'downcast':
            return self.place_ref(ctx, p[1], frame)
        if k == 'index':
            g, _ = self.place_ref(ctx, p[1], frame)
            mconst = re.match(r'^(-?)(\d+) of (\d+)$', p[2])
            if mconst:
                kk = int(mconst.group(2)); neg = mconst.group(1) == '-'
                ig = lambda: BV(kk, 64)
            else:
                neg = False
                ig, _ = self.place_ref(ctx, parse_place(p[2]), frame)
            def lst():
                o = g()
                while isinstance(o, Ref): o = o.get()
                if isinstance(o, SliceV): return o.base, o.lo
                if isinstance(o, VecV): return o.items, 0
                if isinstance(o, StrV): return o.b, 0
                if isinstance(o, list): return o, 0
                raise Unsupported('index into ' + repr(o))
            def get():
                l, off = lst(); i = ctx.concretize(ig())
                if neg:
                    o = g()
                    while isinstance(o, Ref): o = o.get()
                    return l[off + self.seq_len(o) - i]
                return l[off + i]
            def set(v):
                l, off = lst(); i = ctx.concretize(ig())
                l[off + i] = v
            return get, set
        raise Unsupported(p)

    def operand(self, ctx, s, frame):
        s = s.strip()
        if s.startswith('copy '):
            g, _ = self.place_ref(ctx, parse_place(s[5:]), frame)
            v = g()
            return self.deepcopy(v) if isinstance(v, Agg) else v
        if s.startswith('move '):
            g, _ = self.place_ref(ctx, parse_place(s[5:]), frame)
            return g()
        if s.startswith('const '):
            return self.eval_const(ctx, s, frame)
        if re.match(r'^[\w:<>, ]+$', s): return Agg('fnitem:' + s, [])
        raise Unsupported('operand ' + s)

    def deepcopy(self, v):
        if isinstance(v, Agg): return Agg(v.name, [self.deepcopy(f) for f in v.fields], v.variant, v.vidx)
        return v

    BIN = {'Lt', 'Le', 'Gt', 'Ge', 'Eq', 'Ne', 'Add', 'Sub', 'Mul', 'BitAnd', 'BitOr', 'BitXor',
           'AddWithOverflow', 'SubWithOverflow', 'MulWithOverflow', 'Shl', 'Shr', 'Div', 'Rem'}

    def binop(self, ctx, op, a, b, signed=False):
        if isinstance(a, Agg) and a.name == 'f64' or isinstance(b, Agg) and b.name == 'f64': return Agg('f64', [(op, a, b)])
        if isinstance(a, bool) or z3.is_bool(a) if not isinstance(a, BV) else False:
            if op == 'Eq': return a == b if isinstance(a, bool) and isinstance(b, bool) else (z3.BoolVal(a) if isinstance(a, bool) else a) == (z3.BoolVal(b) if isinstance(b, bool) else b)
            if op == 'Ne': return a != b if isinstance(a, bool) and isinstance(b, bool) else (z3.BoolVal(a) if isinstance(a, bool) else a) != (z3.BoolVal(b) if isinstance(b, bool) else b)
            if op == 'BitAnd': return z3.And(a, b) if not (isinstance(a, bool) and isinstance(b, bool)) else (a and b)
            if op == 'BitOr': return z3.Or(a, b) if not (isinstance(a, bool) and isinstance(b, bool)) else (a or b)
            raise Unsupported('bool op ' + op)
        bits = a.bits
        if a.conc() and b.conc():
            x, y = a.e, b.e
            M = 1 << bits
            r = {'Lt': x < y, 'Le': x <= y, 'Gt': x > y, 'Ge': x >= y, 'Eq': x == y, 'Ne': x != y}.get(op)
            if r is not None: return r
            if op in ('Add', 'AddWithOverflow'): v = x + y
            elif op in ('Sub', 'SubWithOverflow'): v = x - y
            elif op in ('Mul', 'MulWithOverflow'): v = x * y
            elif op == 'BitAnd': v = x & y
            elif op == 'BitOr': v = x | y
            elif op == 'BitXor': v = x ^ y
            else: raise Unsupported(op)
            if op.endswith('WithOverflow'):
                return Agg('tuple', [BV(v % M, bits), not (0 <= v < M)])
            return BV(v % M, bits)
        x, y = a.z(), b.z()
        if op == 'Lt': return z3.ULT(x, y)
        if op == 'Le': return z3.ULE(x, y)
        if op == 'Gt': return z3.UGT(x, y)
        if op == 'Ge': return z3.UGE(x, y)
        if op == 'Eq': return x == y
        if op == 'Ne': return x != y
        if op == 'Add': return BV(x + y, bits)
        if op == 'Sub': return BV(x - y, bits)
        if op == 'BitAnd': return BV(x & y, bits)
        if op == 'BitOr': return BV(x | y, bits)
        if op == 'AddWithOverflow':
            return Agg('tuple', [BV(x + y, bits), z3.Not(z3.BVAddNoOverflow(x, y, False))])
        if op == 'SubWithOverflow':
            return Agg('tuple', [BV(x - y, bits), z3.ULT(x, y)])
        raise Unsupported('binop ' + op)

    def rvalue(self, ctx, s, frame):
        s = s.strip()
        if s.startswith('no_retag '): s = s[9:]
        if s.startswith('&'):
            rest = s[1:]
            for pre in ('mut ', 'raw const ', 'raw mut ', 'fake shallow ', 'fake '):
                if rest.startswith(pre): rest = rest[len(pre):]
            g, st = self.place_ref(ctx, parse_place(rest), frame)
            # reference to heap-like object: keep identity
            return Ref(g, st)
        m = re.match(r'^(\w+)\((.*)\)$', s)
        if m and m.group(1) in self.BIN:
            a, b = split_top(m.group(2))
            return self.binop(ctx, m.group(1), self.operand(ctx, a, frame), self.operand(ctx, b, frame))
        if m and m.group(1) == 'Not':
            v = self.operand(ctx, m.group(2), frame)
            if isinstance(v, bool): return not v
            if isinstance(v, BV): return BV(~v.z() if not v.conc() else ~v.e, v.bits)
            return z3.Not(v)
        if m and m.group(1) == 'Neg':
            v = self.operand(ctx, m.group(2), frame)
            return BV((-v.e) if v.conc() else (-v.e), v.bits)
        if m and m.group(1) == 'discriminant':
            g, _ = self.place_ref(ctx, parse_place(m.group(2)), frame)
            o = g()
            while isinstance(o, Ref): o = o.get()
            return BV(o.vidx, 64)
        if m and m.group(1) == 'PtrMetadata':
            v = self.operand(ctx, m.group(2), frame)
            if isinstance(v, Ref): v = v.get()
            return BV(self.seq_len(v), 64)
        mc = re.match(r'^((?:copy|move|const) .*) as (.+?) \((\w+)(\(.*\))?\)$', s)
        if mc:
            v = self.operand(ctx, mc.group(1), frame)
            if mc.group(3) in ('PointerCoercion', 'PtrToPtr', 'Transmute') or mc.group(2) not in INT_BITS: return v
            tb = INT_BITS[mc.group(2)]
            if isinstance(v, BV):
                if v.conc(): return BV(v.e, tb)
                if tb > v.bits: return BV(z3.ZeroExt(tb - v.bits, v.e), tb)
                if tb < v.bits: return BV(z3.Extract(tb - 1, 0, v.e), tb)
                return BV(v.e, tb)
            raise Unsupported('cast ' + s)
        if s.startswith(('copy ', 'move ', 'const ')):
            return self.operand(ctx, s, frame)
        if s.startswith('[') and s.endswith(']') and '; ' not in s:
            return [self.operand(ctx, x, frame) for x in split_top(s[1:-1])]
        mrep = re.match(r'^\[(.*); (\d+)\]$', s)
        if mrep:
            v = self.operand(ctx, mrep.group(1), frame)
            return [v for _ in range(int(mrep.group(2)))]
        # closures
        mcl = re.match(r'^(\{closure@[^}]*\})( \{ (.*) \})?$', s)
        if mcl:
            fields = [self.operand(ctx, f.split(': ', 1)[1], frame) for f in split_top(mcl.group(3))] if mcl.group(3) else []
            return Agg(mcl.group(1), fields)
        # aggregates
        if s.startswith('(') and s.endswith(')'):
            return Agg('tuple', [self.operand(ctx, x, frame) for x in split_top(s[1:-1])])
        ma = re.match(r'^([\w:<>, \[\]&\']+?) \{ (.*) \}$', s)
        if ma:
            fields = [self.operand(ctx, f.split(': ', 1)[1], frame) for f in split_top(ma.group(2))]
            return Agg(self.strip_generics(ma.group(1)), fields)
        # enum variant: Path::<generics>::Variant(args) | Path::Variant
        st = self.strip_generics(s)
        mv = re.match(r'^([\w:]+)::(\w+)(\((.*)\))?$', st)
        if mv:
            ty = mv.group(1); var = mv.group(2)
            # args taken from the original text (generics may contain parens)
            if mv.group(3):
                k = s.rindex('::' + var + '(')
                inner = s[k + len(var) + 3:-1]
                fields = [self.operand(ctx, f, frame) for f in split_top(inner)]
            else:
                fields = []
            try:
                return Agg(ty, fields, var, self.variant_index(ty, var))
            except Unsupported:
                if mv.group(3): return Agg(ty + '::' + var, fields)   # tuple struct constructor
                raise
        raise Unsupported('rvalue ' + s)

    def variant_index(self, ty, var):
        base = ty.split('::')[-1]
        if base == 'Option': return {'None': 0, 'Some': 1}[var]
        if base == 'Result': return {'Ok': 0, 'Err': 1}[var]
        if base == 'Ordering': return {'Less': (1 << 64) - 1, 'Equal': 0, 'Greater': 1}[var]
        if base in self.enums: return self.enums[base].index(var)
        raise Unsupported(f'enum {ty}::{var}')

    @staticmethod
    def strip_generics(s):
        out, d = '', 0
        i = 0
        while i < len(s):
            if s.startswith('::<', i) and d == 0 and not s.startswith('::<impl ', i):
                d = 1; i += 3; continue
            if d > 0:
                if s[i] == '<': d += 1
                elif s[i] == '>' and s[i-1] != '-': d -= 1
                i += 1; continue
            out += s[i]; i += 1
        return out

    def seq_len(self, v):
        while isinstance(v, Ref): v = v.get()
        if isinstance(v, SliceV): return v.hi - v.lo
        if isinstance(v, VecV): return len(v.items)
        if isinstance(v, StrV): return len(v.b)
        if isinstance(v, list): return len(v)
        raise Unsupported('len of ' + repr(v))

    # ---- calls ----
    def find_fn(self, name):
        if name in self.fns: return self.fns[name]
        cands = self.by_suffix.get(name.split('::')[-1], [])
        if len(cands) == 1: return self.fns[cands[0]]
        tail = '::'.join(name.split('::')[-2:])
        c2 = [c for c in cands if c.endswith(tail)]
        if len(c2) == 1: return self.fns[c2[0]]
        # promoted: match by fn name + promoted idx
        for c in cands:
            if name.split('::')[-2] in c: return self.fns[c]
        raise Unsupported('fn ' + name + ' cands=' + str(cands))

    def call(self, ctx, callee, args):
        key = self.strip_generics(callee)
        key = re.sub(r"'\w+", "'_", key)
        key = re.sub(r'::<(&mut |&)?impl .*>$', '', key)
        if key.startswith('<Self as ') and args:
            a0 = args[0]
            while isinstance(a0, Ref): a0 = a0.get()
            if isinstance(a0, Agg): key = '<' + a0.name.split('::')[-1] + key[5:]
        ctx.cur_key = key
        if key in self.models:
            return self.models[key](self, ctx, *args)
        strict = getattr(self, 'resolve_strict', None)
        if strict:
            fn = strict(key)
            if fn is not None: return self.call_fn(ctx, fn, args)
        for pat, f in self.models.items():
            if pat.startswith('re:') and re.match(pat[3:], key): return f(self, ctx, *args)
        try:
            fn = self.find_fn(key)
        except Unsupported:
            raise Unsupported('no model for call ' + key)
        return self.call_fn(ctx, fn, args)

    def call_fn(self, ctx, fn, args):
        frame = {}
        class F(dict):
            def __missing__(s, k):
                c = Cell(); s[k] = c; return c
        frame = F()
        for i, a in enumerate(args): frame[i + 1].v = a
        bb = 0
        while True:
            for st in fn.blocks[bb]:
                ctx.steps += 1
                if ctx.steps > 200000: raise Unsupported('step limit')
                nxt = self.exec_stmt(ctx, st, frame)
                if nxt is not None:
                    if nxt == 'return': return frame[0].v if frame[0].v is not None else UNIT
                    bb = nxt; break
            else:
                raise Unsupported('fell off block')

    TERM_CALL = re.compile(r'^(.+?) = (.+)\((.*)\) -> \[return: bb(\d+), unwind.*\];$')
    def exec_stmt(self, ctx, st, frame):
        if st.startswith('goto -> bb'): return int(st[10:-1])
        if st == 'return;': return 'return'
        if st == 'unreachable;': raise Panic('unreachable executed')
        if st.startswith('switchInt('):
            m = re.match(r'^switchInt\((.*)\) -> \[(.*)\];$', st)
            v = self.operand(ctx, m.group(1), frame)
            targets = [t.strip() for t in m.group(2).split(',')]
            other = None
            for t in targets:
                k, b = t.split(': ')
                b = int(b[2:])
                if k == 'otherwise': other = b; continue
                kv = int(k)
                if isinstance(v, (bool,)) or z3.is_bool(v) if not isinstance(v, BV) else False:
                    c = (v == bool(kv)) if isinstance(v, bool) else (v if kv else z3.Not(v))
                else:
                    c = (v.e == kv) if v.conc() else (v.e == kv)
                if ctx.branch(c): return b
            return other
        if st.startswith('drop('):
            m = re.match(r'^drop\(.*\) -> \[return: bb(\d+),.*\];$', st)
            return int(m.group(1))
        if st.startswith('assert('):
            m = re.match(r'^assert\((.*)\) -> \[success: bb(\d+),.*\];$', st)
            parts = split_top(m.group(1))
            cs = parts[0]; neg = cs.startswith('!')
            v = self.operand(ctx, cs[1:] if neg else cs, frame)
            if neg: v = (not v) if isinstance(v, bool) else z3.Not(v)
            if ctx.branch(v): return int(m.group(2))
            raise Panic('assert failed: ' + parts[1])
        k = st.find(') -> [return: bb')
        if k > 0 and ' = ' in st[:k]:
            # find the '(' matching st[k]
            mst = mask_literals(st)
            d = 0; j = k
            while j >= 0:
                ch = mst[j]
                if ch == ')' and not (j >= 2 and st[j-1] == "'" and False): d += 1
                elif ch == '(':
                    d -= 1
                    if d == 0: break
                j -= 1
            lhs, callee = st[:j].split(' = ', 1)
            argtxt = st[j+1:k]
            if not self.is_rvalue_op(callee.strip()):
                args = [self.operand(ctx, a, frame) for a in split_top(argtxt)] if argtxt.strip() else []
                r = self.call(ctx, callee.strip(), args)
                _, setter = self.place_ref(ctx, parse_place(lhs), frame)
                setter(r)
                return int(re.match(r'\) -> \[return: bb(\d+)', st[k:]).group(1))
        if ' = ' in st and st.endswith(';'):
            lhs, rhs = st[:-1].split(' = ', 1)
            v = self.rvalue(ctx, rhs, frame)
            _, setter = self.place_ref(ctx, parse_place(lhs), frame)
            setter(v)
            return None
        if st in ('resume;',) or st.startswith(('StorageLive', 'StorageDead', 'nop', 'FakeRead', 'PlaceMention', 'AscribeUserType', 'Retag', 'Coverage')):
            return None
        raise Unsupported('stmt ' + st)

    def is_rvalue_op(self, name):
        return name in self.BIN or name in ('Not', 'discriminant', 'PtrMetadata', 'Neg', 'Len')


def explore(harness, max_paths=10**7, verbose=False):
    work = [[]]
    stats = dict(paths=0, infeasible=0, solver=0, violations=[])
    while work and stats['paths'] < max_paths:
        prefix = work.pop()
        ctx = Ctx(prefix)
        try:
            harness(ctx)
            stats['paths'] += 1
        except Infeasible:
            stats['infeasible'] += 1
        except Violation as v:
            stats['paths'] += 1
            ctx.solver.check()
            stats['violations'].append((str(v), v.witness(ctx)))
            if len(stats['violations']) >= int(__import__('os').environ.get('VCAP','5')): break
        stats['solver'] += ctx.nsolver
        work.extend(ctx.alts)
    stats['exhausted'] = not work
    return stats

class Violation(Exception):
    def __init__(self, msg, wit=None): super().__init__(msg); self.wit = wit
    def witness(self, ctx):
        return self.wit(ctx.solver.model()) if self.wit else None
