import sys, time, re, os
os.environ['MIR'] = '/tmp/probe/vhdl_syntax.mir'
os.environ['ENUM_FILES'] = 'vhdl_syntax/src/tokens/tokenizer.rs,vhdl_syntax/src/tokens/trivia_piece.rs,vhdl_syntax/src/tokens/token_kind.rs,vhdl_syntax/src/standard.rs'
sys.path.insert(0, '/tmp/probe/mirsym')
import z3
from mslib import *
import mslib
I = mslib.I

# harness-level stub: token interning arena (LazyLock<RwLock<Vec<Arc<..>>>>) -> fresh symbol
@model('Symbol::allocate')
def _(I, ctx, kind, text): return Agg('Symbol', [Agg('SymbolInner', [kind, text, BV(0, 64)])])
@model('re:^Symbol::allocate::<.*>$')
def _(I, ctx, kind, text): return Agg('Symbol', [Agg('SymbolInner', [kind, text, BV(0, 64)])])

@model('re:^<Arc<.*> as Deref>::deref$|^<Box<.*> as Deref>::deref$|^<Arc<.*> as AsRef<.*>>::as_ref$')
def _(I, ctx, r):
    v = deref(r); return Ref(lambda: v, None)
@model('re:^Arc::<.*>::new$|^Arc::new$|^Box::<.*>::new$|^Box::new$|^Box::<.*>::into_raw$|^Box::into_raw$|^Box::<.*>::from_raw$|^Box::from_raw$')
def _(I, ctx, v): return v
@model('re:^Vec::into_boxed_slice$')
def _(I, ctx, v): return v.items
@model('re:^core::slice::<impl \\[.*\\]>::len$')
def _(I, ctx, r):
    v = deref(r); return BV(I.seq_len(v), 64)
@model('re:^<.* as Into<.*>>::into$')
def _(I, ctx, v): raise Unsupported('Into::into ' + ctx.cur_key)
@model('re:^Option::(unwrap|expect)$')
def _(I, ctx, o, *a):
    if o.variant == 'None': raise Panic('unwrap/expect on None')
    return o.fields[0]
@model('re:^Result::(unwrap|expect)$')
def _(I, ctx, o, *a):
    if o.variant == 'Err': raise Panic('unwrap on Err')
    return o.fields[0]
@model('re:^Box::new_uninit$')
def _(I, ctx): return UninitBox()
@model('re:^std::boxed::box_assume_init_into_vec_unsafe$')
def _(I, ctx, b): return VecV(list(b.arr))
@model('re:^<.* as AsRef<.*>>::as_ref$|^<.* as Borrow<.*>>::borrow$')
def _(I, ctx, r):
    v = deref(r); return Ref(lambda: v, None)
@model('re:^Option::filter$')
def _(I, ctx, o, f):
    if o.variant == 'None': return o
    keep = call_callable(I, ctx, f, [Ref(lambda: o.fields[0], None)])
    if not isinstance(keep, bool): keep = ctx.branch(keep)
    return o if keep else NONE()
@model('re:^<.* as PartialOrd>::(lt|le|gt|ge)$')
def _(I, ctx, a, b):
    m = re.match(r'^<(.*) as PartialOrd>::(\w+)$', ctx.cur_key)
    ty = m.group(1).split('::')[-1]; op = m.group(2)
    fn = I.find_fn(f'<{ty} as PartialOrd>::partial_cmp')
    o = I.call_fn(ctx, fn, [a, b])
    if o.variant == 'None': return False
    v = o.fields[0].variant
    return {'lt': v == 'Less', 'le': v in ('Less', 'Equal'), 'gt': v == 'Greater', 'ge': v in ('Greater', 'Equal')}[op]
def _cmp_bv(ctx, x, y):
    x, y = deref(x), deref(y)
    if x.conc() and y.conc(): lt, eq = x.e < y.e, x.e == y.e
    else: lt, eq = z3.ULT(x.z(), y.z()), x.z() == y.z()
    if ctx.branch(lt): return Agg('Ordering', [], 'Less', (1 << 64) - 1)
    if ctx.branch(eq): return Agg('Ordering', [], 'Equal', 0)
    return Agg('Ordering', [], 'Greater', 1)
@model('re:^<(u8|u16|u32|u64|usize|isize) as PartialOrd>::partial_cmp$')
def _(I, ctx, a, b): return SOME(_cmp_bv(ctx, a, b))
@model('re:^(std|core)::slice::<impl \\[.*\\]>::to_vec$')
def _(I, ctx, r):
    v = deref(r)
    while isinstance(v, Ref): v = v.get()
    return VecV(list(v.items() if isinstance(v, SliceV) else (v.items if isinstance(v, VecV) else (v.b if isinstance(v, StrV) else v))))
def harness(N):
    def h(ctx):
        inp = [BV(z3.BitVec(f'b{i}', 8), 8) for i in range(N)]
        def wit(m): return bytes(m.eval(b.z(), model_completion=True).as_long() for b in inp)
        tok = I.call(ctx, 'Tokenizer::new', [ArrIt(list(inp))])
        tr = Ref(lambda: tok, None)
        sink = []; total = 0; n = 0
        while True:
            try:
                r = I.call(ctx, '<Tokenizer as Iterator>::next', [tr])
            except Panic as p:
                raise Violation('panic ' + str(p), wit)
            if r.variant == 'None': break
            t = r.fields[0].fields[0]
            n += 1
            if n > N + 2: raise Violation('too many tokens', wit)
            bl = I.call(ctx, 'Token::byte_len', [Ref(lambda: t, None)])
            total += ctx.concretize(bl)
            I.call(ctx, 'Token::write_to', [Ref(lambda: t, None), Ref(lambda: sink, None)])
        if total != N: raise Violation(f'byte_len sum {total} != {N}', wit)
        if len(sink) != N: raise Violation(f'printed {len(sink)} bytes for {N} input bytes', wit)
        neq = z3.Or([a.z() != b.z() for a, b in zip(sink, inp)]) if sink else z3.BoolVal(False)
        if ctx.feasible(neq):
            ctx.solver.add(neq); raise Violation('printed bytes differ', wit)
    return h

if __name__ == '__main__':
    N = int(sys.argv[1]); t = time.time()
    st = explore(harness(N))
    print(f'C17A N={N} paths={st["paths"]} solver_calls={st["solver"]} exhausted={st["exhausted"]} time={time.time()-t:.1f}s')
    for v in st['violations'][:6]: print('VIOLATION', v)
