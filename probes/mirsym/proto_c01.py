import sys, time, os
os.environ['ENUM_EXTRA'] = '1'
import proto_c04 as C4      # brings SetV/MapK models and proto_c11's machinery
from proto_c04 import SetV, MapK, canon, sym
import proto_c11 as P
from interp import *
from mslib import model, M, ArrIt, call_callable, ENUMS, enums_from
import z3
I = P.I
deref = P.deref
ENUMS.update(enums_from('/repo/vhdl_lang/src/ast/any_design_unit.rs'))

def fully(v):
    v = deref(v)
    while isinstance(v, Ref): v = v.get()
    return v
def refs(items): return ArrIt([Ref((lambda x: (lambda: x))(x), None) for x in items])
@model('re:^HashSet::(union|intersection|difference)$')
def _(I, ctx, a, b):
    op = ctx.cur_key.split('::')[-1]; A, B = fully(a), fully(b)
    if op == 'union': items = list(A.items) + [x for x in B.items if not A.has(x)]
    elif op == 'intersection': items = [x for x in A.items if B.has(x)]
    else: items = [x for x in A.items if not B.has(x)]
    return refs(items)
@model('re:^<.* as Iterator>::cloned$')
def _(I, ctx, it): return ArrIt([I.deepcopy(fully(x)) for x in it.items[it.i:]])
@model('re:^<.* as Iterator>::collect$')
def _(I, ctx, it):
    s = SetV()
    for x in it.items[it.i:]:
        if not s.has(x): s.items.append(x)
    return s
@model('re:^<.* as Iterator>::chain$')
def _(I, ctx, a, b): return ArrIt(list(a.items[a.i:]) + list(b.items[b.i:]))
@model('re:^<.* as Iterator>::any$')
def _(I, ctx, it, f):
    it = fully(it)
    for x in it.items[it.i:]:
        r = call_callable(I, ctx, f, [x])
        if not isinstance(r, bool): r = ctx.branch(r)
        if r: return True
    return False
@model('re:^HashSet::remove$')
def _(I, ctx, r, k):
    s = fully(r)
    for i, x in enumerate(s.items):
        if canon(x) == canon(k): del s.items[i]; return True
    return False
@model('re:^HashMap::values_mut$|^HashMap::values$')
def _(I, ctx, m): return refs([v for _, v in fully(m).kv])
@model('re:^HashMap::iter$')
def _(I, ctx, m): return ArrIt([Agg('tuple', [Ref((lambda x: (lambda: x))(k), None), Ref((lambda x: (lambda: x))(v), None)]) for k, v in fully(m).kv])
@model('re:^HashMap::get_mut$')
def _(I, ctx, m, k):
    mp = fully(m); i = mp.find(k)
    if i < 0: return NONE()
    v = mp.kv[i][1]; return SOME(Ref(lambda: v, None))
@model('re:^HashMap::remove$')
def _(I, ctx, m, k):
    mp = fully(m); i = mp.find(k)
    if i < 0: return NONE()
    v = mp.kv[i][1]; del mp.kv[i]; return SOME(v)
@model('re:^HashMap::retain$')
def _(I, ctx, m, f):
    mp = fully(m); keep = []
    for k, v in mp.kv:
        r = call_callable(I, ctx, f, [Ref((lambda x: (lambda: x))(k), None), Ref((lambda x: (lambda: x))(v), None)])
        if not isinstance(r, bool): r = ctx.branch(r)
        if r: keep.append((k, v))
    mp.kv[:] = keep; return UNIT
@model('re:^std::mem::drop$')
def _(I, ctx, v): return UNIT
@model('re:^parking_lot::lock_api::RwLock::(read|write)$')
def _(I, ctx, r): return Agg('Guard', [fully(r)])
@model('re:^<parking_lot::lock_api::(Mapped)?RwLock(Read|Write)Guard<.*> as Deref(Mut)?>::deref(_mut)?$')
def _(I, ctx, g):
    mp = fully(g).fields[0]; return Ref(lambda: mp, None)
@model('re:^parking_lot::lock_api::RwLockWriteGuard::map$')
def _(I, ctx, g, f):
    inner = g.fields[0]
    r = call_callable(I, ctx, f, [Ref(lambda: inner, None)])
    return Agg('Guard', [fully(r)])
RESETS = []
@model('search::clear_references')
def _(I, ctx, tree, tokens): return UNIT
@model('clear_references')
def _(I, ctx, tree, tokens): return UNIT
@model('re:^<Symbol as PartialEq>::eq$')
def _(I, ctx, a, b): return canon(a) == canon(b)
@model('re:^<Option<&.*Symbol> as PartialEq>::eq$|^<Option<&symbol_table::Symbol> as PartialEq>::eq$')
def _(I, ctx, a, b):
    x, y = fully(a), fully(b)
    if x.variant != y.variant: return False
    return True if x.variant == 'None' else canon(x.fields[0]) == canon(y.fields[0])
@model('re:^Option::as_ref$')
def _(I, ctx, r):
    o = fully(r)
    if o.variant == 'None': return NONE()
    v = o.fields[0]; return SOME(Ref(lambda: v, None))
@model('re:^Option::cloned$')
def _(I, ctx, o):
    if o.variant == 'None': return NONE()
    return SOME(I.deepcopy(fully(o.fields[0])))

LIB = sym(100)
def mk_unit(name_id, kind):
    # kind in 'pkg','body','ent'
    if kind == 'pkg': return Agg('UnitId', [LIB, Agg('AnyKind', [Agg('PrimaryKind', [], 'Package', 2)], 'Primary', 0), Agg('UnitKey', [sym(name_id)], 'Primary', 0)])
    if kind == 'ent': return Agg('UnitId', [LIB, Agg('AnyKind', [Agg('PrimaryKind', [], 'Entity', 0)], 'Primary', 0), Agg('UnitKey', [sym(name_id)], 'Primary', 0)])
    return Agg('UnitId', [LIB, Agg('AnyKind', [Agg('SecondaryKind', [], 'PackageBody', 1)], 'Secondary', 1), Agg('UnitKey', [sym(name_id), sym(name_id)], 'Secondary', 1)])

def harness():
    U = [mk_unit(1, 'pkg'), mk_unit(1, 'body'), mk_unit(2, 'ent')]
    NU = len(U)
    def h(ctx):
        adj = [[z3.Bool(f'e{a}_{b}') for b in range(NU)] for a in range(NU)]   # users_of[a] contains b  (b uses a)
        added = [z3.Bool(f'add{i}') for i in range(NU)]; removed = [z3.Bool(f'rem{i}') for i in range(NU)]
        present = [z3.Bool(f'pres{i}') for i in range(NU)]
        for a in range(NU): ctx.assume(z3.Not(adj[a][a]))
        for i in range(NU):
            ctx.assume(z3.Implies(added[i], present[i]))                       # an added unit is in the library
            ctx.assume(z3.Implies(z3.And(removed[i], z3.Not(added[i])), z3.Not(present[i])))
        def wit(m):
            T = lambda v: z3.is_true(m.eval(v, model_completion=True))
            return dict(edges=[(a, b) for a in range(NU) for b in range(NU) if T(adj[a][b])], added=[i for i in range(NU) if T(added[i])], removed=[i for i in range(NU) if T(removed[i])], present=[i for i in range(NU) if T(present[i])])
        users_of = MapK()
        for a in range(NU):
            s = None
            for b in range(NU):
                if ctx.branch(adj[a][b]):
                    if s is None: s = SetV(); users_of.kv.append((I.deepcopy(U[a]), s))
                    s.items.append(I.deepcopy(U[b]))
        units = MapK(); locked = {}
        sadd, srem = SetV(), SetV()
        for i in range(NU):
            if ctx.branch(present[i]):
                lu = Agg('LockedUnit', [None, None, I.deepcopy(U[i]), Agg('AnalysisLock', [Agg('AnalysisState', [SOME(Agg('AnalysisData', [])), Agg('AnyDesignUnit', [])])]), VecV([])])
                units.kv.append((I.deepcopy(U[i].fields[2]), lu)); locked[i] = lu
            if ctx.branch(added[i]): sadd.items.append(I.deepcopy(U[i]))
            if ctx.branch(removed[i]): srem.items.append(I.deepcopy(U[i]))
        lib = Agg('Library', [LIB, None, None, units, MapK(), srem, sadd, VecV([])])
        libraries = MapK(); libraries.kv.append((LIB, lib))
        root = Agg('DesignRoot', [None] * 6 + [libraries, None, users_of, MapK(), MapK()])
        try:
            I.call(ctx, 'DesignRoot::reset', [Ref(lambda: root, None)])
        except Panic as p:
            raise Violation('panic ' + str(p), wit)
        was_reset = {i: locked[i].fields[3].fields[0].fields[0].variant == 'None' for i in locked}
        # oracle (superset form): closure over users_of of added ∪ removed must be reset (if still present)
        r = [[adj[a][b] for b in range(NU)] for a in range(NU)]
        for k in range(NU):
            r = [[z3.Or(r[a][b], z3.And(r[a][k], r[k][b])) for b in range(NU)] for a in range(NU)]
        for i in locked:
            must = z3.Or([z3.Or(added[j], removed[j]) if j == i else z3.And(z3.Or(added[j], removed[j]), r[j][i]) for j in range(NU)])
            if not was_reset[i] and ctx.feasible(must):
                ctx.solver.add(must); raise Violation(f'unit {i} depends on a changed unit but was not reset', wit)
        # cleanup: removed-only units no longer keys of users_of
        for j in range(NU):
            if users_of.find(U[j]) >= 0:
                bad = z3.And(removed[j], z3.Not(added[j]))
                if ctx.feasible(bad):
                    ctx.solver.add(bad); raise Violation(f'removed unit {j} still a key of users_of', wit)
        if sadd.items or srem.items: raise Violation('added/removed not drained', wit)
    return h

if __name__ == '__main__':
    t = time.time(); st = explore(harness())
    print(f'C01 reset: paths={st["paths"]} infeasible={st["infeasible"]} solver_calls={st["solver"]} exhausted={st["exhausted"]} time={time.time()-t:.1f}s')
    for v in st['violations'][:5]: print('VIOLATION', v)
