import sys, os, time, importlib, importlib.util, copy
sys.path.insert(0, '/tmp/probe/mirsym')
# instance 1: vhdl_lang (through proto_c11, which sets MIR env itself)
import proto_c11 as L
from interp import *
import z3
# instance 2: vhdl_syntax -- load fresh copies of mslib + proto_c17b under other names
os.environ['MIR'] = '/tmp/probe/vhdl_syntax.mir'
os.environ['ENUM_FILES'] = 'vhdl_syntax/src/tokens/tokenizer.rs,vhdl_syntax/src/tokens/trivia_piece.rs,vhdl_syntax/src/tokens/token_kind.rs,vhdl_syntax/src/standard.rs'
saved = {k: sys.modules.pop(k) for k in ['mslib', 'proto_c10'] if k in sys.modules}
src = open('/tmp/probe/mirsym/proto_c17b.py').read().split("if __name__ == '__main__':")[0]
S = type(sys)('proto_c17b_inst'); S.__dict__['__name__'] = 'proto_c17b_inst'
exec(compile(src, 'proto_c17b.py', 'exec'), S.__dict__)
IS = S.I; IL = L.I
ArrItS = S.ArrIt

def lang_lexemes(ctx, chars):
    """tokenise with vhdl_lang; return list of (start_col, end_col) per token (single line inputs only) or None on any diagnostic"""
    from proto_c10 import sym_str
    s = sym_str(ctx, chars)
    lines = IL.call(ctx, 'split_lines', [Ref(lambda: s, None)])
    contents = Agg('Contents', [lines])
    reader = IL.call(ctx, 'ContentReader::new', [Ref(lambda: contents, None)])
    symbols = copy.deepcopy(L.SYMBOLS)
    source = Agg('Source', [Agg('UniqueSource', [])])
    tk = IL.call(ctx, 'Tokenizer::new', [Ref(lambda: symbols, None), Ref(lambda: source, None), reader])
    out = []
    for _ in range(len(chars) + 2):
        r = IL.call(ctx, 'Tokenizer::pop', [Ref(lambda: tk, None)])
        if r.variant == 'Err': return None
        o = r.fields[0]
        if o.variant == 'None':
            if tk.fields[6].items: return None          # tokenizer-level diagnostics (identifier warnings)
            return out
        t = o.fields[0]
        kind = t.fields[0].variant
        if kind == 'GraveAccent': return None
        rng = t.fields[2].fields[1]
        st, en = rng.fields
        out.append((kind, ctx.concretize(st.fields[0]), ctx.concretize(st.fields[1]), ctx.concretize(en.fields[0]), ctx.concretize(en.fields[1])))
    return None

def syn_lexemes(ctx, bytes_):
    tok = IS.call(ctx, 'Tokenizer::new', [ArrItS(list(bytes_))])
    tr = Ref(lambda: tok, None)
    out = []
    while True:
        r = IS.call(ctx, '<Tokenizer as Iterator>::next', [tr])
        if r.variant == 'None': break
        t, err = r.fields[0].fields
        if err.variant == 'Some': return None
        sym = t.fields[1].fields[0]     # Token{leading_trivia, symbol} -> SymbolInner{kind,value,id}? stub order: [kind, text, id]
        kind = sym.fields[0]; text = sym.fields[1]
        while isinstance(text, (Agg, Ref)): text = text.get() if isinstance(text, Ref) else text.fields[0]
        text = text if isinstance(text, list) else (text.items if isinstance(text, VecV) else text.items())
        if kind.variant == 'ToolDirective': return None
        if kind.variant == 'Eof': break
        out.append((kind.variant, kind, list(text)))
    return out

def harness(N):
    if L.SYMBOLS is None: L.SYMBOLS = L.build_symbols()
    def h(ctx):
        bs = [BV(z3.BitVec(f'b{i}', 8), 8) for i in range(N)]
        # single-line inputs in this spike: no CR/LF
        for b in bs: ctx.assume(z3.And(b.z() != 10, b.z() != 13))
        if os.environ.get('B0'): ctx.assume(bs[0].z() == int(os.environ['B0']))
        def wit(m): return bytes(m.eval(b.z(), model_completion=True).as_long() for b in bs)
        chars = [BV(z3.ZeroExt(24, b.z()), 32) for b in bs]     # Latin-1 decode: one char per byte
        la = lang_lexemes(ctx, chars)
        if la is None: return
        sy = syn_lexemes(ctx, bs)
        if sy is None: return
        # merge bit strings on the vhdl_syntax side is a post-pass; emulate by comparing boundaries only where kinds are not Identifier+StringLiteral
        la_spans = [(c0, c1) for (_, l0, c0, l1, c1) in la]
        pos = 0; sy_spans = []
        # recompute spans of vhdl_syntax tokens by searching forward: text length known, leading trivia skipped via byte_len
        # simpler: total lexeme lengths in order
        la_lens = [c1 - c0 for (c0, c1) in la_spans]
        sy_lens = [len(t) for (_, _, t) in sy]
        if la_lens != sy_lens:
            # allow the documented merge: [AbstractLiteral] Identifier StringLiteral -> one BitString on the vhdl_lang side
            raise Violation(f'lexeme lengths differ: vhdl_lang {[(k,)+(c0,c1) for (k,_,c0,_,c1) in la]} vs vhdl_syntax {[(k, len(t)) for (k,_,t) in sy]}', wit)
    return h

if __name__ == '__main__':
    N = int(sys.argv[1]); t = time.time()
    st = explore(harness(N))
    print(f'C18 N={N} paths={st["paths"]} solver_calls={st["solver"]} exhausted={st["exhausted"]} time={time.time()-t:.1f}s')
    seen = set()
    for msg, w in st['violations']:
        print('VIOLATION', w, msg[:200])
