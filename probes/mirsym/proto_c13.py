import sys, time
sys.argv = [sys.argv[0]] + sys.argv[1:]
import proto_c11 as P
from interp import *
import z3
I = P.I
MapV, deref = P.MapV, P.deref

def lower(b):
    # Latin-1 lower-case oracle written from the LRM, independent of the code
    x = b.z()
    up = z3.Or(z3.And(z3.UGE(x, 65), z3.ULE(x, 90)), z3.And(z3.UGE(x, 192), z3.ULE(x, 214)), z3.And(z3.UGE(x, 216), z3.ULE(x, 222)))
    return z3.If(up, x + 32, x)

def harness(LA, LB, with_keywords):
    base = P.build_symbols() if with_keywords else None
    import copy
    def h(ctx):
        a = [BV(z3.BitVec(f'a{i}', 8), 8) for i in range(LA)]
        b = [BV(z3.BitVec(f'b{i}', 8), 8) for i in range(LB)]
        # basic identifiers: first byte is not a backslash (extended identifiers are a separate harness)
        for s in (a, b):
            if s: ctx.assume(s[0].z() != 92)
        def wit(m): return (bytes(m.eval(x.z(), model_completion=True).as_long() for x in a), bytes(m.eval(x.z(), model_completion=True).as_long() for x in b))
        symtab = copy.deepcopy(base.fields[0]) if base else Agg('SymbolTable', [MapV()])
        la = Agg('Latin1String', [VecV(list(a))]); lb = Agg('Latin1String', [VecV(list(b))])
        sa = I.call(ctx, 'SymbolTable::insert', [Ref(lambda: symtab, None), Ref(lambda: la, None)])
        sb = I.call(ctx, 'SymbolTable::insert', [Ref(lambda: symtab, None), Ref(lambda: lb, None)])
        ida, idb = sa.fields[0], sb.fields[0]
        same_id = (ida.e == idb.e) if (ida.conc() and idb.conc()) else None
        if LA == LB:
            eq_low = z3.And([lower(x) == lower(y) for x, y in zip(a, b)]) if a else z3.BoolVal(True)
        else:
            eq_low = z3.BoolVal(False)
        if same_id is None: raise Unsupported('symbolic id')
        bad = z3.Not(eq_low) if same_id else eq_low
        if ctx.feasible(bad):
            ctx.solver.add(bad); raise Violation(f'ids {"equal" if same_id else "differ"} but case-folded names {"differ" if same_id else "are equal"}', wit)
    return h

if __name__ == '__main__':
    LA, LB = int(sys.argv[1]), int(sys.argv[2]); kw = len(sys.argv) > 3
    t = time.time(); st = explore(harness(LA, LB, kw))
    print(f'C13 |a|={LA} |b|={LB} keywords={kw} paths={st["paths"]} solver_calls={st["solver"]} exhausted={st["exhausted"]} time={time.time()-t:.1f}s')
    for v in st['violations'][:5]: print('VIOLATION', v)
