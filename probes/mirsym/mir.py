"""Prototype: parse `-Zunpretty=mir` text into a tiny IR (only what contents.rs needs)."""
import re

class Fn:
    def __init__(self, name, nargs, blocks, ret_ty, arg_tys):
        self.name, self.nargs, self.blocks, self.ret_ty, self.arg_tys = name, nargs, blocks, ret_ty, arg_tys

FN_RE = re.compile(r'^fn (.+?)\((.*)\) -> (.+) \{$')
CONST_RE = re.compile(r'^const (.+?promoted\[\d+\]): (.+) = \{$')
BB_RE = re.compile(r'^\s+bb(\d+)( \(cleanup\))?: \{$')

def split_top(s, sep=','):
    out, depth, cur = [], 0, ''
    i = 0
    in_str = False
    while i < len(s):
        c = s[i]
        if in_str:
            cur += c
            if c == '\\':
                cur += s[i+1]; i += 1
            elif c == '"':
                in_str = False
        elif c == '"':
            in_str = True; cur += c
        elif c == "'" and i + 2 < len(s) and s[i+2] == "'":
            cur += s[i:i+3]; i += 2
        elif c == "'" and i + 3 < len(s) and s[i+1] == '\\' and s[i+3] == "'":
            cur += s[i:i+4]; i += 3
        elif c in '([{<':
            depth += 1; cur += c
        elif c in ')]}>' and not (c == '>' and cur.endswith('-')):
            depth -= 1; cur += c
        elif c == sep and depth == 0:
            out.append(cur.strip()); cur = ''
        else:
            cur += c
        i += 1
    if cur.strip():
        out.append(cur.strip())
    return out

def load(path):
    fns = {}
    cur = None
    lines = open(path).read().split('\n')
    i = 0
    while i < len(lines):
        l = lines[i]
        m = FN_RE.match(l)
        mc = (CONST_RE.match(l) or re.match(r'^(?:const|static) (\S+): (.+) = \{$', l)) if not m else None
        if (m or mc) and not l.startswith(' '):
            name, args, ret = (m.group(1), m.group(2), m.group(3)) if m else (mc.group(1), '', mc.group(2))
            arg_list = split_top(args) if args.strip() else []
            blocks = {}
            i += 1
            bb = None
            while i < len(lines) and lines[i] != '}':
                l2 = lines[i]
                mb = BB_RE.match(l2)
                if mb:
                    bb = int(mb.group(1)); blocks[bb] = []
                elif bb is not None and l2.strip() == '}':
                    bb = None
                elif bb is not None:
                    s = l2.strip()
                    # statements may span several lines for long aggregates; join until ';' or terminator
                    blocks[bb].append(s)
                i += 1
            fns[name] = Fn(name, len(arg_list), blocks, ret, arg_list)
        i += 1
    return fns
