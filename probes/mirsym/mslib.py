import sys, time, re, z3
sys.path.insert(0, '/tmp/probe/mirsym')
from interp import *
import interp
from proto_c10 import M as M0, deref

M = dict(M0)
def model(name):
    def deco(f): M[name] = f; return f
    return deco

import os
REPO = '/repo/'
fns = load(os.environ.get('MIR', '/tmp/probe/vhdl_syntax.mir'))

# ---------- enum variant tables from source ----------
def enums_from(path):
    src = open(path).read()
    out = {}
    for m in re.finditer(r'\benum (\w+)\s*\{', src):
        i = m.end(); d = 1; body = ''
        while d:
            c = src[i]
            if c == '{': d += 1
            elif c == '}': d -= 1
            if d: body += c
            i += 1
        body = re.sub(r'"(\\.|[^"\\])*"', '""', body)
        body = re.sub(r'//[^\n]*', '', body)
        body = re.sub(r'#\[[^\]]*\]', '', body)
        vs = []
        depth = 0; cur = ''
        for c in body:
            if c in '({': depth += 1
            elif c in ')}': depth -= 1
            elif c == ',' and depth == 0:
                vs.append(cur); cur = ''; continue
            if depth == 0 or c in '({': cur += c if depth == 0 else ''
        vs.append(cur)
        out[m.group(1)] = [re.match(r'\s*(\w+)', v).group(1) for v in vs if re.match(r'\s*(\w+)', v)]
    return out
ENUMS = {}
for f in os.environ.get('ENUM_FILES', 'vhdl_syntax/src/tokens/tokenizer.rs,vhdl_syntax/src/tokens/trivia_piece.rs,vhdl_syntax/src/tokens/token_kind.rs,vhdl_syntax/src/standard.rs').split(','):
    ENUMS.update(enums_from(REPO + f))
ENUMS['ControlFlow'] = ['Continue', 'Break']

# ---------- impl resolution: (Type, method) -> def name ----------
IMPL_AT = re.compile(r'<impl at ([^:]+):(\d+):(\d+): (\d+):(\d+)>::(\w+)$')
RES = {}
RES_MULTI = {}
_src_cache = {}
def src_lines(p):
    if p not in _src_cache: _src_cache[p] = open(REPO + p).read().split('\n')
    return _src_cache[p]
for name in fns:
    m = IMPL_AT.search(name)
    if not m: continue
    lines = src_lines(m.group(1)); L = int(m.group(2)); C = int(m.group(3))
    line = lines[L - 1]
    meth = m.group(6)
    if line.lstrip().startswith('#[derive'):
        trait = re.match(r'\w+', line[C - 1:]).group(0)
        k = L
        while not re.search(r'\b(struct|enum)\s+(\w+)', lines[k]): k += 1
        ty = re.search(r'\b(struct|enum)\s+(\w+)', lines[k]).group(2)
        RES[f'<{ty} as {trait}>::{meth}'] = name
    else:
        hdr = line
        k = L
        if 'impl' not in hdr: continue
        while '{' not in hdr: hdr += ' ' + lines[k].strip(); k += 1
        hdr = hdr[:hdr.index('{')].strip()
        hdr = hdr[4:].lstrip() if hdr.startswith('impl') else hdr
        if hdr.startswith('<'):
            d = 0
            for j, c in enumerate(hdr):
                if c == '<': d += 1
                elif c == '>' and hdr[j-1] != '-':
                    d -= 1
                    if d == 0: break
            hdr = hdr[j+1:].lstrip()
        hdr = re.sub(r'\s+where\b.*$', '', hdr)
        if ' for ' in hdr:
            trait, ty = hdr.split(' for ', 1)
            _full = line
            _k = L
            while '{' not in _full: _full += ' ' + lines[_k].strip(); _k += 1
            _g = re.match(r'\s*(?:unsafe )?impl<(.*?)>\s', _full)
            _generics = [x.strip().split(':')[0].replace('const ', '').strip() for x in _g.group(1).split(',')] if _g else []
            mm = re.match(r'&?(?:mut )?(?:\'\w+ )?([\w:]+)', ty.strip())
            if not mm: continue
            tyb = mm.group(1).split('::')[-1]
            RES.setdefault(f'<{tyb} as {trait.strip()}>::{meth}', name)
            _tb = interp.Interp.strip_generics(trait.strip()).split('<')[0].split('::')[-1]
            _ta = trait.strip()[trait.strip().index('<')+1:-1] if '<' in trait else ''
            RES_MULTI.setdefault(f'<{tyb} as {_tb}>::{meth}', []).append((_ta, _generics, name))
            RES.setdefault(f'<{tyb} as {interp.Interp.strip_generics(trait.strip()).split("<")[0]}>::{meth}', name)
            RES.setdefault(f'<{tyb} as {interp.Interp.strip_generics(trait.strip()).split("<")[0].split("::")[-1]}>::{meth}', name)
        else:
            mm = re.match(r'[\w:]+', hdr)
            if not mm: continue
            tyb = mm.group(0).split('::')[-1]
            RES[f'{tyb}::{meth}'] = name

class I2(Interp):
    def resolve_strict(self, name):
        if name.startswith(('std::', 'core::', 'alloc::', '<std::', '<core::', '<alloc::')): return None
        mm = re.match(r'^<&?(?:mut )?([\w:]+)(?:<.*>)? as ([\w:]+)<(.*)>>::(\w+)$', name)
        if mm:
            k = f'<{mm.group(1).split("::")[-1]} as {mm.group(2).split("::")[-1]}>::{mm.group(4)}'
            cands = RES_MULTI.get(k, [])
            if len(cands) > 1:
                arg = mm.group(3); best = None
                for pat, gens, nm in cands:
                    rx = re.escape(pat)
                    for gname in gens:
                        if gname: rx = re.sub(r'(?<![\w])' + re.escape(gname) + r'(?![\w])', '.+', rx)
                    rx = rx.replace("\\'a\\ ", "").replace("\\'_\\ ", "")
                    if re.fullmatch(rx, arg):
                        score = len(re.sub(r'\.\+', '', rx))
                        if best is None or score > best[0]: best = (score, nm)
                if best: return self.fns[best[1]]
                return None
        if name in self.fns: return self.fns[name]
        if name in RES: return self.fns[RES[name]]
        m = re.match(r'^<&?(?:mut )?([\w:]+)(?:<.*>)? as ([\w:]+)(<.*>)?>::(\w+)$', name)
        if m:
            k = f'<{m.group(1).split("::")[-1]} as {m.group(2).split("::")[-1]}>::{m.group(4)}'
            if k in RES: return self.fns[RES[k]]
            # trait default method: `<mod>::Trait::method`
            dflt = [n for n in self.by_suffix.get(m.group(4), []) if n.endswith('::' + m.group(2).split('::')[-1] + '::' + m.group(4)) or n == m.group(2).split('::')[-1] + '::' + m.group(4)]
            if len(dflt) == 1: return self.fns[dflt[0]]
        return None
    def find_fn(self, name):
        if name in self.fns: return self.fns[name]
        mp = re.match(r'^(.*)::(promoted\[\d+\])$', name)
        if mp:
            base = re.sub(r'::<(&mut |&)?impl [^>]*>$', '', self.strip_generics(mp.group(1)))
            b = self.find_fn(base)
            return self.fns[b.name + '::' + mp.group(2)]
        if name in RES: return self.fns[RES[name]]
        m = re.match(r'^<&?(?:mut )?([\w:]+)(?:<.*>)? as ([\w:]+)(<.*>)?>::(\w+)$', name)
        if m:
            k = f'<{m.group(1).split("::")[-1]} as {m.group(2).split("::")[-1]}>::{m.group(4)}'
            if k in RES: return self.fns[RES[k]]
        short = re.sub(r'^.*::(\w+::\w+)$', r'\1', name)
        if short in RES: return self.fns[RES[short]]
        return super().find_fn(name)

# ---------- extra std models ----------
class ArrIt:
    def __init__(self, items): self.items, self.i = items, 0
class Peek:
    def __init__(self, it): self.it, self.peeked = it, None   # peeked: None | ('v', Option)
def it_next(ctx, it):
    while isinstance(it, Ref): it = it.get()
    if isinstance(it, ArrIt):
        if it.i < len(it.items):
            v = it.items[it.i]; it.i += 1; return SOME(v)
        return NONE()
    if isinstance(it, Peek):
        if it.peeked is not None:
            v = it.peeked[1]; it.peeked = None; return v
        return it_next(ctx, it.it)
    if isinstance(it, Agg) and it.name.endswith('Range'):
        a, b = it.fields
        if ctx.branch(z3.ULT(a.z(), b.z()) if not (a.conc() and b.conc()) else a.e < b.e):
            it.fields[0] = BV(a.e + 1, a.bits) if a.conc() else BV(a.e + 1, a.bits)
            return SOME(a)
        return NONE()
    raise Unsupported('next on ' + repr(it))
@model('re:^<.* as Iterator>::next$')
def _(I, ctx, r): return it_next(ctx, deref(r))
@model('re:^<.* as Iterator>::peekable$')
def _(I, ctx, it): return Peek(it)
@model('re:^<.* as IntoIterator>::into_iter$')
def _(I, ctx, it):
    v = it
    while isinstance(v, Ref): v = v.get()
    if isinstance(v, VecV):
        byref = isinstance(it, Ref)
        return ArrIt([Ref((lambda x: (lambda: x))(x), None) if byref else x for x in v.items])
    return it
@model('Peekable::peek')
def _(I, ctx, r):
    p = deref(r)
    if p.peeked is None: p.peeked = ('v', it_next(ctx, p.it))
    o = p.peeked[1]
    if o.variant == 'None': return NONE()
    return SOME(Ref(lambda: o.fields[0], None))
@model('Option::copied')
def _(I, ctx, o):
    return NONE() if o.variant == 'None' else SOME(deref(o.fields[0]))
def call_callable(I, ctx, f, args):
    f0 = deref(f)
    # closure value: Agg whose name is the closure type
    cname = f0.name if isinstance(f0, Agg) else None
    if cname and cname.startswith('fnitem:'): return I.call(ctx, cname[7:], list(args))
    for n, fn in I.fns.items():
        if '{closure#' in n and fn.arg_tys and cname and cname in fn.arg_tys[0]:
            a0 = f0 if not fn.arg_tys[0].split(': ', 1)[1].startswith('&') else Ref(lambda: f0, None)
            return I.call_fn(ctx, fn, [a0] + list(args))
    raise Unsupported('callable ' + repr(f0))
@model('Option::is_some_and')
def _(I, ctx, o, f):
    if o.variant == 'None': return False
    return call_callable(I, ctx, f, [o.fields[0]])
@model('std::mem::replace')
def _(I, ctx, r, v):
    old = r.get(); r.set(v); return old
@model('<Option<u8> as PartialEq>::eq')
def _(I, ctx, a, b):
    a, b = deref(a), deref(b)
    if a.variant != b.variant: return False
    if a.variant == 'None': return True
    x, y = a.fields[0], b.fields[0]
    return (x.e == y.e) if (x.conc() and y.conc()) else (x.z() == y.z())
@model('<Option<u8> as Try>::branch')
def _(I, ctx, o):
    if o.variant == 'Some': return Agg('ControlFlow', [o.fields[0]], 'Continue', 0)
    return Agg('ControlFlow', [NONE()], 'Break', 1)
@model('<Option<(TriviaPiece, Option<LexErrKind>)> as FromResidual<Option<Infallible>>>::from_residual')
def _(I, ctx, r): return NONE()
@model('<Vec<u8> as Default>::default')
def _(I, ctx): return VecV([])
@model('<Vec<TriviaPiece> as Default>::default')
def _(I, ctx): return VecV([])
@model('re:^<Vec<.*> as Into<Vec<.*>>>::into$')
def _(I, ctx, v): return v
@model('re:^<Vec<.*> as Deref(Mut)?>::deref(_mut)?$')
def _(I, ctx, r): return Ref(lambda: deref(r), None)
@model('re:^core::slice::<impl \\[.*\\]>::iter$')
def _(I, ctx, r):
    v = deref(r)
    while isinstance(v, Ref): v = v.get()
    return ArrIt([Ref((lambda x: (lambda: x))(x), None) for x in (v.items if isinstance(v, VecV) else (v.items() if isinstance(v, SliceV) else v))])
@model('re:^<&Vec<.*> as IntoIterator>::into_iter$')
def _(I, ctx, r):
    v = deref(r); return ArrIt([Ref((lambda x: (lambda: x))(x), None) for x in v.items])
@model('re:^<.* as std::io::Write>::write_all$')
def _(I, ctx, w, buf):
    b = deref(buf)
    items = b.items() if isinstance(b, SliceV) else (b.items if isinstance(b, VecV) else (b.b if isinstance(b, StrV) else b))
    deref(w).extend(items); return Agg('Result', [UNIT], 'Ok', 0)
@model('<Result<(), std::io::Error> as Try>::branch')
def _(I, ctx, r): return Agg('ControlFlow', [UNIT], 'Continue', 0) if r.variant == 'Ok' else Agg('ControlFlow', [r], 'Break', 1)
@model('re:^<.* as Iterator>::fold$')
def _(I, ctx, it, init, f):
    acc = init
    while True:
        o = it_next(ctx, it)
        if o.variant == 'None': return acc
        acc = call_callable(I, ctx, f, [acc, o.fields[0]])
@model('re:^<impl Into<.*> as Into<.*>>::into$')
def _(I, ctx, v): return v
@model('Vec::as_slice')
def _(I, ctx, r): return Ref(lambda: deref(r), None)

interp.M = M
I = I2(fns, M, ENUMS)

# byte-string / array constants: `const b"\t"` -> reference to list
_old_const = Interp.eval_const
def eval_const(self, ctx, s, frame):
    body = s[6:]
    if body.startswith('b"'):
        bs = eval(body)
        l = [BV(x, 8) for x in bs]
        return Ref(lambda: l, None)
    mz = re.match(r'^ZeroSized: (\{closure@[^}]*\})$', body)
    if mz: return Agg(mz.group(1), [])
    return _old_const(self, ctx, s, frame)
Interp.eval_const = eval_const

