#!/bin/bash
# Build everything the checks need from files on disk (offline): MIR dumps and the native replay binary.
set -e
cd "$(dirname "$0")"
export CARGO_NET_OFFLINE=true
python3-vt - <<'PY'
from mirsym import build
for c in ('vhdl_lang', 'vhdl_syntax', 'vhdl_ls'):
    build.mir_dump(c)
build.native_build()
print('setup ok')
PY
